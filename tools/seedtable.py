#!/usr/bin/env python3
"""prints the markdown table of /verif/seeded/*/meta.json (for DESIGN.md 8.6)"""
import glob, json, os
rows = []
for f in sorted(glob.glob(os.path.join(os.path.dirname(os.path.dirname(os.path.abspath(__file__))), 'seeded', '*', 'meta.json'))):
    m = json.load(open(f))
    rows.append((m['id'], m['property'], m['check_result'], m['needs_to_manifest'], m.get('strengthened', '')))
print('| seeded change | needs in order to manifest | result of `./vcheck <prop> --tier quick` | what was strengthened |')
print('|---|---|---|---|')
for i, p, r, n, s in rows:
    print(f'| `{i}` | {n} | {r} | {s or "-"} |')
