#!/usr/bin/env python3
"""Regenerates /verif/MANIFEST.json from the table below and validates it against the schema.
A property is claimed iff checks/cxx_*.py exists AND it has an entry in CHECKS."""
import glob
import json
import os
import sys

VERIF = os.path.dirname(os.path.dirname(os.path.abspath(__file__)))

# id -> (category, technique, level text, level note, design ref)
CHECKS = {
    'C19': ('exploration',
            'exhaustive enumeration of version pairs/triples/range pairs + Hypothesis text versions vs reference comparator and witness-grid membership',
            'All ordered pairs of ~1100 version strings (<=3 components over a 10-token alphabet) are checked against the order axioms and an '
            'independent reference comparator, every operator spelling through version_compare, all triples of a core subset for transitivity, '
            'all pairs of ranges over a version chain for intersect/always with membership decided on a witness grid that has a point below, at, '
            'between and above every bound, all constraint lists <=2 (<=3 thorough) for version_check_to_range / version_compare_many / '
            'condition_with_min, plus seeded Hypothesis arbitrary-text versions. Exhaustive up to the stated bounds, sampled beyond.',
            'Trusts the reference comparator (self-tested first on hand-computed examples) and the completeness of the witness grid for interval logic over the chain.',
            'DESIGN.md 3/C19'),
}

CHECKS['C04'] = ('exploration',
    'Hypothesis project-model generator -> real meson setup -> independent Ninja manifest parser (rules, unique producers, acyclicity, closed inputs, reachability); certain-collision projects must be rejected',
    'Seeded Hypothesis project models (target graphs with all target kinds, odd names, subdirs, subproject, layout/default_library/unity) are configured by the real '
    'meson and build.ninja is judged by an independent implementation of the Ninja manifest language: syntax, defined rules, single producer per path (explicit and '
    'implicit outputs, canonicalised), acyclic, every input exists or is produced, every built-by-default target reachable from `all`, every target a test runs / '
    'depends on / takes as argument reachable from meson-test-prereq (benchmark: meson-benchmark-prereq); models carrying a certain collision or reserved name must '
    'fail to configure with an error. Thorough adds every configurable project of the repository test corpus. Sampled, not exhaustive.',
    'Validity is judged by harness/refninja.py (no ninja binary in the sandbox), self-tested on the Ninja manual examples; Linux output naming assumed for reachability lookups.',
    'DESIGN.md 3/C04')

CHECKS['C05'] = ('exploration',
    'Hypothesis project models -> real meson setup -> build.ninja executed by an independent Ninja implementation under harness-owned schedules; hermetic per-edge replay with only declared ancestors present; digest comparison',
    'For each generated project (generated headers really #included, custom-target chains via input:/depends:, generators, link_with/link_whole, built tools) the real '
    'build.ninja is executed: a reference build, then EVERY non-phony statement is re-run with all build outputs that are not outputs of its declared ancestors moved '
    'away (decides the for-all-schedules quantifier under a monotonicity assumption), gcc depfiles are cross-checked against declared ancestors, and random / producers-last / '
    'reverse-declaration / consumers-first orders and parallel waves must all succeed with identical artifact digests. Sampled projects; per project every edge is replayed.',
    'Executes build.ninja with harness/refninja.py (no ninja binary); assumes steps are monotone in the set of present files and tools are deterministic at fixed paths.',
    'DESIGN.md 3/C05')
CHECKS['C03'] = ('exploration',
    'Hypothesis argument strings in every command position -> real meson setup -> ninja expansion by an independent implementation -> /bin/sh / pickled wrapper / real meson test; argv recorded by a dumper vs the build definition after the four documented rewrites',
    'Generated argument strings rich in shell/ninja/response-file metacharacters are placed in custom_target (plain, capture, feed, env, newline => pickled wrapper, && separator), '
    'run_target, generator, test() args/env, per-target c_args/-D/link_args, project and global arguments, with and without response files; the generated statements are expanded by '
    'an independent Ninja implementation and really executed through /bin/sh (tests through real `meson test`), and the argv/env/stdin recorded by the executed program must equal the '
    'build definition after exactly the documented rewrites (backslash->slash in custom commands, && separation, backslash doubling in per-target -D). Sampled.',
    'POSIX branch only (shlex quoting, gcc response-file syntax); ninja de-quoting by harness/refninja.py; gcc @file parsing by a reference implementation of the documented rules.',
    'DESIGN.md 3/C03')

CHECKS['C18'] = ('exploration',
    'exhaustive enumeration of TAP line sequences + Hypothesis/seeded stream grammar + arbitrary text vs an independent TAP 12/13 reference interpreter; verdict through TestRunTAP in-process and real meson test',
    'All line sequences up to length 3 over a 34-form alphabet and length 4 over 28 forms (thorough: length 5 over 20 forms), grammar-generated and mutated longer streams, '
    'arbitrary text and decoded bytes are parsed by TAPParser and compared with an independent reference interpreter written from the TAP 12/13 documents: Test events '
    '(number, name, directive-adjusted result) exactly; >=1 Error event iff one of the eight error classes the property names is present; Bail out; nothing raises; and the '
    'whole-test verdict (TestRunTAP driven as the runner drives it, exit status 0/1/77, plus sampled real protocol:tap tests under meson test) is bad iff a subtest failed / '
    'unexpectedly passed, an error or bail-out occurred, or the exit status is non-zero. Exhaustive to the stated bounds.',
    'Trusts harness/reftap.py (self-tested on all 47 streams of unittests/taptests.py and 17 spec-style examples); corners the TAP documents leave open are excluded and counted.',
    'DESIGN.md 3/C18')

CHECKS['C20'] = ('exploration',
    'exhaustive enumeration of the (requirement, version) grid, SemVer pairs/triples, cfg trees x all assignments and malformed token strings + Hypothesis text, against a transcription of Cargo\'s semver matcher / SemVer section 11 / Boolean evaluation of the generated tree; reference cross-validated against the real cargo binary offline',
    'Every cell of 2757 requirement spellings (all operators x partial versions over {0..3} x pre-release/build tags x blank spellings) x 125 release versions (+625 pre-release spellings) and comma lists '
    'of <=3 comparators (quick: a seeded third) is compared with a transcription of the semver crate\'s matcher carrying the two pinned deviations; for pre-release versions only the claimed gate direction is '
    'demanded. All pairs and ordered triples of a 76-version SemVer set (section 11 chain, numeric/alphanumeric/hyphenated identifiers, build metadata) for order + axioms. All cfg trees of depth <=2 and '
    '(thorough: all, quick: every 12th) depth-3 trees over 5 atoms x all 40 configurations, value computed from the generated tree (no parse). All token strings of length <=4 (thorough 5) and every '
    'single-token mutation of rendered trees: text that is malformed under every reading must raise MesonException, nothing may raise anything else. Exhaustive to the stated bounds.',
    'Trusts harness/refcargo.py, which the selftest validates against real Cargo 1.95 (cargo metadata --offline on path dependencies / target cfg tables) and the pinned table of unittests/cargotests.py; '
    'behaviour for pre-release versions when a comparator names a pre-release is recorded, not asserted.',
    'DESIGN.md 3/C20')



def auto(pid, category, technique, note):
    """level text = the check module's own RULE string (single source of truth for what is generated and counted)"""
    import importlib
    sys.path.insert(0, VERIF)
    sys.path.insert(0, os.path.join(VERIF, '.deps'))
    mod = importlib.import_module('checks.' + os.path.basename(glob.glob(os.path.join(VERIF, 'checks', pid.lower() + '_*.py'))[0])[:-3])
    text = ' '.join(str(mod.RULE).split())
    CHECKS[pid] = (category, technique, text, note, f'DESIGN.md 3/{pid}')


auto('C01', 'exploration',
     'Hypothesis typed grammar of core-language programs (well-typed, one injected fault, subdir/subproject splits) -> real meson setup --backend=none (in-process, disagreements re-run in a fresh subprocess) vs an independent reference evaluator written from Syntax.md and the yaml reference: exit status, Message: trace, in-language asserts of every final value',
     'Trusts harness/refmeson.py (reference evaluator; self-tested on the documentation examples); programs the documentation leaves undefined are excluded and counted; error text and the way a failing run fails (located ERROR vs traceback) are not compared.')
auto('C02', 'exploration',
     'exhaustive enumeration of token sequences + Hypothesis token soups / grammar programs / corpus mutations + every build file of the repository (+ atheris bytes in thorough) against the oracle: located MesonException XOR byte-exact RawPrinter round trip, and recorded extents of every call/array cut exactly that construct out of the text',
     'Extents are judged by an independent scanner (token boundaries) written for the check; exhaustive only up to the stated token bound; nesting deeper than the recursion budget is excluded from the campaigns (known finding C02 crash/RecursionError:print keeps a dedicated probe).')

auto('C06', 'exploration',
     'Hypothesis project models x variations (PYTHONHASHSEED, environment order and padding, shuffled directory listings via a sitecustomize shim, fresh / reconfigured / wiped / stale build directory) -> real meson setup at identical absolute paths; differential oracle: byte equality of build.ninja, intro-*.json, compile_commands.json, configure_file outputs, generated .pc files; mtime/inode stability of configure outputs after a no-change reconfigure',
     'Directory order is perturbed at the Python API (os.listdir/scandir/glob), not in the file system; hash seeds are sampled; tool versions are fixed. One recorded finding (random names of anonymous dependencies in intro-targets.json) is normalised in the campaign and re-checked by a probe.')
auto('C07', 'exploration',
     'exhaustive enumeration of all 2^8 subsets of the eight documented sources (and 2^4 top-level subsets) per option kind + Hypothesis valid/invalid values, through the real CLI (in-process, disagreements re-run in a subprocess) and OptionStore; oracle: fold over the documented precedence list, buildtype/prefix derivation tables from Builtin-options.md, validity predicates per option type; read back through get_option() messages and introspect --buildoptions',
     'The order of entries inside one source (default_options list, machine-file section) is not asserted; deprecated-option remapping and per-language inheritance are sampled. One recorded finding (sp:buildtype overriding an explicit sp:debug) is excluded from the tables and re-checked by a probe.')
auto('C08', 'exploration',
     'Hypothesis stateful histories (setup / configure -D / -U / reconfigure / wipe / option-file edits / injected failures) against a reference model of the option state, compared after every step through introspect --buildoptions, get_option() messages and cmd_line.txt; failing histories replayed with one fresh subprocess per command',
     'Corners the documentation leaves open (type change of an option carrying a user value) are only required to be valid for the new declaration. Nine recorded findings are bucketed by root-cause signature, excluded from generation and re-checked by saved histories.')
auto('C09', 'fault_enumeration',
     'kill-point enumeration: for each generated history and mutating command the list of file-system mutations is recorded through a sitecustomize shim, then the command is re-run once per mutation (os._exit(137) before the operation, and torn half-writes) from a restored snapshot; oracle: the prescribed follow-up (setup / setup --reconfigure) exits 0 without unhandled exception and every option is either the pre-command or the intended value',
     'Kill points are Python-level mutation calls (open/write/flush/close, replace, rename, unlink, mkdir, rmdir ...) and half-writes, not individual write(2) syscalls or post-crash reordering of unsynced data; histories are sampled, kill points per history are enumerated completely. After a killed FIRST setup meson reports the directory as configured; the follow-up it recommends (--reconfigure) is judged.')
auto('C10', 'fault_enumeration',
     'decision table: seeded sample (thorough: full cross product) of system version x constraint x provider kind x wrap_mode x force_fallback_for x required x allow_fallback cells and lookup sequences through real meson setup with a private pkg-config directory, against a decision function transcribed from the property / Subprojects.md / dependency.yaml; wrap integrity: generated wrap files with marker-carrying archives x acquisition location x corruption x step faults x second run, oracle: a marker may only appear if its archive matched the recorded sha256, nothing fetched under nodownload, no half-prepared directory accepted',
     'Cells where the documentation is silent accept both outcomes (counted as weak); URLs are file:// and a local HTTP server through the same urllib path; git/hg/svn wraps carry no hash and are outside the verified-source clause.')
auto('C11', 'exploration',
     'Hypothesis install-rule projects x prefix/DESTDIR/umask/tags/skip-subprojects x histories (install, re-install, --dry-run, --only-changed, modify, uninstall) through real meson install; oracle: model of the expected tree (path, type, link target, mode, digest) derived from the build definition and Installing.md, full snapshot diff outside DESTDIR (and strace of file-modifying syscalls on a sample), install-log == created set, uninstall inverse, dry-run no-op, idempotence',
     'Runs as root (no permission-denied paths); install scripts are only checked for containment of meson\'s own writes; an uninstall directly after --dry-run is undefined and not generated. Five recorded findings (rename+preserve_path, headers preserve_path+install_dir, three symlink-in-subdir cases) are excluded from generation and re-checked by probes.')
auto('C12', 'exploration',
     'Hypothesis test sets (parallel/serial, priorities, durations, exit codes, should_fail, timeouts, suites, TAP) x -j / --repeat / --maxfail / --suite / --slice through real meson test; the tests themselves append start/end records (pid, CLOCK_MONOTONIC) to an event log; oracle: exactly-once per repetition, no interval overlapping a serial test, at most J open intervals, classification table from Unit-tests.md, totals == testlog.json == model tally, exit status rule, slices partition the selection',
     'The asyncio schedule is not owned by the harness: interleavings are varied through durations, so an exclusion race needing one specific interleaving may be missed; overlap of two self-reported intervals is a sound witness of concurrency, absence of overlap is not a proof. One recorded finding (--maxfail while a timed-out test is being killed) is masked in the campaign and re-checked by a saved case.')
auto('C13', 'exploration',
     'exhaustive enumeration of operation sequences up to the stated depth over a small argument alphabet + Hypothesis op sequences (construct, +=, append, extend, extend_direct, insert, setitem, delitem, copy, +, radd, interleaved reads) on CLikeCompilerArgs bound to the real detected gcc and on the base CompilerArgs, compared after every step with an eager reference list implementing the stated contract; plus an end-to-end slice (same -D/-I at global/project/target/dependency level -> ARGS in build.ninja)',
     'len() before a flush and to_native(copy=False) followed by further use of the same object are excluded (destructive by design); the end-to-end probe checks the one real caller of that pattern (link arguments in intro-targets.json vs build.ninja).')
auto('C14', 'exploration',
     'Hypothesis templates assembled from placeholder-like fragments x configuration data x three formats (+ exhaustive short strings over a placeholder alphabet, header generation without template, sampled real configure_file) against an independent left-to-right scanner written from Configuration.md and validated on the repository fixtures; missing-name sets compared; every non-placeholder byte incl. line endings must be copied',
     'For the cmake formats data values containing @ $ { } are excluded (CMake re-scan semantics are not claimed by the property). One recorded finding (#mesondefine value re-scanned) is excluded from comparison in the campaign and re-checked by a probe; two earlier ones (name inside a #cmakedefine value not reported, placeholder after an empty cmake value skipped) were repaired in /repo and are enforced again.')
auto('C16', 'exploration',
     'Hypothesis grammar programs decorated with a trivia strategy (comments in every position, continuations, blank runs, odd spacing, trailing commas, redundant parentheses, all string kinds) x formatter configurations (+ mutated corpus files, the repository format test inputs); oracle: independent reference lexer/parser gives the same tree modulo trivia / trailing commas / parentheses and the documented literal rewrites (strings compared by denotation), same comment sequence, format(format(x)) == format(x), --check-only / --check-diff agree with the diff, no non-Meson exception',
     'Trusts harness/reffmt.py + refmeson (differentially self-tested against mparser on the repository build files). Seven recorded findings (one comment loss, one character loss inside a comment, five idempotence families) are classified by hazard predicates on the input text, excluded from the campaign and re-checked by probes.')

auto('C15', 'exploration',
     'Hypothesis project models (all target kinds, generated sources, subdirs, subproject, project options, tests/benchmarks running a dumper, install rules) -> real meson setup; relational oracle between artefacts: intro-targets.json vs the statements of build.ninja read by an independent Ninja parser (filenames, compile inputs of the target\'s own objects, parameters, all-membership), intro-tests/benchmarks.json vs argv/env/suites observed under real `meson test`, intro-buildoptions.json vs get_option() messages, intro-installed / install_plan vs the tree real `meson install --destdir` creates (overall and per tag), intro-buildsystem_files.json vs the files the generator wrote',
     'No expected JSON is written by hand: every field is compared with another artefact of the same configuration. Installed build targets are represented by placeholder files (nothing is compiled). Fields without a counterpart (id, defined_in line numbers) are only sanity-checked.')

auto('C17', 'exploration',
     'Hypothesis source trees (targets with literal / variable / nested / shared source lists, other arguments carrying closed core-language expressions with every grouping trap) x 1-3 rewriter commands (JSON script mode and CLI), judged by an independent reading of the tree before and after (own lexer, parser, evaluator): touched files parse, the addressed value is exactly the requested one and `info` reports it, every statement outside the data flow of the addressed value is byte-identical, every other argument of a re-printed call evaluates to the value it had, inverse laws, failures leave all files untouched',
     'Trusts harness/refmeson.py (reference reader/evaluator). The order of sources inside a target, indentation and comments inside a re-printed call, and where a new keyword is placed are not part of the property (Rewriter.md limitations). Four recorded findings (extra_files given as a string, backslash in command values, blank lines inside a triple-quoted string of a re-printed statement, file added to a list that only occurs in a condition) are excluded by construction and re-checked by probes.')

NOT_YET = 'no check is registered for this property in this revision (see DESIGN.md section 8 for status)'


def main() -> int:
    props = [json.loads(l) for l in open(os.path.join(VERIF, 'properties.jsonl'), encoding='utf-8') if l.strip()]
    checks = []
    na = []
    for p in props:
        pid = p['id']
        have = glob.glob(os.path.join(VERIF, 'checks', pid.lower() + '_*.py'))
        if pid in CHECKS and have:
            cat, tech, text, note, ref = CHECKS[pid]
            checks.append({
                'property_id': pid,
                'quick_cmd': f'./vcheck {pid} --tier quick',
                'thorough_cmd': f'./vcheck {pid} --tier thorough',
                'evidence_file': f'/verif/evidence/{pid}.json',
                'replay_cmd_template': f'./vcheck {pid} --replay {{path}}',
                'engine': 'vcheck',
                'level_claimed': {'category': cat, 'text': text, 'design_ref': ref},
                'level_note': note,
                'technique': tech,
            })
        else:
            na.append({'property_id': pid, 'reason': NA_REASONS.get(pid, NOT_YET)})
    doc = {
        'version': 1,
        'setup_cmd': './setup.sh',
        'hooks': {
            'guard': 'MESON_VERIF',
            'enable': 'no source hooks in /repo: checks import mesonbuild from /repo (or $VERIF_REPO) directly; fault injection '
                      '(kill points, directory-order shuffling) is done by /verif/harness/shim/sitecustomize.py placed on PYTHONPATH of '
                      'the child under test and activated by MESON_VERIF_* variables',
            'baseline_off_cmd': 'cd /repo && /venv/bin/python -m pytest -ra -q -p no:cacheprovider --timeout=900 --continue-on-collection-errors',
            'source_commits': [],
            'add_only': True,
        },
        'engines': [{
            'name': 'vcheck', 'path': '/verif/vcheck', 'serves_properties': [c['property_id'] for c in checks],
            'kind_free_text': 'property-based testing / fuzzing runner: seeded Hypothesis strategies and state machines, exhaustive '
                              'bounded enumeration, fault/kill-point enumeration, atheris; explicit reference-model oracles; '
                              'collect-then-shrink failure buckets; replay files',
        }],
        'checks': checks,
        'not_applicable': na,
        'notes': 'Every check: ./vcheck <id> --tier quick|thorough ; exit 0 held / 1 VIOLATION / 2 harness error. '
                 'VERIF_SEED selects the seed. Evidence is rewritten on every run. known_findings.json lists recorded genuine defects.',
    }
    path = os.path.join(VERIF, 'MANIFEST.json')
    try:
        sys.path.insert(0, os.path.join(VERIF, '.deps'))
        import jsonschema
        jsonschema.validate(doc, json.load(open('/root/.vp/MANIFEST.schema.json')))
    except ImportError:
        print('warning: jsonschema not importable, manifest not validated')
    with open(path, 'w') as f:
        json.dump(doc, f, indent=1)
        f.write('\n')
    print(f'MANIFEST.json: {len(checks)} checks, {len(na)} not_applicable')
    return 0


NA_REASONS: dict = {}

if __name__ == '__main__':
    sys.exit(main())
