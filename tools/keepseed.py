#!/usr/bin/env python3
"""keepseed.py <Cxx> <letter> <slug> <caught|missed> <needs text> [strengthened text]
Copies a confirmed seeded change from /tmp/seed/out/Cxx/<letter> into /verif/seeded/<Cxx>-<slug>/ with meta.json."""
import json, os, shutil, sys, glob
prop, letter, slug, status, needs = sys.argv[1:6]
strengthened = sys.argv[6] if len(sys.argv) > 6 else ''
src = f"/tmp/seed/{os.environ.get('SEED_OUT', 'out')}/{prop}/{letter}"
dst = f'/verif/seeded/{prop}-{slug}'
os.makedirs(dst, exist_ok=True)
for f in glob.glob(src + '/*'):
    if os.path.isfile(f):
        data = open(f, 'rb').read()
        # demos refer to their scratch worktree; make that a variable so that they run from any worktree
        if os.path.basename(f).startswith('demo'):
            data = data.replace(f'/tmp/seed/{prop}'.encode(), b'/tmp/seed/' + prop.encode())
        open(os.path.join(dst, os.path.basename(f)), 'wb').write(data)
meta = {
    'id': f'{prop}-{slug}', 'property': prop,
    'written_by': 'independent sub-agent given only the property text and a scratch worktree',
    'needs_to_manifest': needs,
    'confirmed': {
        'how': f'selftest/seeded.sh {prop} {letter}: demo exits 0 on the clean worktree and non-zero with patch.diff applied; pinned suite with the patch: 107 passed, 14 errors (unchanged)',
        'demo_expects_worktree': f'/tmp/seed/{prop} (git -C /repo worktree add --detach /tmp/seed/{prop} HEAD)',
    },
    'check_result': status,
    'check_cmd': f'git -C /repo apply seeded/{prop}-{slug}/patch.diff && ./vcheck {prop} --tier quick ; git -C /repo checkout -- .',
}
if strengthened:
    meta['strengthened'] = strengthened
json.dump(meta, open(os.path.join(dst, 'meta.json'), 'w'), indent=1)
print('kept', dst)
