#!/bin/sh
# Offline setup: make sure hypothesis (and, best effort, atheris + jsonschema) are importable
# by /venv/bin/python. Everything comes from the local wheelhouse.
here="$(cd "$(dirname "$0")" && pwd)"
PY="${VERIF_PYTHON:-/venv/bin/python}"
WH=/opt/veriftools/wheels
mkdir -p "$here/.deps" "$here/evidence"
need=""
PYTHONPATH="$here/.deps" "$PY" -c "import hypothesis" 2>/dev/null || need="$need hypothesis"
PYTHONPATH="$here/.deps" "$PY" -c "import jsonschema" 2>/dev/null || need="$need jsonschema"
PYTHONPATH="$here/.deps" "$PY" -c "import atheris" 2>/dev/null || need="$need atheris"
for p in $need; do
  "$PY" -m pip install -q --no-index --find-links "$WH" --target "$here/.deps" "$p" || echo "setup: could not install $p (continuing)"
done
PYTHONPATH="$here/.deps" "$PY" -c "import hypothesis; print('hypothesis', hypothesis.__version__)" || exit 1
exit 0
