"""Crash shim for property C09 (kill-point enumeration).  NOT part of /repo.

Put this directory on PYTHONPATH of the *child under test only*; Python imports `sitecustomize`
at interpreter start, before any meson module.  It is inert unless one of the variables below is set.

  MESON_VERIF_ROOT=<dir>        only mutations of paths inside <dir> are counted (the build directory);
                                <dir>/meson-logs/** is excluded (log files are not state).
  MESON_VERIF_COUNT=<file>      append one line "<index>\t<op>\t<relative path>\t<bytes or -1>" per mutation to <file>.
  MESON_VERIF_CRASH_AT=<k>      die with os._exit(137) immediately BEFORE mutation number k (1-based):
                                no finally blocks, no atexit, user-space buffers are lost - like SIGKILL.
  MESON_VERIF_CRASH_MODE=torn   (only meaningful when mutation k is a write) perform the first half of the
                                write(2), then die.
  MESON_VERIF_CRASH_MODE=oserror  do not die: make mutation k fail with OSError(ENOSPC) (an I/O fault the program
                                sees as an exception; used for "a command that fails leaves the state as it was").

What is a mutation (everything is intercepted at the lowest Python-visible level, so that higher level
helpers - os.makedirs, os.removedirs, shutil.copy*/copyfile/move/rmtree, pathlib.Path.write_text/
unlink/mkdir/rename/touch, tempfile, configparser.write, json.dump, pickle.dump - decompose into them):

  open      builtins.open / io.open / pathlib.Path.open with a w/a/x/+ mode: the open(2) that creates or
            truncates.  The file object handed back is a genuine io.TextIOWrapper / io.BufferedWriter /
            io.BufferedRandom whose *raw* layer is a FileIO subclass, therefore
  write     is every real write(2) issued for that file: an explicit flush(), the buffer running full,
            close(), or the C pickler handing a large frame straight down.  Data that only sits in the
            user-space buffer at the kill is lost, exactly as with SIGKILL.
  truncate  FileIO.truncate / os.truncate / os.ftruncate
  os.open   os.open with O_WRONLY/O_RDWR/O_CREAT/O_TRUNC/O_APPEND;  os.write on a descriptor inside the root
  replace rename unlink remove rmdir mkdir symlink link fsync fdatasync utime chmod chown setxattr mkfifo

shutil's sendfile fast path is switched off so that copyfile's data also goes through write.
The variables are removed from os.environ on activation: child processes are never instrumented.
"""
import os as _os

_COUNT = _os.environ.pop('MESON_VERIF_COUNT', None)
_CRASH_AT = _os.environ.pop('MESON_VERIF_CRASH_AT', None)
_MODE = _os.environ.pop('MESON_VERIF_CRASH_MODE', 'before')
_ROOT = _os.environ.pop('MESON_VERIF_ROOT', None)


def _activate():
    import builtins
    import io
    import threading

    root = _os.path.realpath(_ROOT)
    root_slash = root + _os.sep
    logs = _os.path.join(root, 'meson-logs')
    logs_slash = logs + _os.sep
    crash_at = int(_CRASH_AT) if _CRASH_AT else 0
    torn_mode = _MODE == 'torn'
    oserror_mode = _MODE == 'oserror'

    o_open = _os.open
    o_write = _os.write
    o_exit = _os._exit
    o_readlink = _os.readlink
    o_getcwd = _os.getcwd
    io_open = io.open
    fspath = _os.fspath
    normpath = _os.path.normpath
    lock = threading.Lock()
    state = {'n': 0}
    logfd = o_open(_COUNT, _os.O_WRONLY | _os.O_CREAT | _os.O_APPEND, 0o644) if _COUNT else -1

    def resolve(path, dir_fd=None):
        """absolute, normalised text path or None"""
        try:
            if isinstance(path, int):
                p = o_readlink('/proc/self/fd/%d' % path)
                return p if p.startswith('/') else None
            p = fspath(path)
            if isinstance(p, bytes):
                p = _os.fsdecode(p)
            if not p.startswith('/'):
                base = o_readlink('/proc/self/fd/%d' % dir_fd) if dir_fd is not None else o_getcwd()
                p = base + '/' + p
            return normpath(p)
        except (OSError, TypeError, ValueError):
            return None

    def inroot(p):
        if p is None:
            return False
        if p == root:
            return True
        if not p.startswith(root_slash):
            return False
        if p == logs or p.startswith(logs_slash):
            return False
        return True

    def mutation(op, p, tearable=False, size=-1):
        """Count one mutation that is about to happen.  Returns True when the caller must perform a
        torn (half) write and then call die(); never returns if this is the kill point otherwise."""
        with lock:
            state['n'] += 1
            n = state['n']
            if logfd >= 0:
                o_write(logfd, ('%d\t%s\t%s\t%d\n' % (n, op, p[len(root_slash):] or '.', size)).encode('utf-8', 'surrogateescape'))
            if crash_at and n == crash_at:
                if oserror_mode:
                    # I/O fault instead of a kill: the operation fails with ENOSPC and the program carries on
                    raise OSError(28, 'No space left on device (injected by the verification shim)', p)
                if torn_mode and tearable:
                    return True
                o_exit(137)
        return False

    def die():
        o_exit(137)

    # ---- files ---------------------------------------------------------------------------------
    class VerifFileIO(io.FileIO):
        _verif_path = None

        def write(self, b):
            p = self._verif_path
            if p is None:
                return super().write(b)
            mv = memoryview(b).cast('B')
            if mutation('write', p, tearable=True, size=len(mv)):
                half = mv[:len(mv) // 2]
                while len(half):
                    w = super().write(half)
                    half = half[w:]
                die()
            return super().write(b)

        def truncate(self, size=None):
            if self._verif_path is not None:
                mutation('truncate', self._verif_path)
            return super().truncate(size)

    def v_open(file, mode='r', buffering=-1, encoding=None, errors=None, newline=None, closefd=True, opener=None):
        if not isinstance(mode, str) or not (set(mode) & set('wax+')) or opener is not None:
            return io_open(file, mode, buffering, encoding, errors, newline, closefd, opener)
        p = resolve(file)
        if not inroot(p):
            return io_open(file, mode, buffering, encoding, errors, newline, closefd, opener)
        modes = set(mode)
        if modes - set('axrwb+t') or len(mode) > len(modes) or ('t' in modes and 'b' in modes) \
                or len(modes & set('xrwa')) != 1 or not isinstance(buffering, int):
            return io_open(file, mode, buffering, encoding, errors, newline, closefd, opener)   # let it raise
        binary = 'b' in modes
        if binary and (encoding is not None or errors is not None or newline is not None):
            return io_open(file, mode, buffering, encoding, errors, newline, closefd, opener)   # let it raise
        if buffering == 0 and not binary:
            return io_open(file, mode, buffering, encoding, errors, newline, closefd, opener)   # let it raise
        updating = '+' in modes
        rawmode = ''.join(c for c in 'xrwa' if c in modes) + ('+' if updating else '')
        if not isinstance(file, int):
            mutation('open', p)
        raw = VerifFileIO(file, rawmode, closefd)
        result = raw
        try:
            raw._verif_path = p
            line_buffering = False
            if buffering == 1 or (buffering < 0 and raw.isatty()):
                buffering = -1
                line_buffering = True
            if buffering < 0:
                buffering = io.DEFAULT_BUFFER_SIZE
                try:
                    bs = _os.fstat(raw.fileno()).st_blksize
                    if bs > 1:
                        buffering = bs
                except (OSError, AttributeError):
                    pass
            if buffering == 0:
                return result
            if updating:
                result = io.BufferedRandom(raw, buffering)
            else:
                result = io.BufferedWriter(raw, buffering)
            if binary:
                return result
            encoding = io.text_encoding(encoding)
            result = io.TextIOWrapper(result, encoding, errors, newline, line_buffering)
            result.mode = mode
            return result
        except BaseException:
            result.close()
            raise

    builtins.open = v_open
    io.open = v_open

    # ---- os level ------------------------------------------------------------------------------
    def wrap1(name, fd_ok=False):
        orig = getattr(_os, name, None)
        if orig is None:
            return

        def w(path, *a, **kw):
            p = resolve(path, kw.get('dir_fd'))
            if inroot(p):
                mutation(name, p)
            return orig(path, *a, **kw)
        w.__name__ = name
        w.__qualname__ = name
        w.__doc__ = orig.__doc__
        setattr(_os, name, w)

    for nm in ('unlink', 'remove', 'rmdir', 'mkdir', 'utime', 'chmod', 'lchmod', 'chown', 'lchown', 'truncate',
               'mkfifo', 'mknod', 'setxattr', 'removexattr', 'fsync', 'fdatasync', 'ftruncate', 'fchmod', 'fchown'):
        wrap1(nm)

    def wrap2(name):
        orig = getattr(_os, name, None)
        if orig is None:
            return

        def w(src, dst, *a, **kw):
            ps = resolve(src, kw.get('src_dir_fd'))
            pd = resolve(dst, kw.get('dst_dir_fd', kw.get('dir_fd')))
            if inroot(pd):
                mutation(name, pd)
            elif name != 'symlink' and inroot(ps):
                mutation(name, ps)
            return orig(src, dst, *a, **kw)
        w.__name__ = name
        w.__qualname__ = name
        w.__doc__ = orig.__doc__
        setattr(_os, name, w)

    for nm in ('replace', 'rename', 'symlink', 'link'):
        wrap2(nm)

    wflags = _os.O_WRONLY | _os.O_RDWR | _os.O_CREAT | _os.O_TRUNC | _os.O_APPEND

    def v_os_open(path, flags, mode=0o777, *, dir_fd=None):
        if flags & wflags:
            p = resolve(path, dir_fd)
            if inroot(p):
                mutation('os.open', p)
        return o_open(path, flags, mode, dir_fd=dir_fd)
    _os.open = v_os_open

    def v_os_write(fd, data):
        if fd > 2 and fd != logfd:
            p = resolve(fd)
            if inroot(p):
                mv = memoryview(data).cast('B')
                if mutation('os.write', p, tearable=True, size=len(mv)):
                    o_write(fd, mv[:len(mv) // 2])
                    die()
        return o_write(fd, data)
    _os.write = v_os_write

    for nm in ('sendfile', 'copy_file_range'):
        orig = getattr(_os, nm, None)
        if orig is not None:
            def w(out_fd, in_fd, *a, _orig=orig, _nm=nm, **kw):
                if _nm == 'copy_file_range':
                    out_fd, in_fd = in_fd, out_fd
                    p = resolve(out_fd)
                    if inroot(p):
                        mutation(_nm, p)
                    return _orig(in_fd, out_fd, *a, **kw)
                p = resolve(out_fd)
                if inroot(p):
                    mutation(_nm, p)
                return _orig(out_fd, in_fd, *a, **kw)
            setattr(_os, nm, w)

    try:
        import shutil
        shutil._USE_CP_SENDFILE = False
        if hasattr(shutil, '_USE_CP_COPY_FILE_RANGE'):
            shutil._USE_CP_COPY_FILE_RANGE = False
    except Exception:
        pass


if _ROOT and (_COUNT or _CRASH_AT):
    _activate()
