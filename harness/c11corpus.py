"""C11, corpus half: `meson install` / uninstall on the projects of the repository's own `test cases/` tree.

There is no model of these projects' install rules; what is checked are the parts of the property that need none:
  * confinement - nothing outside DESTDIR (source tree, build tree, HOME, TMPDIR) changes, --dry-run changes nothing at all;
  * the log - every file/symlink the install created is named in install-log.txt and every name in it exists;
  * reversibility - after `uninstall` no file or symlink of the install is left and every directory named in the log is gone;
  * --only-changed after an unchanged install rewrites nothing.
Built files are stand-ins created by the harness at the paths build.ninja produces (nothing is compiled).
Projects that run their own programs during installation (install scripts, gnome/i18n helpers) are left out.
"""
from __future__ import annotations

import os
import shutil
import typing as T

from harness import refinstall as ri
from harness import refninja
from harness.core import Evidence, Failure
from harness.mesondrv import REPO, run_sub

CORPUS_DIRS = ('common', 'unit', 'native', 'linuxlike')
SCRIPT_WORDS = ('add_install_script', 'gnome.', 'i18n.', 'import(\'gnome\')', 'import(\'i18n\')', 'import(\'python', 'external_project')


def corpus_projects() -> T.List[str]:
    import glob
    out = []
    for sub in CORPUS_DIRS:
        for d in sorted(glob.glob(os.path.join(REPO, 'test cases', sub, '*'))):
            if os.path.isfile(os.path.join(d, 'meson.build')):
                out.append(os.path.relpath(d, REPO))
    return out


def _uses(src: str, words: T.Sequence[str]) -> bool:
    for root, _d, fnames in os.walk(src):
        for fn in fnames:
            if fn == 'meson.build':
                try:
                    with open(os.path.join(root, fn), encoding='utf-8', errors='replace') as f:
                        text = f.read()
                except OSError:
                    continue
                if any(w in text for w in words):
                    return True
    return False


def check_corpus(case: dict, workdir: str, ev: T.Optional[Evidence]) -> T.Optional[Failure]:
    def fail(sig: str, msg: str) -> Failure:
        return Failure(sig + '@corpus', case, f'{case["corpus"]}: {msg}')

    shutil.rmtree(workdir, ignore_errors=True)
    src = os.path.join(workdir, 'src')
    bld = os.path.join(workdir, 'bld')
    dest = os.path.join(workdir, 'dest dir')
    home = os.path.join(workdir, 'home')
    tmp = os.path.join(workdir, 'tmp')
    for d in (workdir, home, tmp):
        os.makedirs(d, exist_ok=True)
    env = {'HOME': home, 'TMPDIR': tmp}
    skip = [os.path.join(bld, 'meson-logs')]
    try:
        shutil.copytree(os.path.join(REPO, case['corpus']), src, symlinks=True)
        if _uses(src, SCRIPT_WORDS):
            if ev is not None:
                ev.exclude('corpus project runs its own programs during installation')
            return None
        r = run_sub(['setup', '--prefix=/usr'] + list(case.get('args', [])) + [bld, src], env=env, timeout=300)
        if r.rc != 0 or 'MESON_SKIP_TEST' in r.text or not os.path.exists(os.path.join(bld, 'build.ninja')):
            if ev is not None:
                ev.exclude('corpus project does not configure here')
            return None
        try:
            m = refninja.parse_file(os.path.join(bld, 'build.ninja'))
        except refninja.NinjaError:
            if ev is not None:
                ev.exclude('build.ninja invalid (C04 territory)')
            return None
        for e in m.edges:
            if e.is_phony or e.rule.name == 'REGENERATE_BUILD':
                continue
            for o in e.all_outs:
                if o.startswith('meson-internal__'):
                    continue
                p = os.path.join(bld, o)
                if not os.path.lexists(p):
                    os.makedirs(os.path.dirname(p), exist_ok=True)
                    with open(p, 'w') as fh:
                        fh.write('stand-in for ' + o + '\n')
                    os.chmod(p, 0o755)

        def snap() -> T.Tuple[T.Dict[str, tuple], T.Dict[str, tuple]]:
            s = ri.snapshot(workdir, skip)
            inside, outside = {}, {}
            for rel, v in s.items():
                p = workdir if rel == '.' else os.path.join(workdir, rel)
                (inside if (p == dest or p.startswith(dest + '/')) else outside)[p] = v
            return inside, outside

        def outside_diff(a: T.Dict[str, tuple], b: T.Dict[str, tuple]) -> T.Optional[str]:
            for p in sorted(set(a) | set(b)):
                if a.get(p) != b.get(p):
                    # directories change their (unrecorded) mtime only; their entry compares mode/owner
                    return f'{"created" if p not in a else ("removed" if p not in b else "changed")} {p!r}: {a.get(p)} -> {b.get(p)}'
            return None

        in0, out0 = snap()
        # --dry-run
        r = run_sub(['install', '--no-rebuild', '-C', bld, '--destdir', dest, '--dry-run'], env=env, timeout=120)
        if r.rc != 0:
            if ev is not None:
                ev.exclude('corpus project does not install with stand-in files')
            return None
        in1, out1 = snap()
        if in1 or outside_diff(out0, out1):
            return fail('dry-run/changed-something', f'`meson install --dry-run` changed the file system: {outside_diff(out0, out1) or sorted(in1)[:4]}')
        # install
        r = run_sub(['install', '--no-rebuild', '-C', bld, '--destdir', dest], env=env, timeout=120)
        if r.rc != 0:
            if ev is not None:
                ev.exclude('corpus project does not install with stand-in files')
            return None
        in2, out2 = snap()
        d = outside_diff(out1, out2)
        if d:
            return fail('containment/outside-destdir', f'`meson install --destdir` {d}, which is outside DESTDIR {dest!r}')
        logp = os.path.join(bld, 'meson-logs', 'install-log.txt')
        if not os.path.exists(logp):
            return fail('log/not-written', 'meson-logs/install-log.txt does not exist after an install')
        with open(logp, encoding='utf-8', errors='surrogateescape') as fh:
            log = [os.path.normpath(ln[:-1] if ln.endswith('\n') else ln) for ln in fh if not ln.startswith('#')]
        for p in log:
            if not os.path.lexists(p):
                return fail('log/names-nonexistent-path', f'install-log.txt names {p!r} which does not exist')
            if not (p == dest or p.startswith(dest + '/')):
                return fail('log/names-path-outside-destdir', f'install-log.txt names {p!r}, outside DESTDIR')
        logged = set(log)
        unlogged = sorted(p for p, v in in2.items() if v[0] in ('file', 'link') and p not in logged)
        if unlogged:
            return fail('log/missing', f'{unlogged[:4]} were created by the install but install-log.txt does not name them (uninstall would leave them behind)')
        n_files = sum(1 for v in in2.values() if v[0] in ('file', 'link'))
        # --only-changed right after: nothing is rewritten
        r = run_sub(['install', '--no-rebuild', '-C', bld, '--destdir', dest, '--only-changed'], env=env, timeout=120)
        if r.rc == 0:
            in3, out3 = snap()
            changed = sorted(p for p in in2 if in2[p][0] == 'file' and in3.get(p) != in2[p])
            if changed:
                return fail('only-changed/rewrote-unchanged-file', f'`meson install --only-changed` after an unchanged install rewrote {changed[:4]}: '
                            f'{in2[changed[0]]} -> {in3.get(changed[0])}')
            d = outside_diff(out2, out3)
            if d:
                return fail('containment/outside-destdir', f'`meson install --only-changed` {d}, outside DESTDIR')
            # the log of this run replaces the previous one: reinstall completely so that uninstall knows everything
            run_sub(['install', '--no-rebuild', '-C', bld, '--destdir', dest], env=env, timeout=120)
            with open(logp, encoding='utf-8', errors='surrogateescape') as fh:
                log = [os.path.normpath(ln[:-1] if ln.endswith('\n') else ln) for ln in fh if not ln.startswith('#')]
        # uninstall
        _, out4a = snap()
        r = run_sub(['--internal', 'uninstall'], cwd=bld, env=env, timeout=120)
        if r.rc != 0:
            return fail('uninstall/failed', f'uninstall exit status {r.rc}:\n{r.text[-1200:]}')
        in4, out4 = snap()
        left = sorted(p for p, v in in4.items() if v[0] in ('file', 'link'))
        if left:
            return fail('uninstall/left-behind', f'after uninstall these installed files are still there: {left[:4]}')
        left_dirs = sorted(p for p in log if os.path.isdir(p) and not os.path.islink(p))
        if left_dirs:
            return fail('uninstall/left-directory', f'after uninstall these directories named in install-log.txt are still there: {left_dirs[:4]}')
        d = outside_diff(out4a, out4)
        if d:
            return fail('containment/outside-destdir', f'uninstall {d}, outside DESTDIR')
        if ev is not None:
            ev.case(case, nontrivial=n_files >= 2, cls='corpus', sample={'corpus': case['corpus'], 'args': case.get('args', []), 'installed_files': n_files,
                                                                         'log_entries': len(log)})
        return None
    finally:
        shutil.rmtree(workdir, ignore_errors=True)
