"""C06 helper: determinism-rich additions to a projgen project.

`add_extras(files, setup_args, seed)` takes what projgen.materialise()/setup_args() returned and returns
(files, args, env, features): the same project with extra statements inserted after the project() line
("pre": global/project arguments) and appended to the root meson.build ("post"), extra source files, an
options file, extra -D arguments and (sometimes) CFLAGS-style environment variables.  Everything is a
pure function of `seed` (random.Random(seed)); one statement per line so that a failing project can be
reduced line-wise.  All collections are written in a seeded *random but fixed* order: the property is
about the same project configured twice, not about permuting the project.
"""
from __future__ import annotations

import random
import typing as T


def q(s: str) -> str:
    return "'" + s.replace('\\', '\\\\').replace("'", "\\'") + "'"


def lst(items: T.Sequence[str]) -> str:
    return '[' + ', '.join(items) + ']'


def qlst(items: T.Sequence[str]) -> str:
    return lst([q(i) for i in items])


def dct(d: T.Dict[str, str]) -> str:
    return '{' + ', '.join(f'{q(k)}: {v}' for k, v in d.items()) + '}'


def _perm(rng: random.Random, items: T.Sequence[T.Any]) -> list:
    items = list(items)
    rng.shuffle(items)
    return items


def _some(rng: random.Random, items: T.Sequence[T.Any], lo: int = 1) -> list:
    items = _perm(rng, items)
    return items[:rng.randint(min(lo, len(items)), len(items))]


OPTION_POOL: T.List[T.Tuple[str, T.List[str]]] = [
    ('b_lto', ['true', 'false']), ('b_ndebug', ['true', 'if-release', 'false']), ('b_pie', ['true', 'false']),
    ('b_sanitize', ['address', 'address,undefined', 'undefined,address', 'none']), ('b_coverage', ['true', 'false']),
    ('b_colorout', ['never', 'auto', 'always']), ('b_asneeded', ['false', 'true']), ('b_lundef', ['false', 'true']),
    ('b_pgo', ['generate', 'off']), ('b_pch', ['false', 'true']), ('b_lto_threads', ['2', '0']),
    ('c_std', ['gnu99', 'c11', 'gnu17', 'none']), ('c_args', ['-DCA,-DCB', '-DCB,-DCA,-DCC=1', '-O1']),
    ('c_link_args', ['-Wl,-z,now', '-Wl,-z,relro,-z,now']),
    ('werror', ['true', 'false']), ('optimization', ['2', 's', 'g', '0']), ('debug', ['false', 'true']),
    ('buildtype', ['release', 'debugoptimized', 'minsize', 'plain']), ('prefix', ['/opt/xp', '/usr']),
    ('libdir', ['lib64', 'lib/x86_64-linux-gnu']), ('strip', ['true']), ('install_umask', ['027', 'preserve']),
    ('pkg_config_path', ['/xa/pc:/xb/pc', '/xb/pc']), ('cmake_prefix_path', ['/xc', '/xc,/xd']),
    ('wrap_mode', ['nodownload', 'default']), ('auto_features', ['disabled', 'enabled']),
    ('warning_level', ['2', '3', 'everything', '1']), ('stdsplit', ['false']), ('errorlogs', ['false']),
    ('backend_max_links', ['3']), ('b_vscrt', []), ('includedir', ['inc']), ('datadir', ['share/xdata']),
    ('default_both_libraries', ['static', 'shared']), ('prefer_static', ['true']),
]


def add_extras(files: T.Dict[str, str], setup_args: T.Sequence[str], seed: int,
               ) -> T.Tuple[T.Dict[str, str], T.List[str], T.Dict[str, str], T.List[str]]:
    rng = random.Random(seed)
    files = dict(files)
    features: T.List[str] = []
    pre: T.List[str] = []
    post: T.List[str] = []
    args: T.List[str] = list(setup_args)
    env: T.Dict[str, str] = {}
    taken = {a[2:].split('=', 1)[0] for a in args if a.startswith('-D')}

    def feat(name: str, p: float = 0.7) -> bool:
        on = rng.random() < p
        if on:
            features.append(name)
        return on

    # ---- command line options ------------------------------------------------------------------
    for name, vals in _some(rng, OPTION_POOL, lo=4):
        if name in taken or not vals:
            continue
        if name == 'auto_features' and rng.random() < 0.7:
            continue
        args.append(f'-D{name}={rng.choice(vals)}')
        taken.add(name)
    use_cpp = feat('cpp', 0.2)
    if use_cpp:
        args += [f'-Dcpp_std={rng.choice(["c++11", "gnu++17"])}', f'-Dcpp_args={rng.choice(["-DXX1,-DXX0", "-DXX0"])}']
    if feat('env_flags', 0.45):
        env['CFLAGS'] = rng.choice(['-DENV_CF -O1', '-DENV_B -DENV_A'])
        if rng.random() < 0.5:
            env['LDFLAGS'] = '-Wl,-O1 -Wl,--as-needed'
        if rng.random() < 0.5:
            env['CPPFLAGS'] = '-DENV_CPP_B -DENV_CPP_A'
        if 'pkg_config_path' not in taken and rng.random() < 0.7:
            env['PKG_CONFIG_PATH'] = ':'.join(_perm(rng, ['/xe/pc', '/xf/pc', '/xg/pc', '/xe/pc']))
        if 'cmake_prefix_path' not in taken and rng.random() < 0.5:
            env['CMAKE_PREFIX_PATH'] = ':'.join(_perm(rng, ['/xh', '/xi', '/xj']))
    # ---- several environment variables naming the same tool (envconfig: RC/WINDRES, DC_LD/D_LD, ...): which one wins must not
    #      depend on where they stand in the environment; the winner is written into a configure_file output
    if feat('env_tool_aliases', 0.5):
        pairs = [('windres', 'RC', 'WINDRES'), ('d_ld', 'D_LD', 'DC_LD'), ('fortran_ld', 'F_LD', 'FC_LD'),
                 ('rust_ld', 'RUST_LD', 'RUSTC_LD'), ('objcpp_ld', 'OBJCPP_LD', 'OBJCXX_LD')]
        exes = ['/bin/true', '/bin/false', '/bin/cat', '/bin/echo', '/bin/ls', '/bin/sleep']
        chosen = _some(rng, pairs, lo=2)
        post.append("x_tools = configuration_data()")
        for tool, v1, v2 in chosen:
            e1, e2 = rng.sample(exes, 2)
            env[v1] = e1
            env[v2] = e2
            post.append(f"x_tp = find_program({q(tool)}, required: false)")
            post.append(f"x_tools.set({q(tool.upper())}, x_tp.found() ? x_tp.full_path() : 'none')")
        post.append("configure_file(output: 'x_env_tools.txt', configuration: x_tools)")
    # ---- cross build with per-machine pkg-config paths (dependency cache keyed per machine) ------------------
    cross_pc = False
    if 'pkg_config_path' not in taken and 'PKG_CONFIG_PATH' not in env and feat('cross_pcdeps', 0.25):
        cross_pc = True
        files['xcross.ini'] = ("[binaries]\nc = 'cc'\nar = 'ar'\nstrip = 'strip'\npkg-config = 'pkg-config'\n\n"
                               "[host_machine]\nsystem = 'linux'\ncpu_family = 'x86_64'\ncpu = 'x86_64'\nendian = 'little'\n")
        for d, ver in (('a', '1.0'), ('b', '2.0')):
            files[f'xpc/{d}/xpcdep.pc'] = f'Name: xpcdep\nDescription: variant {d}\nVersion: {ver}\nCflags: -DXPC_FROM_{d.upper()}\n'
        # '@SRC@' is replaced by the absolute source directory when the command line is built
        args += ['--cross-file', '@SRC@/xcross.ini', '-Dpkg_config_path=@SRC@/xpc/a', '-Dbuild.pkg_config_path=@SRC@/xpc/a']
        taken.update({'pkg_config_path', 'build.pkg_config_path'})
    # ---- project options file ------------------------------------------------------------------
    have_opts = False
    if 'meson.options' not in files and 'meson_options.txt' not in files and feat('project_options', 0.8):
        have_opts = True
        opts = [
            "option('xo_str', type: 'string', value: 'dflt', description: 'a string')",
            "option('xo_bool', type: 'boolean', value: true, description: 'a bool')",
            "option('xo_combo', type: 'combo', choices: ['one', 'two', 'three'], value: 'two')",
            "option('xo_int', type: 'integer', min: 0, max: 10, value: 3)",
            "option('xo_arr', type: 'array', choices: ['a', 'b', 'c'], value: ['c', 'a'])",
            "option('xo_feat', type: 'feature', value: 'auto', yield: true)",
            "option('xo_arr2', type: 'array', value: [])",
            "option('xo_hist', type: 'string', value: 'h', description: 'referenced nowhere (srcedit history)')",
            "option('Xo_upper', type: 'string', value: '')",
            "option('a_first', type: 'boolean', value: false)",
        ]
        files[rng.choice(['meson.options', 'meson_options.txt'])] = '\n'.join(_perm(rng, opts)) + '\n'
        for a in _some(rng, ['-Dxo_str=cmd', '-Dxo_bool=false', '-Dxo_combo=three', '-Dxo_int=7', '-Dxo_arr=b,a',
                             '-Dxo_feat=enabled', '-Dxo_arr2=z,y,x'], lo=0):
            args.append(a)

    # ---- pre: arguments that must precede every target -------------------------------------------
    if feat('global_args'):
        pre.append(f"add_global_arguments({qlst(_some(rng, ['-DXG_A=1', '-DXG_B', '-DXG_C=3', '-DXG_D']))}, language: 'c')")
        if rng.random() < 0.5:
            pre.append("add_global_link_arguments('-Wl,--hash-style=gnu', '-Wl,-O1', language: 'c')")
    if feat('project_args'):
        pre.append(f"add_project_arguments({qlst(_some(rng, ['-DXP_Z', '-DXP_A=2', '-DXP_M', '-DXP_B=b']))}, language: 'c')")
        if rng.random() < 0.5:
            pre.append("add_project_link_arguments(['-Wl,--no-undefined', '-Wl,--as-needed'], language: 'c')")

    # ---- sources ---------------------------------------------------------------------------------
    nmany = rng.randint(6, 24)
    many = [f'xsrc/many/f{i:02d}.c' for i in range(nmany)]
    for i, p in enumerate(many):
        files[p] = f'int xf_{i:02d}(void) {{ return {i}; }}\n'
    files['xsrc/many/notes.txt'] = 'not a source\n'
    files['xsrc/xmain.c'] = 'int main(void) { return 0; }\n'
    files['xsrc/xlib2.c'] = 'int xlib2(void) { return 2; }\n'
    files['xsrc/xmod.c'] = 'int xmod(void) { return 3; }\n'
    files['xsrc/xboth.c'] = 'int xboth(void) { return 4; }\n'
    files['xsrc/xdephdr.h'] = '#define XDEPHDR 1\n'
    files['xsrc/README.x'] = 'extra file\n'
    for d in 'abc':
        files[f'xinc/{d}/x{d}.h'] = f'#define XINC_{d.upper()} 1\n'
    for i in (1, 2, 3):
        files[f'xdata/d{i}.txt'] = f'data {i}\n'
    files['xdata/x.1'] = '.TH X 1\n'
    files['xdata/x.3'] = '.TH X 3\n'
    for n in _perm(rng, ['t1.txt', 't2.txt', 'skip.txt', 'skipdir/s.txt', 'deep/er/t3.txt'] + [f'm{i}.dat' for i in range(rng.randint(0, 12))]):
        files[f'xdata/tree/{n}'] = n + '\n'
    files['xscripts/inst.py'] = '#!/usr/bin/env python3\nimport sys\nprint(sys.argv)\n'
    files['xscripts/ct.py'] = ("#!/usr/bin/env python3\nimport sys\nfor o in sys.argv[1:]:\n    if o.startswith('--out='):\n"
                               "        open(o[6:], 'w').write('/* generated */\\n')\n")

    post.append("x_inc1 = include_directories('xinc/a', 'xinc/b')")
    post.append(f"x_inc2 = include_directories('xinc/c', is_system: {rng.choice(['true', 'false'])})")
    post.append("x_py = find_program('python3')")

    # ---- dependencies ----------------------------------------------------------------------------
    deps_named: T.List[str] = []
    deps_anon: T.List[str] = []
    if feat('system_deps', 0.6):
        post.append("x_thr = dependency('threads')")
        deps_named.append('x_thr')
        if rng.random() < 0.6:
            post.append("x_z = dependency('zlib', required: false)")
            deps_named.append('x_z')
        if rng.random() < 0.3:
            post.append("x_m = meson.get_compiler('c').find_library('m', required: false)")
            deps_named.append('x_m')
    if feat('anon_deps', 0.7):
        post.append(f"x_anon1 = declare_dependency(compile_args: {qlst(_some(rng, ['-DXA1', '-DXA1B', '-DXA1C']))}, include_directories: x_inc1)")
        post.append("x_anon2 = declare_dependency(compile_args: ['-DXA2'], link_args: ['-Wl,-O1'], dependencies: "
                    f"{lst(_perm(rng, ['x_anon1'] + deps_named[:1]))}, include_directories: [x_inc2], "
                    f"variables: {dct({k: q(k + 'v') for k in _perm(rng, ['zz', 'aa', 'mm'])})}, version: '2.1')")
        post.append("x_anon3 = declare_dependency(sources: files('xsrc/xdephdr.h'), extra_files: files('xsrc/README.x'))")
        deps_anon += ['x_anon1', 'x_anon2', 'x_anon3']
        if rng.random() < 0.6:
            features.append('override_dependency')
            post.append("meson.override_dependency('xnamed', x_anon2)")
            post.append("x_named = dependency('xnamed')")
            deps_named.append('x_named')
    all_deps = deps_named + deps_anon
    ext_deps: T.List[str] = []
    if feat('external_libs', 0.6):
        # shared libraries found by absolute path in several non-system directories: their directories end up in the
        # build rpath of every target that uses them (a collection that must keep a stable order)
        for i in _perm(rng, range(rng.randint(3, 6))):
            files[f'xext/d{i}/libxe{i}.so'] = ''
            post.append(f"x_e{i} = meson.get_compiler('c').find_library('xe{i}', dirs: meson.current_source_dir() / 'xext/d{i}')")
            ext_deps.append(f'x_e{i}')

    def depkw(k: int = 3) -> str:
        if not all_deps:
            return ''
        return ', dependencies: ' + lst(_some(rng, all_deps)[:k])

    # ---- wrap-provided subprojects (subprojects/ is enumerated by the wrap resolver) --------------
    if feat('wraps', 0.3):
        nw = rng.randint(2, 4)
        for i in range(nw):
            w = f'xw{i}'
            files[f'subprojects/{w}.wrap'] = f'[wrap-file]\ndirectory = {w}src\n\n[provide]\n{w}dep = {w}_dep\nprogram_names = {w}prog\n'
            files[f'subprojects/{w}src/meson.build'] = (
                f"project('{w}', 'c', version: '0.{i}', default_options: ['warning_level=1'])\n"
                f"add_project_arguments('-DXW{i}_B', '-DXW{i}_A', language: 'c')\n"
                f"{w}_lib = static_library('{w}', '{w}.c', install: get_option('{w}inst'), pic: true)\n"
                f"{w}_dep = declare_dependency(link_with: {w}_lib, include_directories: include_directories('.'), compile_args: ['-DUSE_XW{i}'])\n"
                f"meson.override_find_program('{w}prog', find_program('{w}prog.py'))\n")
            files[f'subprojects/{w}src/meson.options'] = (f"option('{w}inst', type: 'boolean', value: false)\n"
                                                           f"option('{w}zz', type: 'string', value: 'z')\noption('{w}aa', type: 'integer', value: 1)\n")
            files[f'subprojects/{w}src/{w}.c'] = f'int {w}(void) {{ return {i}; }}\n'
            files[f'subprojects/{w}src/{w}.h'] = f'int {w}(void);\n'
            files[f'subprojects/{w}src/{w}prog.py'] = '#!/usr/bin/env python3\n'
        files['subprojects/unused.wrap'] = '[wrap-file]\ndirectory = unusedsrc\n\n[provide]\nunuseddep = unused_dep\n'
        for i in _perm(rng, range(nw)):
            do = f", default_options: ['xw{i}inst=true', 'xw{i}aa=4']" if rng.random() < 0.5 else ''
            post.append(f"x_w{i} = dependency('xw{i}dep'{do})")
            all_deps.append(f'x_w{i}')
        if rng.random() < 0.5:
            post.append("x_wprog = find_program('xw0prog')")

    # ---- targets ---------------------------------------------------------------------------------
    lib1_srcs = _some(rng, many, lo=2)
    post.append(f"x_lib1 = static_library('xlib1', {', '.join(q(s) for s in lib1_srcs)}, c_args: {qlst(_some(rng, ['-DXL1_B', '-DXL1_A', '-DXL1_C=1']))}, "
                f"include_directories: {lst(_perm(rng, ['x_inc1', 'x_inc2']))}{depkw()}, install: {rng.choice(['true', 'false'])}, pic: true)")
    post.append(f"x_lib2 = shared_library('xlib2', 'xsrc/xlib2.c', {rng.choice(['link_with', 'link_whole'])}: x_lib1{depkw()}, version: '1.2.3', soversion: '1', install: true, "
                f"gnu_symbol_visibility: 'hidden', override_options: {qlst(_perm(rng, ['c_std=c99', 'b_ndebug=true', 'werror=false']))})")
    libs = ['x_lib1', 'x_lib2']
    if feat('both_libraries', 0.5):
        post.append(f"x_both = both_libraries('xboth', 'xsrc/xboth.c', include_directories: x_inc1{depkw(2)}, install: true)")
        libs.append('x_both')
    if feat('shared_module', 0.4):
        post.append("x_mod = shared_module('xmod', 'xsrc/xmod.c', install: true, install_dir: get_option('libdir') / 'xplugins')")
    exe_srcs = [s for s in many if s not in lib1_srcs][:rng.randint(0, 5)]
    objs = f", objects: x_lib1.extract_objects({q(lib1_srcs[0])})" if rng.random() < 0.3 and '-Dunity=off' in args else ''
    post.append(f"x_exe = executable('xexe', 'xsrc/xmain.c'{''.join(', ' + q(s) for s in exe_srcs)}, link_with: {lst(_perm(rng, libs))}{depkw()}, "
                f"c_args: {qlst(_some(rng, ['-DXE_B', '-DXE_A', '-UXE_C']))}, link_args: ['-Wl,-z,now', '-Wl,-O1'], install: true, "
                f"install_rpath: '/opt/x/lib:/opt/y/lib', build_rpath: '/tmp/xb', implicit_include_directories: {rng.choice(['true', 'false'])}, "
                f"extra_files: files('xsrc/README.x', 'xdata/d1.txt'){objs})")
    if cross_pc:
        post.append("x_pcn = dependency('xpcdep', native: true)")
        post.append("x_pch = dependency('xpcdep', native: false)")
        post.append("configure_file(output: 'xpc_versions.h', configuration: {'XPC_NATIVE': x_pcn.version(), 'XPC_HOST': x_pch.version()})")
        post.append("executable('xpcnat', 'xsrc/xmain.c', dependencies: x_pcn, native: true)")
        post.append("executable('xpchost', 'xsrc/xmain.c', dependencies: x_pch)")
    if ext_deps:
        post.append(f"x_extexe = executable('xextexe', 'xsrc/xmain.c', dependencies: {lst(ext_deps)})")
        post.append(f"x_extlib = shared_library('xextlib', 'xsrc/xmod.c', dependencies: {lst(_perm(rng, ext_deps)[:3])})")
    if use_cpp:
        files['xsrc/xcpp.cpp'] = 'int xcpp() { return 1; }\n'
        files['xsrc/xcppmain.cpp'] = 'int xcpp(); int main() { return xcpp() - 1; }\n'
        pre.append("add_languages('cpp', native: false)")
        pre.append("add_project_arguments('-DXPP_B', '-DXPP_A', language: 'cpp')")
        post.append("x_cpplib = static_library('xcpplib', 'xsrc/xcpp.cpp', cpp_args: ['-DXC_B', '-DXC_A'])")
        post.append(f"x_cppexe = executable('xcppexe', 'xsrc/xcppmain.cpp', link_with: [x_cpplib, x_lib1]{depkw(2)})")

    # ---- custom targets that need the exe wrapper (capture/feed/env), generator, run/alias ---------
    cts: T.List[str] = []
    if feat('custom_targets', 0.7):
        post.append("x_ct1 = custom_target('xct1', output: 'xct1.txt', input: 'xdata/d1.txt', command: [x_py, '-c', 'import sys; print(sys.argv)', '@INPUT@'], "
                    f"capture: true, env: {dct({k: q(k.lower()) for k in _perm(rng, ['CT_B', 'CT_A', 'CT_M'])})}, build_by_default: true)")
        post.append("x_ct2 = custom_target('xct2', output: ['xct2.h', 'xct2.c'], input: ['xdata/d1.txt', 'xdata/d2.txt'], "
                    "command: [x_py, files('xscripts/ct.py'), '--out=@OUTPUT0@', '--out=@OUTPUT1@', '@INPUT@'], "
                    f"depend_files: files({', '.join(q(s) for s in _perm(rng, ['xdata/d3.txt', 'xsrc/README.x', 'xinc/a/xa.h']))}), depends: x_ct1, "
                    f"install: true, install_dir: ['include/xgen', false])")
        post.append("x_ct3 = custom_target('xct3', output: 'xct3.txt', input: 'xdata/d2.txt', command: [x_py, '-c', 'import sys; sys.stdout.write(sys.stdin.read())'], "
                    "feed: true, capture: true)")
        cts += ['x_ct1', 'x_ct2', 'x_ct3']
        post.append("x_gen = generator(x_py, output: ['@BASENAME@_g.c', '@BASENAME@_g.h'], arguments: [meson.current_source_dir() / 'xscripts/ct.py', '--out=@OUTPUT0@', '--out=@OUTPUT1@', '@INPUT@', '@EXTRA_ARGS@'], depends: x_ct1)")
        post.append(f"x_genlib = static_library('xgenlib', x_gen.process({', '.join(q(s) for s in _perm(rng, ['xdata/d1.txt', 'xdata/d2.txt', 'xdata/d3.txt']))}, extra_args: ['--x']), x_ct2, "
                    f"include_directories: x_inc1{depkw(2)})")
        post.append(f"run_target('xrun', command: [x_py, '-c', 'pass'], env: {dct({k: q('1') for k in _perm(rng, ['R_B', 'R_A'])})}, depends: {lst(_perm(rng, ['x_ct1', 'x_exe']))})")
        post.append(f"alias_target('xalias', {', '.join(_perm(rng, ['x_exe', 'x_ct1', 'x_lib2']))})")

    # ---- configure_file in every mode --------------------------------------------------------------
    if feat('configure_file', 0.85):
        sets = [
            "x_cd.set('XC_B', 1, description: 'the b value')", "x_cd.set('XC_A', 'avalue')", "x_cd.set10('XC_BOOL', true)",
            "x_cd.set_quoted('XC_STR', 'some \"string\"')", "x_cd.set('XC_UNDEF', false)", "x_cd.set('XC_M', 13, description: 'm')",
            "x_cd.set('xc_lower', 'l')", "x_cd.set('XC_EMPTY', '')",
        ]
        post.append('x_cd = configuration_data()')
        post.extend(_some(rng, sets, lo=3))
        post.append("x_cd2 = configuration_data({'K2': 'v2', 'K1': 1, 'K3': true})")
        post.append('x_cd.merge_from(x_cd2)')
        if have_opts:
            post.append("x_cd.set_quoted('XO_ARR', ','.join(get_option('xo_arr')))")
            post.append("x_cd.set_quoted('XO_STR', get_option('xo_str'))")
        files['xcfg/in1.h.in'] = '#mesondefine XC_B\n#mesondefine XC_A\n#mesondefine XC_BOOL\n#mesondefine XC_UNDEF\n#mesondefine XC_NOTSET\n#define S @XC_STR@\n#define K @K2@ @K1@\n'
        files['xcfg/in2.h.in'] = '#cmakedefine XC_B @XC_B@\n#cmakedefine XC_NOTSET\n#cmakedefine01 XC_BOOL\n#define V "${K2}"\n'
        files['xcfg/in3.txt.in'] = 'dict @dictkey@ @A@ @zkey@\n'
        files['xcfg/copy.txt'] = 'copied verbatim @NOT_A_VAR@\n'
        # templates with CRLF / mixed line endings and no final newline (an unchanged output must stay untouched whatever its line endings)
        files['xcfg/dos.h.in'] = '/* dos */\r\n#mesondefine XC_B\r\n#define S @XC_STR@\r\n#define K @K2@\r\n'
        files['xcfg/mixed.txt.in'] = 'unix line @K1@\ndos line @K2@\r\nlast line without newline @K3@'
        cfgs = [
            "configure_file(output: 'xcfg_out.h', configuration: x_cd)",
            "configure_file(output: 'xcfg_out.asm', configuration: x_cd, output_format: 'nasm')",
            "configure_file(output: 'xcfg_out.json', configuration: x_cd, output_format: 'json')",
            "configure_file(output: 'xcfg_guard.h', configuration: x_cd, macro_name: 'XCFG_GUARD_H')",
            "configure_file(input: 'xcfg/in1.h.in', output: 'xcfg_in1.h', configuration: x_cd)",
            "configure_file(input: 'xcfg/in2.h.in', output: 'xcfg_in2.h', configuration: x_cd, format: 'cmake')",
            f"configure_file(input: 'xcfg/in3.txt.in', output: 'xcfg_in3.txt', configuration: {dct({k: q('v' + k) for k in _perm(rng, ['dictkey', 'A', 'zkey'])})}, install: true, install_dir: 'share/x')",
            "configure_file(input: 'xcfg/copy.txt', output: 'xcfg_copy.txt', copy: true)",
            "configure_file(input: 'xcfg/dos.h.in', output: 'xcfg_dos.h', configuration: x_cd)",
            "configure_file(input: 'xcfg/mixed.txt.in', output: 'xcfg_mixed.txt', configuration: x_cd)",
            "configure_file(input: 'xcfg/copy.txt', output: '@PLAINNAME@.copy2', copy: true, install: true, install_dir: 'share/x2', install_tag: 'doc')",
            "configure_file(output: 'xcfg_dict.h', configuration: {'ZD': 1, 'AD': '\"q\"', 'MD': false})",
        ]
        post.extend(_some(rng, cfgs, lo=4))

    # ---- pkg-config files ----------------------------------------------------------------------------
    if feat('pkgconfig', 0.7):
        post.append("x_pkg = import('pkgconfig')")
        post.append(f"x_pkg.generate(x_lib2, name: 'xlib2', description: 'x lib two', version: '1.2.3', requires: {qlst(_perm(rng, ['zlib', 'xreq >= 1.0', 'xreq < 9.5', 'xreq != 3.1']))}, requires_private: {qlst(_perm(rng, ['xpriv >= 2', 'xpriv < 77']))}, "
                    f"libraries: ['-lm', x_lib1], libraries_private: ['-ldl', '-lrt'], subdirs: {qlst(_perm(rng, ['xa', 'xb', '.']))}, extra_cflags: ['-DXPC_B', '-DXPC_A'], "
                    f"variables: {dct({k: q(k + '_val') for k in _perm(rng, ['xv_b', 'xv_a', 'xv_m'])})}, uninstalled_variables: {dct({k: q('u') for k in _perm(rng, ['xu_b', 'xu_a'])})}, "
                    "filebase: 'xlib2-1', url: 'http://x.invalid')")
        post.append("x_pkg.generate(name: 'xplain', description: 'no lib', version: '0', variables: ['k=v', 'a=b'], dataonly: true)")
        if 'x_both' in libs:
            post.append("x_pkg.generate(x_both, requires: x_lib2, description: 'both')")

    # ---- install rules ---------------------------------------------------------------------------------
    if feat('install_rules', 0.7):
        inst = [
            "install_headers('xinc/a/xa.h', 'xinc/b/xb.h', subdir: 'xhdr')",
            "install_headers('xinc/c/xc.h', preserve_path: true)",
            "install_data('xdata/d1.txt', 'xdata/d2.txt', install_dir: get_option('datadir') / 'xd', install_mode: 'rw-r-----', install_tag: 'xtag')",
            "install_data('xdata/d3.txt', rename: 'renamed.txt', install_dir: 'share/xd')",
            "install_man('xdata/x.1', 'xdata/x.3')",
            "install_subdir('xdata/tree', install_dir: 'share/xtree', exclude_files: ['skip.txt'], exclude_directories: ['skipdir'], strip_directory: true)",
            "install_subdir('xsrc/many', install_dir: 'share/xmany')",
            "install_emptydir('share/xempty', install_mode: 'rwxr-x---')",
            "install_symlink('xlink', pointing_to: '../x', install_dir: 'share/xl')",
            "meson.add_install_script('xscripts/inst.py', 'arg1', 'arg2', install_tag: 'xtag')",
            "meson.add_install_script(x_py, '-c', 'pass', skip_if_destdir: true)",
            "meson.install_dependency_manifest('share/xdepmf.json')",
        ]
        post.extend(_some(rng, inst, lo=4))

    # ---- tests ---------------------------------------------------------------------------------------
    if feat('tests', 0.8):
        post.append('x_env = environment()')
        post.extend(_perm(rng, ["x_env.set('XE_A', '1')", "x_env.append('XE_B', 'b1', 'b2', separator: ';')", "x_env.prepend('PATH', '/x/bin')",
                                "x_env.set('XE_M', 'a', 'b')"]))
        tests = [
            f"test('xt1', x_exe, args: ['--a', files('xdata/d1.txt')], env: x_env, suite: {qlst(_perm(rng, ['xs2', 'xs1', 'xs3']))}, timeout: 17, priority: 3, is_parallel: false, "
            f"workdir: meson.current_build_dir(), depends: {lst(_perm(rng, ['x_lib2'] + cts[:2]))}, protocol: 'tap')",
            f"test('xt2', x_exe, env: {dct({k: q('1') for k in _perm(rng, ['XD_B', 'XD_A', 'XD_M'])})}, should_fail: true, suite: 'xs3')",
            f"test('xt3', x_exe, env: {qlst(_perm(rng, ['XL_B=2', 'XL_A=1', 'XL_M=3']))}, args: {qlst(_perm(rng, ['-z', '-a']))})",
            "benchmark('xb1', x_exe, env: x_env, suite: ['xbs'], timeout: 5)",
            f"add_test_setup('xsetup', env: {dct({k: q('1') for k in _perm(rng, ['S_B', 'S_A'])})}, timeout_multiplier: 2, exclude_suites: {qlst(_perm(rng, ['xs3', 'xs1']))}, exe_wrapper: [x_py, '-c', 'pass'])",
        ]
        post.extend(_some(rng, tests, lo=2))
    if feat('summary', 0.3):
        post.append(f"summary({dct({k: q('v') for k in _perm(rng, ['sum_b', 'sum_a'])})}, section: 'X')")

    # ---- splice ------------------------------------------------------------------------------------------
    root = files['meson.build'].split('\n')
    idx = None
    for i, line in enumerate(root):
        if line.startswith('project('):
            idx = i
            break
    if idx is None:
        raise ValueError('projgen root meson.build has no one-line project() statement')
    while root and root[-1] == '':
        root.pop()
    root = root[:idx + 1] + pre + root[idx + 1:] + post
    files['meson.build'] = '\n'.join(root) + '\n'
    return files, args, env, features
