"""Reference model for configure_file() template substitution (property C14).

Hand-written left-to-right scanners; no regular expressions and no code shared with
mesonbuild.utils.universal.  Every rule carries its source:

  [CFG:n]   /repo/docs/markdown/Configuration.md line n
  [YAML]    /repo/docs/yaml/functions/configure_file.yaml, kwarg `format` / `output_format` / `macro_name`
  [F6]      "test cases/common/14 configure file/config6.h.in" + prog6.c   (meson escapes; the comments in the template
            are the textual rule, prog6.c the expected C value)
  [F5]      config5.h.in + prog5.c  (a substituted value is not substituted again)
  [F7]/[F10] config7.h.in + prog7.c, config10.h.in + prog10.c  (cmake format: no escapes, both ${x} and @x@)
  [UT]      unittests/allplatformstests.py::test_do_conf_file_by_format / test_do_conf_file_preserve_newlines (pinned
            expected strings)
  [PROP]    the property sentence itself
  [CMAKE]   CMake's own documentation of configure_file() (`#cmakedefine VAR ...`, false constants) - used only where
            [UT] pins the same behaviour for the sampled values; where Meson and CMake could differ the region is GREY.

Whatever those sources leave open is reported in `Ref.grey` (the check excludes and counts such cases) - it is never
guessed.  Classes that are known to be broken in the pinned tree are reported in `Ref.known` so that the random campaign
can keep searching behind them.
"""
from __future__ import annotations

import json
import typing as T

Value = T.Union[str, int, bool]

_LETTERS = 'abcdefghijklmnopqrstuvwxyzABCDEFGHIJKLMNOPQRSTUVWXYZ'
NAME_CHARS = frozenset(_LETTERS + '0123456789_-')
# characters some template dialects accept in names (CMake: "/_.+-"); Meson's docs do not say -> grey
GREY_NAME_CHARS = frozenset('./+')
BLANKS = ' \t'
# CMake "false constants" other than '' / 0 / false: Meson's docs do not say whether a *string* 'OFF' is false
CMAKE_FALSE_WORDS = frozenset(['0', 'OFF', 'NO', 'FALSE', 'N', 'IGNORE', 'NOTFOUND'])


def is_name(s: str) -> bool:
    return len(s) > 0 and all(c in NAME_CHARS for c in s)


def _grey_char(c: str) -> bool:
    return c in GREY_NAME_CHARS or ord(c) > 127


def split_lines(text: str) -> T.List[T.Tuple[str, str]]:
    """[(body, eol)] with eol in '\\n', '\\r\\n', '\\r', '' (last line only) - the universal-newline rule of Python's
    text layer, which is what `open(..., newline='')` + readlines() is documented to apply."""
    out: T.List[T.Tuple[str, str]] = []
    i, n, start = 0, len(text), 0
    while i < n:
        c = text[i]
        if c == '\n':
            out.append((text[start:i], '\n'))
            i += 1
            start = i
        elif c == '\r':
            if i + 1 < n and text[i + 1] == '\n':
                out.append((text[start:i], '\r\n'))
                i += 2
            else:
                out.append((text[start:i], '\r'))
                i += 1
            start = i
        else:
            i += 1
    if start < n:
        out.append((text[start:], ''))
    return out


class DefLine:
    """Output of a `#mesondefine` / `#cmakedefine` line: the documented rendering plus the bytes around it."""
    __slots__ = ('indent', 'body', 'trailing', 'eol')

    def __init__(self, indent: str, body: str, trailing: str, eol: str):
        self.indent, self.body, self.trailing, self.eol = indent, body, trailing, eol

    def strict(self) -> str:
        return self.indent + self.body + self.trailing + self.eol


class Ref:
    def __init__(self) -> None:
        self.segs: T.List[T.Tuple[str, T.Any, str]] = []   # ('lit', text, kind) | ('def', DefLine, kind)
        self.missing: T.Set[str] = set()        # undefined names in ordinary text: must be reported [PROP]
        self.missing_def: T.Set[str] = set()    # undefined names inside the value part of a define line: must be reported [PROP]
        self.missing_opt: T.Set[str] = set()    # `#mesondefine X` / `#cmakedefine X` with X unset: documented rendering, report optional
        self.grey: T.List[str] = []
        self.known: T.Set[str] = set()
        self.kinds: T.Set[str] = set()
        self.error: T.Optional[str] = None      # a MesonException is the pinned outcome

    def lit(self, text: str, kind: str = 'copy') -> None:
        if not text:
            return
        if self.segs and self.segs[-1][0] == 'lit' and self.segs[-1][2] == kind:
            self.segs[-1] = ('lit', self.segs[-1][1] + text, kind)
        else:
            self.segs.append(('lit', text, kind))

    def text(self) -> str:
        """The strict rendering (every byte around a directive preserved)."""
        return ''.join(s[1] if s[0] == 'lit' else s[1].strict() for s in self.segs)


def render_value_meson(v: Value) -> str:
    # [CFG:33] strings verbatim; integers in decimal (config4a.h.in `@ZERO@` -> 0 makes prog4.c return 0)
    if isinstance(v, bool):
        raise AssertionError('caller handles bool')
    return v if isinstance(v, str) else str(v)


def render_value_cmake(v: Value) -> str:
    # [UT] `#cmakedefine VAR ${VAR}` with True -> `#define VAR 1`
    if isinstance(v, bool):
        return '1' if v else '0'
    return v if isinstance(v, str) else str(v)


# ---------------------------------------------------------------------------
# meson format

def _name_run(s: str, i: int) -> T.Tuple[int, bool]:
    """end index of the maximal run of name-or-grey characters starting at i, and whether it contains a grey one"""
    j, grey = i, False
    n = len(s)
    while j < n and (s[j] in NAME_CHARS or _grey_char(s[j])) and s[j] != '@':
        if _grey_char(s[j]):
            grey = True
        j += 1
    return j, grey


def scan_meson(s: str, data: T.Dict[str, Value], R: Ref, undef: str, missing: T.Set[str]) -> None:
    """Ordinary text in meson format.
    [CFG:36] every `@varname@` is replaced by its value;  [F6 MESSAGE9/11] leftmost, non-overlapping;
    [F6 MESSAGE7] `@var1` alone is not a variable;  [F6 MESSAGE6/12] blanks, quotes, backslashes do not occur in names;
    [F6 "Replace pairs of escapes before '@' or '\\@' with escape characters"] a run of n backslashes directly before `@`
    yields n//2 backslashes;  [F6 "Escaped whole variable"] an odd run's last `\\@` followed by NAME`\\@` yields `@NAME@`;
    [F6 MESSAGE3/8/12] an `@` directly preceded by a backslash never opens a variable;
    [F6 MESSAGE5 "We don't gobble \\@ prefixing some text"] otherwise `\\@` stays;  [F5] values are emitted verbatim and
    not scanned;  [PROP] every other byte is copied."""
    i, n = 0, len(s)
    while i < n:
        c = s[i]
        if c == '\\':
            j = i
            while j < n and s[j] == '\\':
                j += 1
            k = j - i
            if j < n and s[j] == '@':
                R.kinds.add('backslash-run-before-at')
                R.lit('\\' * (k // 2), 'escape-pairs')
                if k % 2 == 1:
                    m, grey = _name_run(s, j + 1)
                    if m > j + 1 and s[m:m + 2] == '\\@':
                        if grey:
                            R.grey.append('name alphabet beyond [-A-Za-z0-9_] (docs do not define it)')
                        R.kinds.add('escaped-variable')
                        R.lit('@' + s[j + 1:m] + '@', 'escaped-variable')
                        i = m + 2
                    else:
                        R.lit('\\@', 'escaped-at')
                        i = j + 1
                else:
                    R.kinds.add('even-run-then-at')
                    R.lit('@', 'at-after-even-run')
                    i = j + 1
            else:
                R.lit(s[i:j])
                i = j
        elif c == '@':
            m, grey = _name_run(s, i + 1)
            if m > i + 1 and m < n and s[m] == '@':
                name = s[i + 1:m]
                if grey:
                    R.grey.append('name alphabet beyond [-A-Za-z0-9_] (docs do not define it)')
                    R.lit(s[i:m + 1])
                    i = m + 1
                    continue
                R.kinds.add('at-variable')
                if name in data:
                    v = data[name]
                    if isinstance(v, bool):
                        R.grey.append('@VAR@ with a boolean value (deprecated, rendering undocumented)')
                        R.lit('', 'subst')
                    else:
                        val = render_value_meson(v)
                        if isinstance(v, str) and looks_like_placeholder(v):
                            R.kinds.add('value-looks-like-placeholder')
                        R.lit(val, 'subst')
                else:
                    R.kinds.add('undefined-variable')
                    missing.add(name)
                    R.lit('' if undef == 'empty' else s[i:m + 1], 'undef')
                i = m + 1
            else:
                R.kinds.add('lone-at')
                R.lit('@')
                i += 1
        else:
            j = i
            while j < n and s[j] != '\\' and s[j] != '@':
                j += 1
            R.lit(s[i:j])
            i = j


def looks_like_placeholder(v: str) -> bool:
    return '@' in v or '${' in v or '\\' in v


def meson_scan_changes(v: str, data: T.Dict[str, Value]) -> bool:
    """would scanning the *value* v alter it or find an undefined name?  (classifies the known re-scan defect)"""
    r = Ref()
    miss: T.Set[str] = set()
    scan_meson(v, data, r, 'empty', miss)
    return r.text() != v or bool(miss) or bool(r.grey)


def _find_hash_word(body: str, word: str) -> T.List[T.Tuple[int, int]]:
    """positions (hash_index, word_index) where `#`, optional whitespace, `word` occurs"""
    res = []
    start = 0
    while True:
        k = body.find(word, start)
        if k < 0:
            return res
        h = k - 1
        while h >= 0 and body[h].isspace():
            h -= 1
        if h >= 0 and body[h] == '#':
            res.append((h, k))
        start = k + 1


def _exotic_ws(s: str) -> bool:
    return any(c.isspace() and c not in BLANKS for c in s)


def _split_blanks(s: str) -> T.List[str]:
    out, cur = [], ''
    for c in s:
        if c in BLANKS:
            if cur:
                out.append(cur)
                cur = ''
        else:
            cur += c
    if cur:
        out.append(cur)
    return out


def _lead(body: str) -> T.Tuple[str, str]:
    i = 0
    while i < len(body) and body[i] in BLANKS:
        i += 1
    return body[:i], body[i:]


def _trail(s: str) -> T.Tuple[str, str]:
    j = len(s)
    while j > 0 and s[j - 1] in BLANKS:
        j -= 1
    return s[:j], s[j:]


def render_meson(template: str, data: T.Dict[str, Value], undef: str = 'empty') -> Ref:
    R = Ref()
    for body, eol in split_lines(template):
        if eol == '\r\n':
            R.kinds.add('crlf')
        elif eol == '\r':
            R.kinds.add('cr')
        indent, rest = _lead(body)
        if rest.startswith('#mesondefine'):
            R.kinds.add('mesondefine')
            after = rest[len('#mesondefine'):]
            if _exotic_ws(body):
                R.grey.append('directive line with whitespace other than blank/tab')
                R.lit(body + eol)
                continue
            if after.strip(BLANKS) == '':
                R.grey.append('#mesondefine without a token')
                R.lit(body + eol)
                continue
            if after[0] not in BLANKS:
                R.grey.append('#mesondefine glued to following text')
                R.lit(body + eol)
                continue
            toks = _split_blanks(after)
            if len(toks) > 1:
                # [UT] "More than 2 params in mesondefine" -> MesonException
                R.error = R.error or 'mesondefine-extra-tokens'
                R.kinds.add('mesondefine-extra-tokens')
                R.lit(body + eol)
                continue
            name = toks[0]
            if not is_name(name):
                R.grey.append('#mesondefine token outside [-A-Za-z0-9_]')
                R.lit(body + eol)
                continue
            _, trailing = _trail(after)
            if indent:
                R.kinds.add('indented-directive')
            # [CFG:51-56] the four renderings; unset: [UT] `/* #undef VAR */` (CFG:55 prints it without the `#`)
            if name not in data:
                R.missing_opt.add(name)
                out = '/* #undef %s */' % name
            else:
                v = data[name]
                if isinstance(v, bool):
                    out = ('#define %s' if v else '#undef %s') % name
                elif isinstance(v, int):
                    out = '#define %s %d' % (name, v)
                else:
                    out = '#define %s %s' % (name, v)
                    if looks_like_placeholder(v):
                        R.kinds.add('value-looks-like-placeholder')
                    if meson_scan_changes(v, data):
                        # [PROP] "a substituted value is never scanned again" - broken in the pinned tree for
                        # #mesondefine string values
                        R.known.add('meson/mesondefine-value-rescanned')
            R.segs.append(('def', DefLine(indent, out, trailing, eol), 'mesondefine'))
            continue
        if body.lstrip().startswith('#mesondefine'):
            R.grey.append('directive line with whitespace other than blank/tab')
        # foreign directive: [UT] `#cmakedefine VAR` in meson format -> MesonException
        hits = _find_hash_word(body, 'cmakedefine')
        if hits:
            strict = False
            if rest.startswith('#cmakedefine'):
                a = rest[len('#cmakedefine'):]
                if a.startswith('01'):
                    a = a[2:]
                strict = a[:1] in (' ', '\t') and len(_split_blanks(a)) >= 1 and not _exotic_ws(body)
            if strict:
                R.error = R.error or 'format-mix'
                R.kinds.add('foreign-directive')
            else:
                R.grey.append('loose mention of "# cmakedefine" in meson format (error or copy: not documented)')
        scan_meson(body, data, R, undef, R.missing)
        R.lit(eol)
    return R


# ---------------------------------------------------------------------------
# cmake / cmake@ formats

def scan_cmake(s: str, data: T.Dict[str, Value], R: Ref, at_only: bool, undef: str, missing: T.Set[str],
               sink: T.Optional[T.List[str]] = None) -> None:
    """[YAML format] 'cmake': `${variable}` syntax, 'cmake@': `@variable@` syntax;  [F7 MESSAGE5, F10] 'cmake' also
    replaces `@variable@`;  [F7 "cmake substitions cannot be escaped"] a backslash has no meaning;
    [F7 MESSAGE8] `@var1\\@` is not a variable;  [PROP] everything else is copied.
    Output goes to R (or to `sink` when scanning the value part of a #cmakedefine line)."""
    def emit(t: str, kind: str = 'copy') -> None:
        if sink is not None:
            sink.append(t)
        else:
            R.lit(t, kind)

    i, n = 0, len(s)
    empty_end = -1   # index right after a substitution that produced no text
    while i < n:
        c = s[i]
        if c == '@':
            m, grey = _name_run(s, i + 1)
            if m > i + 1 and m < n and s[m] == '@':
                if grey:
                    R.grey.append('name alphabet beyond [-A-Za-z0-9_] (docs do not define it)')
                    emit(s[i:m + 1])
                    i = m + 1
                    continue
                if empty_end == i:
                    R.known.add('cmake/placeholder-after-empty-value-skipped')
                name = s[i + 1:m]
                R.kinds.add('at-variable')
                i = m + 1
                if _cmake_subst(name, s, data, R, undef, missing, emit, '@' + name + '@'):
                    empty_end = i
                continue
            R.kinds.add('lone-at')
            emit('@')
            i += 1
        elif c == '$' and not at_only and s[i + 1:i + 2] == '{':
            j = i + 2
            while j < n and s[j] in NAME_CHARS:
                j += 1
            if j > i + 2 and j < n and s[j] == '}':
                if empty_end == i:
                    R.known.add('cmake/placeholder-after-empty-value-skipped')
                name = s[i + 2:j]
                R.kinds.add('brace-variable')
                i = j + 1
                if _cmake_subst(name, s, data, R, undef, missing, emit, '${' + name + '}'):
                    empty_end = i
                continue
            R.grey.append('`${` not followed by NAME} with NAME in [-A-Za-z0-9_]+ (nested/invalid/unterminated: not documented)')
            emit('${')
            i += 2
        else:
            if c == '\\' and s[i + 1:i + 2] in ('@', '$'):
                R.kinds.add('backslash-before-opener')
            if c == '$':
                R.kinds.add('lone-dollar')
            emit(c)
            i += 1


def _cmake_subst(name: str, s: str, data: T.Dict[str, Value], R: Ref, undef: str, missing: T.Set[str],
                 emit: T.Callable[..., None], spelled: str) -> bool:
    """emit the value; True when nothing was emitted"""
    if name in data:
        val = render_value_cmake(data[name])
        emit(val, 'subst')
        return val == ''
    R.kinds.add('undefined-variable')
    missing.add(name)
    if undef == 'empty':
        emit('', 'undef')
        return True
    emit(spelled, 'undef')
    return False


def cmake_truth(v: Value) -> T.Optional[bool]:
    """[UT] False/unset -> off, True/5/'value'/'var' -> on, 0 -> off; [CMAKE] '' is false.  None = grey."""
    if isinstance(v, bool):
        return v
    if isinstance(v, int):
        return v != 0
    if v == '':
        return False
    u = v.upper()
    if u in CMAKE_FALSE_WORDS or u.endswith('-NOTFOUND'):
        return None
    return True


def render_cmake(template: str, data: T.Dict[str, Value], at_only: bool, undef: str = 'empty') -> Ref:
    R = Ref()
    for body, eol in split_lines(template):
        if eol == '\r\n':
            R.kinds.add('crlf')
        elif eol == '\r':
            R.kinds.add('cr')
        indent, rest = _lead(body)
        handled = False
        if rest.startswith('#'):
            k = 1
            while k < len(rest) and rest[k] in BLANKS:
                k += 1
            if rest[k:].startswith('cmakedefine'):
                handled = True
                R.kinds.add('cmakedefine')
                self_grey = len(R.grey)
                if k > 1:
                    R.grey.append('whitespace between `#` and `cmakedefine` (accepted since 1.9.0, output spacing not documented)')
                if _exotic_ws(body):
                    R.grey.append('directive line with whitespace other than blank/tab')
                is01 = rest[k:].startswith('cmakedefine01')
                after = rest[k + len('cmakedefine01' if is01 else 'cmakedefine'):]
                if after.strip(BLANKS) == '':
                    R.grey.append('#cmakedefine without a variable name')
                    R.known.add('cmake/define-without-name-crash')
                elif after[0] not in BLANKS:
                    R.grey.append('#cmakedefine glued to following text')
                if len(R.grey) > self_grey:
                    R.lit(body + eol)
                    continue
                core, trailing = _trail(after)
                toks = _split_blanks(core)
                name = toks[0]
                # the text after NAME, verbatim
                p = 0
                while core[p] in BLANKS:
                    p += 1
                value_part = core[p + len(name):]
                q = 0
                while q < len(value_part) and value_part[q] in BLANKS:
                    q += 1
                sep, value_part = value_part[:q], value_part[q:]
                if not is_name(name):
                    R.grey.append('#cmakedefine token outside [-A-Za-z0-9_]')
                if value_part:
                    R.kinds.add('cmakedefine-with-value')
                    if is01:
                        R.grey.append('#cmakedefine01 with trailing text')
                    if sep != ' ' or '\t' in value_part or '  ' in value_part:
                        R.grey.append('#cmakedefine value part with blank runs/tabs (Meson joins tokens with one blank: not documented)')
                    if any(t in data for t in toks[1:]):
                        R.grey.append('#cmakedefine value part containing a bare token that is a key (Meson substitutes it: not documented)')
                    if 'cmakedefine01' in value_part or 'mesondefine' in value_part:
                        R.grey.append('#cmakedefine value part mentioning another directive keyword')
                if name in data and isinstance(data[name], str) and cmake_truth(data[name]) is None:
                    R.grey.append('#cmakedefine on a string that CMake treats as a false constant (OFF, NO, 0, ...)')
                if len(R.grey) > self_grey:
                    R.lit(body + eol)
                    continue
                if indent:
                    R.kinds.add('indented-directive')
                on = name in data and bool(cmake_truth(data[name]))
                if name not in data:
                    R.missing_opt.add(name)
                if is01:
                    out = '#define %s %s' % (name, '1' if on else '0')   # [UT] 4 vectors
                elif not on:
                    out = '/* #undef %s */' % name                        # [UT]
                else:
                    sink: T.List[str] = []
                    miss: T.Set[str] = set()
                    scan_cmake(value_part, data, R, at_only, undef, miss, sink)
                    if miss:
                        R.missing_def |= miss
                        R.known.add('cmake/define-line-missing-not-reported')
                    val = ''.join(sink)
                    out = '#define %s' % name + ((' ' + val) if value_part else '')   # [UT] `#cmakedefine VAR` + 5 -> `#define VAR`
                R.segs.append(('def', DefLine(indent, out, trailing, eol), 'cmakedefine'))
                continue
        if not handled and body.lstrip().startswith('#') and body.lstrip()[1:].lstrip().startswith('cmakedefine'):
            R.grey.append('directive line with whitespace other than blank/tab')
        if 'mesondefine' in body:
            hits = _find_hash_word(body, 'mesondefine')
            strict = False
            if rest.startswith('#mesondefine'):
                a = rest[len('#mesondefine'):]
                strict = a[:1] in (' ', '\t') and len(_split_blanks(a)) >= 1 and not _exotic_ws(body)
            if strict:
                R.error = R.error or 'format-mix'      # [UT] `#mesondefine VAR` in cmake / cmake@ -> MesonException
                R.kinds.add('foreign-directive')
            elif hits:
                R.grey.append('loose mention of "#mesondefine" in cmake format (error or copy: not documented)')
        scan_cmake(body, data, R, at_only, undef, R.missing)
        R.lit(eol)
    return R


def render(template: str, data: T.Dict[str, Value], fmt: str, undef: str = 'empty') -> Ref:
    if fmt == 'meson':
        return render_meson(template, data, undef)
    if fmt == 'cmake':
        return render_cmake(template, data, False, undef)
    if fmt == 'cmake@':
        return render_cmake(template, data, True, undef)
    raise ValueError(fmt)


# ---------------------------------------------------------------------------
# comparing an actual output with the reference

class MatchResult:
    def __init__(self, ok: bool, deviations: T.Set[str], where: int, kind: str):
        self.ok, self.deviations, self.where, self.kind = ok, deviations, where, kind


def match(R: Ref, got: str) -> MatchResult:
    """Does `got` equal the reference rendering?  Ordinary text must be byte-identical.  A directive line may keep
    or drop its indentation / trailing blanks (not documented) and Python-strip its body (a value with outer
    whitespace is not documented); if it had no terminator a final LF may be added ([UT] pins that, [PROP] says
    unchanged).  Replacing an existing terminator by LF is accepted here but reported as deviation 'eol'
    (known finding define-line/eol-not-preserved) - the caller decides."""
    segs = R.segs
    nseg = len(segs)
    best = [0, 0]   # deepest (segment index, position) reached
    dead: T.Set[T.Tuple[int, int, bool]] = set()

    def go(k: int, pos: int, dev: bool) -> T.Optional[bool]:
        # iterative deepening is unnecessary: candidate sets are tiny; recursion depth = number of directive lines
        while k < nseg and segs[k][0] == 'lit':
            t = segs[k][1]
            if not got.startswith(t, pos):
                if k > best[0] or (k == best[0] and pos > best[1]):
                    best[0], best[1] = k, pos
                return None
            pos += len(t)
            k += 1
        if k == nseg:
            if pos == len(got):
                return dev
            if k > best[0] or (k == best[0] and pos > best[1]):
                best[0], best[1] = k, pos
            return None
        if (k, pos, dev) in dead:
            return None
        d: DefLine = segs[k][1]
        bodies = [d.body] if d.body == d.body.strip() else [d.body, d.body.strip()]
        eols = [(d.eol, False)]
        if d.eol == '':
            eols.append(('\n', False))
        elif d.eol != '\n':
            eols.append(('\n', True))
        for e, isdev in eols:
            for ind in ([d.indent, ''] if d.indent else ['']):
                for b in bodies:
                    for tr in ([d.trailing, ''] if d.trailing else ['']):
                        cand = ind + b + tr + e
                        if got.startswith(cand, pos):
                            r = go(k + 1, pos + len(cand), dev or isdev)
                            if r is not None:
                                return r
        if k > best[0] or (k == best[0] and pos > best[1]):
            best[0], best[1] = k, pos
        dead.add((k, pos, dev))
        return None

    r = go(0, 0, False)
    if r is None:
        k = min(best[0], nseg - 1) if nseg else 0
        kind = segs[k][2] if nseg and best[0] < nseg else 'trailing-output'
        return MatchResult(False, set(), best[1], kind)
    return MatchResult(True, {'eol'} if r else set(), len(got), '')


# ---------------------------------------------------------------------------
# header generated without a template

def header_items(data: T.Dict[str, Value], prefix: str) -> T.List[T.Tuple[str, str]]:
    """[PROP] exactly the keys, once each, sorted ("14 configure file/meson.build" pins keys() order as code-point
    order: ['BE_TRUE','other','second','var']);  [CFG:93-100] the rendering table;  [YAML output_format] prefix `#`
    for c, `%` for nasm."""
    out = []
    for k in sorted(data):
        v = data[k]
        if isinstance(v, bool):
            out.append((k, '%sdefine %s' % (prefix, k) if v else '%sundef %s' % (prefix, k)))
        else:
            out.append((k, '%sdefine %s %s' % (prefix, k, v)))
    return out


def render_header(data: T.Dict[str, Value], descs: T.Dict[str, str], output_format: str, macro_name: T.Optional[str]) -> str:
    """A canonical header text (used by the self-test, which compiles the repo's own dumpprog.c / prog9.c against
    it).  The check itself does not compare whole texts - the prelude wording is not documented."""
    if output_format == 'json':
        return json.dumps({k: data[k] for k in sorted(data)})
    prefix = '#' if output_format == 'c' else '%'
    lines = []
    if output_format == 'c':
        lines += ['#ifndef %s' % macro_name, '#define %s' % macro_name] if macro_name else ['#pragma once']
        lines.append('')
    for k, text in header_items(data, prefix):
        if descs.get(k):
            lines.append('/* %s */' % descs[k] if output_format == 'c' else '; %s' % descs[k])   # [CFG:111-114]
        lines.append(text)
        lines.append('')
    if output_format == 'c' and macro_name:
        lines.append('#endif')
    return '\n'.join(lines) + '\n'


def check_header(got: str, data: T.Dict[str, Value], descs: T.Dict[str, str], output_format: str,
                 macro_name: T.Optional[str]) -> T.Optional[T.Tuple[str, str]]:
    """None when `got` is a valid header for `data`, else (signature-suffix, explanation).
    Preconditions (caller): no newline in values/descriptions/keys; macro_name is not a key."""
    if output_format == 'json':
        try:
            pairs = json.loads(got, object_pairs_hook=lambda p: p)
        except ValueError as e:
            return 'json-invalid', 'not valid JSON: %s' % e
        if not isinstance(pairs, list):
            return 'json-shape', 'top level is not an object'
        keys = [k for k, _ in pairs]
        if keys != sorted(data):
            return 'keys', 'keys %r, expected exactly %r in this order' % (keys, sorted(data))
        for k, v in pairs:
            if type(v) is not type(data[k]) or v != data[k]:
                return 'json-value', 'key %r has value %r, expected %r' % (k, v, data[k])
        return None
    prefix = '#' if output_format == 'c' else '%'
    expected = header_items(data, prefix)
    lines = [b for b, _ in split_lines(got)]
    found: T.List[T.Tuple[int, str]] = []
    guard_define = -1
    has_pragma = False
    for idx, ln in enumerate(lines):
        if output_format == 'c' and macro_name and ln == '#ifndef %s' % macro_name and guard_define < 0 \
                and idx + 1 < len(lines) and lines[idx + 1] == '#define %s' % macro_name:
            guard_define = idx + 1
        if ln.strip() == '#pragma once':
            has_pragma = True
    for idx, ln in enumerate(lines):
        if idx == guard_define:
            continue
        if ln.startswith(prefix + 'define') or ln.startswith(prefix + 'undef'):
            found.append((idx, ln))
    got_items = [ln for _, ln in found]
    want_items = [t for _, t in expected]
    if [x.rstrip() for x in got_items] != [x.rstrip() for x in want_items]:
        def keyof(ln: str) -> str:
            parts = ln.split(' ')
            return parts[1] if len(parts) > 1 else ''
        gk, wk = [keyof(x) for x in got_items], [k for k, _ in expected]
        if gk != wk:
            if sorted(gk) == sorted(wk):
                return 'order', 'directives for keys in order %r, expected sorted %r' % (gk, wk)
            return 'keys', 'directives for keys %r, expected exactly %r' % (gk, wk)
        for a, b in zip(got_items, want_items):
            if a.rstrip() != b.rstrip():
                return 'rendering', 'got line %r, documented rendering is %r' % (a, b)
    # description comment directly before its directive [CFG:102-114]
    for (idx, ln), (k, _) in zip(found, expected):
        d = descs.get(k)
        if d:
            want = '/* %s */' % d if output_format == 'c' else '; %s' % d
            if idx == 0 or lines[idx - 1] != want:
                return 'description', 'description of %r: line before the directive is %r, expected %r' % (
                    k, lines[idx - 1] if idx else None, want)
    if output_format == 'c':
        if macro_name:
            # [YAML macro_name] "macro guards will be used instead of '#pragma once'"
            if guard_define < 0 or has_pragma or '#endif' not in [x.strip() for x in lines[guard_define:]]:
                return 'guard', 'macro_name=%r: expected #ifndef/#define/#endif guard and no #pragma once' % macro_name
        elif not has_pragma:
            return 'guard', 'no macro_name: expected `#pragma once`'
    return None


# ---------------------------------------------------------------------------
# C string literals (self-test on the fixtures: prog6.c compares C *values*)

def c_unescape(lit: str) -> str:
    """value of the C string literal body `lit` (gcc rule for unknown escapes: the character itself)"""
    simple = {'n': '\n', 't': '\t', 'r': '\r', 'a': '\a', 'b': '\b', 'f': '\f', 'v': '\v', '0': '\0',
              '\\': '\\', '"': '"', "'": "'", '?': '?'}
    out, i = [], 0
    while i < len(lit):
        c = lit[i]
        if c == '\\' and i + 1 < len(lit):
            d = lit[i + 1]
            out.append(simple.get(d, d))
            i += 2
        else:
            out.append(c)
            i += 1
    return ''.join(out)


def c_string_literal_after(text: str, marker: str) -> T.Optional[str]:
    """body of the first "..." literal after `marker` on the same line"""
    k = text.find(marker)
    if k < 0:
        return None
    k += len(marker)
    end = text.find('\n', k)
    line = text[k:end if end >= 0 else len(text)]
    q = line.find('"')
    if q < 0:
        return None
    i = q + 1
    while i < len(line):
        if line[i] == '\\':
            i += 2
            continue
        if line[i] == '"':
            return line[q + 1:i]
        i += 1
    return None
