"""Driving the real meson: in-process (fast, shared module state) or as a fresh subprocess
(authoritative).  Rule (DESIGN 1.2/5): a disagreement seen in-process must be re-confirmed with
`confirm=True`/run_sub before it may become a VIOLATION.
"""
from __future__ import annotations

import contextlib
import io
import os
import subprocess
import sys
import typing as T

from harness.core import REPO, VERIF

PY = os.environ.get('VERIF_PYTHON') or ('/venv/bin/python' if os.path.exists('/venv/bin/python') else sys.executable)
FAKENINJA = os.path.join(VERIF, 'harness', 'fakeninja')
MESON_PY = os.path.join(REPO, 'meson.py')


class Result:
    def __init__(self, rc: int, out: str, err: str = ''):
        self.rc = rc
        self.out = out
        self.err = err

    @property
    def text(self) -> str:
        return self.out + self.err

    def messages(self, prefix: str = 'Message: ') -> T.List[str]:
        """Lines printed by message(); subproject output is prefixed 'name| '."""
        res = []
        for line in self.out.splitlines():
            if line.startswith(prefix):
                res.append(line[len(prefix):])
        return res

    def sub_messages(self, sp: str) -> T.List[str]:
        return self.messages(f'{sp}| Message: ')

    @property
    def unhandled(self) -> bool:
        t = self.text
        return 'Unhandled python exception' in t or 'Traceback (most recent call last)' in t \
            or 'This is a Meson bug and should be reported' in t

    def __repr__(self) -> str:
        return f'Result(rc={self.rc}, out={self.out[-800:]!r}, err={self.err[-400:]!r})'


def base_env(extra: T.Optional[T.Dict[str, str]] = None, hashseed: str = '0') -> T.Dict[str, str]:
    env = {k: v for k, v in os.environ.items()
           if not k.startswith(('MESON_', 'VERIF_', 'PYTHON')) and k not in ('CFLAGS', 'LDFLAGS', 'CPPFLAGS', 'CC', 'CXX', 'DESTDIR')}
    env['NINJA'] = FAKENINJA
    env['PYTHONHASHSEED'] = hashseed
    env['PYTHONDONTWRITEBYTECODE'] = '1'
    env['LC_ALL'] = 'C.UTF-8'
    env['MESON_FORCE_BACKTRACE'] = ''
    env.pop('MESON_FORCE_BACKTRACE')
    if extra:
        env.update(extra)
    return env


def run_sub(args: T.Sequence[str], cwd: T.Optional[str] = None, env: T.Optional[T.Dict[str, str]] = None,
            timeout: float = 300, hashseed: str = '0', input: T.Optional[str] = None,
            cpu_limit: T.Optional[int] = None, max_output: T.Optional[int] = None) -> Result:
    """`python /repo/meson.py <args>` in a fresh process.

    cpu_limit (seconds of CPU, RLIMIT_CPU) / max_output (bytes per stream, RLIMIT_FSIZE on temp files) bound a child
    that a broken tree sends into an endless loop printing messages: it is killed by the kernel (rc < 0, callers treat
    that as inconclusive) instead of filling the parent's memory through a pipe."""
    e = base_env(env, hashseed)
    cmd = [PY, '-B', MESON_PY] + list(args)
    if cpu_limit is None and max_output is None:
        p = subprocess.run(cmd, cwd=cwd, env=e, stdout=subprocess.PIPE, stderr=subprocess.PIPE,
                           timeout=timeout, input=input.encode() if input is not None else None,
                           stdin=subprocess.DEVNULL if input is None else None)
        return Result(p.returncode, p.stdout.decode('utf-8', 'replace'), p.stderr.decode('utf-8', 'replace'))
    import resource
    import tempfile

    def limits() -> None:
        if cpu_limit is not None:
            resource.setrlimit(resource.RLIMIT_CPU, (cpu_limit, cpu_limit + 2))
        if max_output is not None:
            resource.setrlimit(resource.RLIMIT_FSIZE, (max_output, max_output))

    tmpdir = '/dev/shm' if os.path.isdir('/dev/shm') else None
    with tempfile.TemporaryFile(dir=tmpdir) as fo, tempfile.TemporaryFile(dir=tmpdir) as fe:
        rc = -9
        try:
            p = subprocess.run(cmd, cwd=cwd, env=e, stdout=fo, stderr=fe, timeout=timeout, preexec_fn=limits,
                               input=input.encode() if input is not None else None,
                               stdin=subprocess.DEVNULL if input is None else None)
            rc = p.returncode
        finally:
            fo.seek(0)
            fe.seek(0)
            out, err = fo.read(), fe.read()
    return Result(rc, out.decode('utf-8', 'replace'), err.decode('utf-8', 'replace'))


_inproc_ready = False


def _reset_global_state() -> None:
    """Module-level state that one meson command leaves behind and the next would see."""
    from mesonbuild import mesonlib, mlog
    try:
        mesonlib.project_meson_versions.clear()
    except Exception:
        pass
    try:
        mlog.shutdown()
    except Exception:
        pass
    for name in ('_logged_once',):
        pass
    lg = getattr(mlog, '_logger', None)
    if lg is not None:
        for attr, val in (('logged_once', set()), ('log_errors_only', False), ('log_depth', []),
                          ('log_warnings_counter', 0), ('log_disable_stdout', False)):
            if hasattr(lg, attr):
                try:
                    if isinstance(val, (set, list)):
                        getattr(lg, attr).clear()
                    else:
                        setattr(lg, attr, val)
                except Exception:
                    pass


def run_inproc(args: T.Sequence[str], cwd: T.Optional[str] = None, env: T.Optional[T.Dict[str, str]] = None) -> Result:
    """mesonmain.run(args) inside this process with stdout/stderr captured.  ~20x faster than a
    subprocess; shares module state, so only use results that are re-confirmed by run_sub when they
    disagree with an oracle."""
    global _inproc_ready
    from mesonbuild import mesonmain
    if not _inproc_ready:
        os.environ['NINJA'] = FAKENINJA
        for k in ('CFLAGS', 'LDFLAGS', 'CPPFLAGS', 'CC', 'CXX', 'DESTDIR'):
            os.environ.pop(k, None)
        _inproc_ready = True
    saved_env = None
    if env:
        saved_env = {k: os.environ.get(k) for k in env}
        os.environ.update(env)
    old_cwd = os.getcwd()
    out, err = io.StringIO(), io.StringIO()
    rc = 0
    try:
        if cwd:
            os.chdir(cwd)
        _reset_global_state()
        with contextlib.redirect_stdout(out), contextlib.redirect_stderr(err):
            try:
                rc = mesonmain.run(list(args), MESON_PY)
            except SystemExit as e:
                rc = e.code if isinstance(e.code, int) else (0 if e.code is None else 1)
    finally:
        try:
            _reset_global_state()
        finally:
            os.chdir(old_cwd)
            if saved_env is not None:
                for k, v in saved_env.items():
                    if v is None:
                        os.environ.pop(k, None)
                    else:
                        os.environ[k] = v
    return Result(rc, out.getvalue(), err.getvalue())


def run_meson(args: T.Sequence[str], cwd: T.Optional[str] = None, env: T.Optional[T.Dict[str, str]] = None,
              inproc: bool = True) -> Result:
    return run_inproc(args, cwd, env) if inproc else run_sub(args, cwd, env)


def write_tree(root: str, files: T.Dict[str, T.Union[str, bytes]]) -> None:
    for rel, content in files.items():
        path = os.path.join(root, rel)
        os.makedirs(os.path.dirname(path), exist_ok=True)
        if isinstance(content, bytes):
            with open(path, 'wb') as f:
                f.write(content)
        else:
            with open(path, 'w', encoding='utf-8', newline='') as f:
                f.write(content)
