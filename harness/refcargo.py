"""Reference model for C20 (Cargo version requirements, SemVer order, cfg() expressions).

Nothing here is shared with, or derived from, mesonbuild/cargo/*.py.  Sources:

* SemVer 2.0.0 (https://semver.org) section 2/9/10 (grammar) and section 11 (precedence) -> parse_version, cmp_version
* the semver crate Cargo links (semver 1.0.x: src/parse.rs = requirement grammar, src/eval.rs = matcher;
  a copy of 1.0.28 is in ~/.cargo/registry) and the Cargo book chapter "Specifying dependencies"
  (caret / tilde / wildcard / comparison / multiple requirements)                    -> parse_req, cargo_matches
* the two deviations pinned by /repo/unittests/cargotests.py::test_cargo_parse        -> pinned_rewrite, matches
    D1  ('= 1', accept 1.0.0, reject 1.0.1) , ('> 1', accept 1.0.1)   partial `=` / `>` pad with zeros
    D2  ('0.0.0' / '0.0' / '^0.0.0' / '^0.0' accept 0.0.5 and 0.5, reject 1)  all-zero caret means <1.0.0
* the Rust reference "Conditional compilation" grammar (ConfigurationPredicate) and Cargo's cargo-platform
  tokenizer/parser (idents [A-Za-z_][A-Za-z0-9_]*, "string" without escapes, all/any take a trailing comma,
  not takes exactly one predicate)                                                   -> cfg_eval, cfg_classify

The transcription is itself validated against real Cargo by CargoProbe (see checks/c20_cargo.py selftest).
"""
from __future__ import annotations

import os
import shutil
import subprocess
import typing as T
from concurrent.futures import ThreadPoolExecutor

DIGITS = '0123456789'
LETTERS = 'abcdefghijklmnopqrstuvwxyzABCDEFGHIJKLMNOPQRSTUVWXYZ'
IDCHARS = DIGITS + LETTERS + '-'


class RefError(Exception):
    """Input is outside the grammar the reference implements (never: the code under test is wrong)."""


# ---------------------------------------------------------------------------
# SemVer 2.0.0 versions

class Ver(T.NamedTuple):
    major: int
    minor: int
    patch: int
    pre: T.Tuple[str, ...]     # dot separated identifiers, () for a release
    build: str

    @property
    def release(self) -> T.Tuple[int, int, int]:
        return (self.major, self.minor, self.patch)


def _numeric(s: str, what: str) -> int:
    if not s or any(c not in DIGITS for c in s):
        raise RefError(f'{what}: {s!r} is not a numeric identifier')
    if len(s) > 1 and s[0] == '0':
        raise RefError(f'{what}: leading zero in {s!r}')
    return int(s)


def _idents(s: str, what: str, numeric_no_leading_zero: bool) -> T.Tuple[str, ...]:
    parts = s.split('.')
    for p in parts:
        if not p or any(c not in IDCHARS for c in p):
            raise RefError(f'{what}: bad identifier {p!r}')
        if numeric_no_leading_zero and all(c in DIGITS for c in p) and len(p) > 1 and p[0] == '0':
            raise RefError(f'{what}: leading zero in numeric identifier {p!r}')
    return tuple(parts)


def parse_version(s: str) -> Ver:
    """<major>.<minor>.<patch>[-<pre>][+<build>]  (SemVer 2.0.0 sections 2, 9, 10)."""
    build = ''
    core = s
    if '+' in core:
        core, build = core.split('+', 1)
        _idents(build, 'build metadata', False)
    pre: T.Tuple[str, ...] = ()
    if '-' in core:
        core, p = core.split('-', 1)
        pre = _idents(p, 'pre-release', True)
    nums = core.split('.')
    if len(nums) != 3:
        raise RefError(f'version {s!r}: need exactly major.minor.patch')
    return Ver(_numeric(nums[0], 'major'), _numeric(nums[1], 'minor'), _numeric(nums[2], 'patch'), pre, build)


def _is_num(ident: str) -> bool:
    return all(c in DIGITS for c in ident)


def cmp_ident(a: str, b: str) -> int:
    """section 11.4.1-11.4.3"""
    na, nb = _is_num(a), _is_num(b)
    if na and nb:
        x, y = int(a), int(b)
        return (x > y) - (x < y)
    if na != nb:
        return -1 if na else 1          # numeric identifiers always have lower precedence
    return (a > b) - (a < b)            # ASCII order (str comparison of ASCII-only identifiers)


def cmp_pre(a: T.Tuple[str, ...], b: T.Tuple[str, ...]) -> int:
    """section 11.3 / 11.4: a release (empty list) ranks above any pre-release."""
    if not a or not b:
        return (not a) - (not b)
    for x, y in zip(a, b):
        c = cmp_ident(x, y)
        if c:
            return c
    return (len(a) > len(b)) - (len(a) < len(b))     # 11.4.4 larger set of fields is higher


def cmp_version(a: Ver, b: Ver) -> int:
    if a.release != b.release:
        return 1 if a.release > b.release else -1
    return cmp_pre(a.pre, b.pre)                      # build metadata ignored (section 10)


# ---------------------------------------------------------------------------
# requirements (semver crate grammar, restricted to the forms the property lists)

class Comp(T.NamedTuple):
    op: str                          # one of  ^ ~ = > >= < <= * (wildcard) lt1 (pinned deviation D2)
    major: int
    minor: T.Optional[int]
    patch: T.Optional[int]
    pre: T.Tuple[str, ...]


OPS = ('>=', '<=', '>', '<', '=', '~', '^')


def _parse_comparator(text: str) -> Comp:
    t = text.strip(' ')
    op = '^'
    explicit = False
    for o in OPS:
        if t.startswith(o):
            op, t, explicit = o, t[len(o):].lstrip(' '), True
            break
    build_sep = t.find('+')
    if build_sep >= 0:
        _idents(t[build_sep + 1:], 'build metadata', False)
        t = t[:build_sep]
        had_build = True
    else:
        had_build = False
    pre: T.Tuple[str, ...] = ()
    dash = t.find('-')
    if dash >= 0:
        pre = _idents(t[dash + 1:], 'pre-release', True)
        t = t[:dash]
    parts = t.split('.')
    if not 1 <= len(parts) <= 3:
        raise RefError(f'comparator {text!r}: bad number of components')
    wild = False
    nums: T.List[T.Optional[int]] = []
    for i, p in enumerate(parts):
        if p == '*':
            if i == 0 or i != len(parts) - 1:
                raise RefError(f'comparator {text!r}: wildcard form outside the listed ones (X.*, X.Y.*)')
            wild = True
            nums.append(None)
        elif p in ('x', 'X'):
            raise RefError('x/X wildcards are not among the listed forms')
        else:
            nums.append(_numeric(p, 'component'))
    if wild and explicit:
        raise RefError('operator combined with a wildcard is not among the listed forms')
    if (pre or had_build) and (len(parts) != 3 or wild):
        raise RefError('pre-release/build on a partial version is not a valid Cargo requirement')
    while len(nums) < 3:
        nums.append(None)
    assert nums[0] is not None
    return Comp('*' if wild else op, nums[0], nums[1], nums[2], pre)


def parse_req(req: str) -> T.List[Comp]:
    """'' and '*' give the empty comparator list (VersionReq::STAR)."""
    t = req.strip(' ')
    if t in ('', '*'):
        return []
    out = []
    for piece in t.split(','):
        if piece.strip(' ') == '*':
            raise RefError('`*` inside a comma list is rejected by Cargo')
        out.append(_parse_comparator(piece))
    if len(out) > 32:
        raise RefError('more than 32 comparators')
    return out


# -- semver crate eval.rs, function for function ------------------------------

def _m_exact(c: Comp, v: Ver) -> bool:
    if v.major != c.major:
        return False
    if c.minor is not None and v.minor != c.minor:
        return False
    if c.patch is not None and v.patch != c.patch:
        return False
    return v.pre == c.pre


def _m_greater(c: Comp, v: Ver) -> bool:
    if v.major != c.major:
        return v.major > c.major
    if c.minor is None:
        return False
    if v.minor != c.minor:
        return v.minor > c.minor
    if c.patch is None:
        return False
    if v.patch != c.patch:
        return v.patch > c.patch
    return cmp_pre(v.pre, c.pre) > 0


def _m_less(c: Comp, v: Ver) -> bool:
    if v.major != c.major:
        return v.major < c.major
    if c.minor is None:
        return False
    if v.minor != c.minor:
        return v.minor < c.minor
    if c.patch is None:
        return False
    if v.patch != c.patch:
        return v.patch < c.patch
    return cmp_pre(v.pre, c.pre) < 0


def _m_tilde(c: Comp, v: Ver) -> bool:
    if v.major != c.major:
        return False
    if c.minor is not None and v.minor != c.minor:
        return False
    if c.patch is not None and v.patch != c.patch:
        return v.patch > c.patch
    return cmp_pre(v.pre, c.pre) >= 0


def _m_caret(c: Comp, v: Ver) -> bool:
    if v.major != c.major:
        return False
    if c.minor is None:
        return True
    if c.patch is None:
        return v.minor >= c.minor if c.major > 0 else v.minor == c.minor
    if c.major > 0:
        if v.minor != c.minor:
            return v.minor > c.minor
        if v.patch != c.patch:
            return v.patch > c.patch
    elif c.minor > 0:
        if v.minor != c.minor:
            return False
        if v.patch != c.patch:
            return v.patch > c.patch
    elif v.minor != c.minor or v.patch != c.patch:
        return False
    return cmp_pre(v.pre, c.pre) >= 0


def _m_impl(c: Comp, v: Ver) -> bool:
    if c.op in ('=', '*'):
        return _m_exact(c, v)
    if c.op == '>':
        return _m_greater(c, v)
    if c.op == '>=':
        return _m_exact(c, v) or _m_greater(c, v)
    if c.op == '<':
        return _m_less(c, v)
    if c.op == '<=':
        return _m_exact(c, v) or _m_less(c, v)
    if c.op == '~':
        return _m_tilde(c, v)
    if c.op == '^':
        return _m_caret(c, v)
    if c.op == 'lt1':                      # pinned deviation D2: >=0.0.0, <1.0.0
        return v.major < 1
    raise RefError(f'unknown op {c.op}')


def _pre_compatible(c: Comp, v: Ver) -> bool:
    return c.major == v.major and c.minor == v.minor and c.patch == v.patch and bool(c.pre)


def match_comps(comps: T.Sequence[Comp], v: Ver) -> bool:
    for c in comps:
        if not _m_impl(c, v):
            return False
    if not v.pre:
        return True
    return any(_pre_compatible(c, v) for c in comps)


def cargo_matches(req: str, version: str) -> bool:
    """What Cargo's matcher answers (no deviation)."""
    return match_comps(parse_req(req), parse_version(version))


# -- the two pinned deviations ------------------------------------------------

def deviation_of(c: Comp) -> T.Optional[str]:
    if c.op in ('=', '>') and c.patch is None:
        return 'D1'
    if c.op == '^' and c.major == 0 and not c.minor and not c.patch:
        # ^0 agrees with Cargo anyway (<1.0.0); ^0.0 and ^0.0.0 do not
        return 'D2' if c.minor is not None else None
    return None


def pinned_rewrite(comps: T.Sequence[Comp]) -> T.List[Comp]:
    out = []
    for c in comps:
        if c.op in ('=', '>') and c.patch is None:
            out.append(c._replace(minor=c.minor or 0, patch=0))
        elif c.op == '^' and c.major == 0 and not c.minor and not c.patch:
            if c.pre:
                raise RefError('all-zero caret with a pre-release tag: scope of the pinned deviation is undefined')
            out.append(c._replace(op='lt1'))
        else:
            out.append(c)
    return out


def names_prerelease(comps: T.Sequence[Comp]) -> bool:
    return any(c.pre for c in comps)


def matches(req: str, version: str) -> bool:
    """The rule the property states: Cargo's matcher with D1 and D2."""
    return match_comps(pinned_rewrite(parse_req(req)), parse_version(version))


# ---------------------------------------------------------------------------
# cfg() expressions.  A tree is JSON-able:
#   ['name', ident] | ['eq', ident, value] | ['not', tree] | ['all', [trees]] | ['any', [trees]]

def cfg_eval(tree: T.Any, cfgs: T.Mapping[str, str]) -> bool:
    k = tree[0]
    if k == 'name':
        return tree[1] in cfgs
    if k == 'eq':
        return tree[1] in cfgs and cfgs[tree[1]] == tree[2]
    if k == 'not':
        return not cfg_eval(tree[1], cfgs)
    if k == 'all':
        for t in tree[1]:
            if not cfg_eval(t, cfgs):
                return False
        return True
    if k == 'any':
        for t in tree[1]:
            if cfg_eval(t, cfgs):
                return True
        return False
    raise RefError(f'bad tree node {k!r}')


def cfg_ops(tree: T.Any) -> int:
    k = tree[0]
    if k in ('name', 'eq'):
        return 0
    if k == 'not':
        return 1 + cfg_ops(tree[1])
    return 1 + sum(cfg_ops(t) for t in tree[1])


# rendering styles: (after-comma, around '=', inside parens, between operator name and '(', outer)
STYLES: T.List[T.Tuple[str, str, str, str, str]] = [
    (' ', ' ', '', '', ''),          # all(a, k = "v")         the usual spelling
    ('', '', '', '', ''),            # all(a,k="v")
    (' ', '', ' ', '', ' '),         #  all( a, k="v" )
    ('\t', ' ', '', ' ', ''),        # all (a,\tk = "v")
    ('\n    ', ' ', '\n', '', ''),   # multi-line as written in Cargo.toml multi-line keys
    ('  ', '  ', ' ', '  ', '\t'),
]


def cfg_render(tree: T.Any, style: int = 0) -> str:
    ac, eq, inner, gap, outer = STYLES[style % len(STYLES)]

    def r(t: T.Any) -> str:
        k = t[0]
        if k == 'name':
            return t[1]
        if k == 'eq':
            return f'{t[1]}{eq}={eq}"{t[2]}"'
        if k == 'not':
            return f'not{gap}({inner}{r(t[1])}{inner})'
        args = t[1]
        if not args:
            return f'{k}{gap}({inner})'
        return f'{k}{gap}({inner}' + (',' + ac).join(r(a) for a in args) + f'{inner})'
    return outer + r(tree) + outer


# -- grammar recogniser (classification of arbitrary text; never used to compute an expected Boolean) ---------

IDENT_START = LETTERS + '_'
IDENT_REST = IDENT_START + DIGITS
WS = ' \t\n\r\x0b\x0c'


def cfg_tokens(text: str, lenient: bool) -> T.Optional[T.List[T.Tuple[str, str]]]:
    """None = lexical error.  lenient: an identifier is any run of characters that are neither blank nor one
    of ( ) , = "  (the most liberal reading; used to separate 'structure is wrong' from 'alphabet is wrong')."""
    out: T.List[T.Tuple[str, str]] = []
    i, n = 0, len(text)
    while i < n:
        ch = text[i]
        if ch == ' ' or (lenient and ch.isspace()):
            # Cargo's tokenizer skips only U+0020 (verified with cargo 1.95: `cfg(a\n)` is refused) while the Rust
            # reference allows any white space between tokens: other blanks are 'alphabet', not 'malformed'
            i += 1
        elif ch in '(),=':
            out.append((ch, ch))
            i += 1
        elif ch == '"':
            j = text.find('"', i + 1)
            if j < 0:
                return None            # unterminated string
            out.append(('str', text[i + 1:j]))
            i = j + 1
        else:
            j = i
            if lenient:
                while j < n and not text[j].isspace() and text[j] not in '(),="':
                    j += 1
            else:
                if ch not in IDENT_START:
                    return None
                while j < n and text[j] in IDENT_REST:
                    j += 1
            out.append(('id', text[i:j]))
            i = j
    return out


def _cfg_parse(toks: T.List[T.Tuple[str, str]]) -> T.Optional[str]:
    """'listed' | 'extended' (valid for Cargo, outside the forms the property lists) | None (malformed)."""
    pos = 0
    extended = False

    def peek() -> T.Optional[str]:
        return toks[pos][0] if pos < len(toks) else None

    def expr(depth: int) -> bool:
        nonlocal pos, extended
        if depth > 200 or pos >= len(toks):
            return False
        kind, val = toks[pos]
        if kind != 'id':
            return False
        pos += 1
        if val in ('all', 'any'):
            if peek() != '(':
                return False
            pos += 1
            while True:
                if peek() == ')':
                    pos += 1
                    return True
                if not expr(depth + 1):
                    return False
                if peek() == ',':
                    pos += 1
                    if peek() == ')':
                        extended = True        # trailing comma: Cargo accepts, not a listed form
                    continue
                if peek() == ')':
                    pos += 1
                    return True
                return False
        if val == 'not':
            if peek() != '(':
                return False
            pos += 1
            if not expr(depth + 1):
                return False
            if peek() != ')':
                return False
            pos += 1
            return True
        if val in ('true', 'false') or val.startswith('r#'):
            extended = True
        if peek() == '=':
            pos += 1
            if peek() != 'str':
                return False
            pos += 1
        return True

    if not expr(0) or pos != len(toks):
        return None
    return 'extended' if extended else 'listed'


def cfg_classify(text: str) -> str:
    """'listed', 'extended', 'alphabet' (structure fine under the liberal identifier reading, but some word is
    not a Cargo identifier / a string holds a blank or delimiter: undefined region), or 'malformed'."""
    strict = cfg_tokens(text, lenient=False)
    if strict is not None:
        r = _cfg_parse(strict)
        if r is not None:
            if any(k == 'str' and (not v or any(c.isspace() or c in '(),=\\' for c in v)) for k, v in strict):
                return 'alphabet'
            return r
    loose = cfg_tokens(text, lenient=True)
    if loose is not None and _cfg_parse(loose) is not None:
        return 'alphabet'
    return 'malformed'


# ---------------------------------------------------------------------------
# real Cargo as the oracle's oracle

class CargoProbe:
    """Runs `cargo metadata --offline` on throw-away manifests.  Outcomes for a requirement cell:
    True (matcher accepts), False (matcher rejects), None (Cargo refuses the requirement/version text)."""

    def __init__(self, scratch: str, jobs: int = 16):
        self.scratch = scratch
        self.jobs = jobs
        self.cargo = os.environ.get('VERIF_CARGO') or shutil.which('cargo') or '/root/.cargo/bin/cargo'
        self._n = 0
        self._ok: T.Optional[bool] = None
        self.why = ''

    def available(self) -> bool:
        if self._ok is None:
            try:
                r = subprocess.run([self.cargo, '--version'], capture_output=True, text=True, timeout=30)
                self._ok = r.returncode == 0
                self.why = r.stdout.strip() or r.stderr.strip()
            except (OSError, subprocess.SubprocessError) as e:
                self._ok = False
                self.why = repr(e)
            if self._ok:
                # canary: the probe mechanism itself must work here (offline resolution of a path dependency)
                try:
                    canary = self.req_cells([('1', '1.0.0'), ('2', '1.0.0')])
                except (RefError, OSError, subprocess.SubprocessError) as e:
                    canary = [repr(e)[:300]]
                if canary != [True, False]:
                    self._ok = False
                    self.why = f'cargo present but the offline path-dependency probe does not work here: {canary}'
        return self._ok

    def _dir(self) -> str:
        self._n += 1
        d = os.path.join(self.scratch, f'cargo{self._n}')
        os.makedirs(d)
        return d

    @staticmethod
    def _toml_str(s: str) -> str:
        return '"' + s.replace('\\', '\\\\').replace('"', '\\"').replace('\n', '\\n').replace('\t', '\\t') + '"'

    def _run(self, d: str) -> T.Tuple[int, str]:
        env = dict(os.environ)
        env['CARGO_TERM_COLOR'] = 'never'
        env.pop('RUSTFLAGS', None)
        r = subprocess.run([self.cargo, 'metadata', '--offline', '--format-version', '1'],
                           cwd=os.path.join(d, 'main'), capture_output=True, text=True, env=env, timeout=120)
        shutil.rmtree(d, ignore_errors=True)
        return r.returncode, r.stderr

    def _req_cell(self, job: T.Tuple[str, str, str]) -> T.Optional[bool]:
        d, req, ver = job
        os.makedirs(os.path.join(d, 'main'))
        os.makedirs(os.path.join(d, 'dep'))
        with open(os.path.join(d, 'main', 'Cargo.toml'), 'w', encoding='utf-8') as f:
            f.write('[package]\nname = "main"\nversion = "0.1.0"\nedition = "2021"\n[lib]\npath = "lib.rs"\n'
                    f'[dependencies]\ndep = {{ path = "../dep", version = {self._toml_str(req)} }}\n')
        with open(os.path.join(d, 'dep', 'Cargo.toml'), 'w', encoding='utf-8') as f:
            f.write(f'[package]\nname = "dep"\nversion = {self._toml_str(ver)}\nedition = "2021"\n[lib]\npath = "lib.rs"\n')
        rc, err = self._run(d)
        if rc == 0:
            return True
        if 'failed to select a version for the requirement' in err:
            return False
        if 'failed to parse the version requirement' in err or 'failed to parse manifest' in err \
                or 'unexpected' in err or 'invalid' in err:
            return None
        raise RefError(f'cargo probe: unexpected failure for {req!r} / {ver!r}:\n{err}')

    def req_cells(self, cells: T.Sequence[T.Tuple[str, str]]) -> T.List[T.Optional[bool]]:
        jobs = [(self._dir(), r, v) for r, v in cells]
        with ThreadPoolExecutor(self.jobs) as ex:
            return list(ex.map(self._req_cell, jobs))

    def _cfg_cell(self, job: T.Tuple[str, str]) -> bool:
        d, expr = job
        os.makedirs(os.path.join(d, 'main'))
        with open(os.path.join(d, 'main', 'Cargo.toml'), 'w', encoding='utf-8') as f:
            f.write('[package]\nname = "main"\nversion = "0.1.0"\nedition = "2021"\n[lib]\npath = "lib.rs"\n'
                    f'[target.{self._toml_str("cfg(" + expr + ")")}.dependencies]\n')
        rc, err = self._run(d)
        if rc == 0:
            return True
        if 'cfg expression' in err or 'failed to parse' in err:
            return False
        raise RefError(f'cargo probe: unexpected failure for cfg({expr}):\n{err}')

    def cfg_cells(self, exprs: T.Sequence[str]) -> T.List[bool]:
        """True = Cargo parses cfg(<expr>) as a cfg expression."""
        jobs = [(self._dir(), e) for e in exprs]
        with ThreadPoolExecutor(self.jobs) as ex:
            return list(ex.map(self._cfg_cell, jobs))
