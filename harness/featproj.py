"""Catalogue of small, deterministic, parametrised *feature projects*.

harness/projgen.py draws random target graphs out of plain C targets, custom targets, generators and
configure_file.  The Ninja backend has many language / feature specific code paths that such graphs never
reach (precompiled headers, the single rustc statement of a Rust target, javac/jar, Fortran module scanning,
link_depends:, objects:, extract_objects(), structured_sources(), ...).  Every entry of this catalogue is one
tiny project (1-4 hand-written source files) that reaches one of them, written so that every generated file is
REALLY consumed by the step that needs it: a missing dependency edge makes that step fail as soon as it is
executed with only its declared ancestors' outputs present (C05), and the targets the project declares as built
by default / needed by tests must be reachable from `all` / `meson-test-prereq` / `meson-benchmark-prereq` (C04).

A *case* is plain data: {'feature': <entry name>, 'opts': {<option>: <value>, ...}}.  `cases(seed, tier)` lists
the cases of one run: every entry always runs with its `fixed` option sets, plus (quick) one or (thorough) up to
`THOROUGH_VARIANTS` option sets drawn from the entry's option matrix by a hash of (seed, entry name).
`build(case)` turns a case into a `Project` (files, setup arguments, expectations).

Nothing here looks at the implementation under test; the expectations are the ones the project text states
(`build_by_default`, `test(... depends:)`, ...).
"""
from __future__ import annotations

import hashlib
import itertools
import os
import shutil
import typing as T

THOROUGH_VARIANTS = 6

# ---------------------------------------------------------------------------
# tools shared by the projects

# gen.py [--read FILE]... [--depfile FILE] [--stamp TEXT] (--copy SRC DST)...
#   opens every --read file (fails when one is missing), then writes each DST with the content of SRC;
#   --depfile writes "DST0: READ..." in Makefile syntax.
GEN_PY = r'''#!/usr/bin/env python3
import sys, os
a = sys.argv[1:]
reads, copies, depfile = [], [], None
i = 0
while i < len(a):
    if a[i] == '--read':
        reads.append(a[i + 1]); i += 2
    elif a[i] == '--depfile':
        depfile = a[i + 1]; i += 2
    elif a[i] == '--copy':
        copies.append((a[i + 1], a[i + 2])); i += 3
    else:
        sys.exit('gen.py: bad argument %r' % a[i])
for r in reads:
    with open(r, 'rb') as f:
        f.read()
for s, d in copies:
    with open(s, 'rb') as f:
        data = f.read()
    if os.path.dirname(d):
        os.makedirs(os.path.dirname(d), exist_ok=True)
    with open(d, 'wb') as f:
        f.write(data)
if depfile:
    with open(depfile, 'w') as f:
        f.write('%s: %s\n' % (copies[0][1].replace(' ', '\\ '), ' '.join(r.replace(' ', '\\ ') for r in reads)))
'''

# mkar.py OUT.a IN.c -- CC...     compile IN.c and put the object into a deterministic static archive
MKAR_PY = r'''#!/usr/bin/env python3
import sys, subprocess, os
out, src = sys.argv[1], sys.argv[2]
cc = sys.argv[sys.argv.index('--') + 1:]
obj = out + '.tmp.o'
subprocess.check_call(cc + ['-c', src, '-o', obj])
if os.path.exists(out):
    os.unlink(out)
subprocess.check_call(['ar', 'csrD', out, obj])
os.unlink(obj)
'''

LEGACY_NINJA = '''#!/bin/sh
# fake ninja that reports a version without dyndep support (< 1.10): meson then takes its older code paths
case "$1" in --version) echo 1.9.0; exit 0;; esac
exec "%s" "$@"
'''

COPY = "command: [gen, '--copy', '@INPUT@', '@OUTPUT@']"


class Project:
    def __init__(self, name: str, opts: dict):
        self.name = name
        self.opts = opts
        self.files: T.Dict[str, str] = {'gen.py': GEN_PY}
        self.executable: T.List[str] = ['gen.py']
        # (output basename, aggregate) with aggregate in all / meson-test-prereq / meson-benchmark-prereq
        self.expect: T.List[T.Tuple[str, str]] = []
        self.run_targets: T.List[str] = []      # run_target() names that C05 executes as part of the build
        self.ninja_version: T.Optional[str] = None
        self.extra_setup: T.List[str] = []

    def setup_args(self) -> T.List[str]:
        o = self.opts
        args = []
        for k in ('layout', 'unity', 'default_library', 'b_pch', 'buildtype'):
            if k in o:
                v = o[k]
                if isinstance(v, bool):
                    v = 'true' if v else 'false'
                args.append(f'-D{k}={v}')
        return args + self.extra_setup

    def write(self, root: str, toolsdir: T.Optional[str] = None) -> T.Dict[str, str]:
        """Writes the tree; returns extra environment for `meson setup` (NINJA=... for the legacy variant)."""
        from harness.mesondrv import write_tree, FAKENINJA
        write_tree(root, self.files)
        for x in self.executable:
            os.chmod(os.path.join(root, x), 0o755)
        env: T.Dict[str, str] = {}
        if self.ninja_version is not None:
            td = toolsdir or os.path.join(os.path.dirname(root), 'tools')
            os.makedirs(td, exist_ok=True)
            p = os.path.join(td, 'ninja-legacy')
            with open(p, 'w') as f:
                f.write(LEGACY_NINJA % FAKENINJA)
            os.chmod(p, 0o755)
            env['NINJA'] = p
        return env


class Entry:
    def __init__(self, name: str, tools: T.List[str], builder: T.Callable[[Project], None], fixed: T.List[dict],
                 matrix: T.Dict[str, list], reaches: str, what: str):
        self.name = name
        self.tools = tools
        self.builder = builder
        self.fixed = fixed
        self.matrix = matrix
        self.reaches = reaches      # functions of ninjabackend.py the entry is aimed at (documentation only)
        self.what = what


ENTRIES: T.List[Entry] = []
BY_NAME: T.Dict[str, Entry] = {}


def entry(name: str, tools: T.List[str], fixed: T.List[dict], matrix: T.Dict[str, list], reaches: str, what: str):
    def deco(fn: T.Callable[[Project], None]) -> T.Callable[[Project], None]:
        e = Entry(name, tools, fn, fixed, matrix, reaches, what)
        ENTRIES.append(e)
        BY_NAME[name] = e
        return fn
    return deco


LAYOUT = ['mirror', 'flat']
UNITY = ['off', 'on']
DEFLIB = ['shared', 'static', 'both']


def head(p: Project, langs: T.List[str], extra: str = '') -> T.List[str]:
    ls = ', '.join(f"'{x}'" for x in langs)
    return [f"project('feat {p.name}', {ls}, default_options: ['warning_level=0']{extra})", "gen = find_program('gen.py')"]


# ---------------------------------------------------------------------------
# precompiled headers

def _pch(p: Project, how: str) -> None:
    lang = p.opts.get('lang', 'c')
    ext, hext, kw = ('c', 'h', 'c_pch') if lang == 'c' else ('cpp', 'hh', 'cpp_pch')
    L = head(p, [lang])
    srcs = [f"'main.{ext}'", f"'other.{ext}'"]
    kws = [f"{kw}: 'pch/app_pch.{hext}'"]
    if how == 'ct':
        L.append(f"hdr = custom_target('genhdr', input: 'gen_val.h.in', output: 'gen_val.h', {COPY})")
        srcs.append('hdr')
    elif how == 'ct-subdir':
        # the executable lives in a sub directory, the header is produced in the root build directory
        L.append(f"hdr = custom_target('genhdr', input: 'gen_val.h.in', output: 'gen_val.h', {COPY})")
        L.append("inc = include_directories('.')")
        srcs.append('hdr')
    elif how == 'generator':
        L.append("g = generator(gen, output: '@BASENAME@', arguments: ['--copy', '@INPUT@', '@OUTPUT@'])")
        srcs.append("g.process('gen_val.h.in')")
    elif how == 'configure':
        L.append("cfg = configure_file(input: 'gen_val.h.in', output: 'gen_val.h', copy: true)")
        srcs.append('cfg')
    elif how == 'dep':
        L.append(f"hdr = custom_target('genhdr', input: 'gen_val.h.in', output: 'gen_val.h', {COPY})")
        L.append("hdr_dep = declare_dependency(sources: hdr)")
        kws.append('dependencies: hdr_dep')
    elif how == 'dep-lib':
        # the header comes with a static library: declare_dependency(link_with:, sources:)
        L.append(f"hdr = custom_target('genhdr', input: 'gen_val.h.in', output: 'gen_val.h', {COPY})")
        L.append(f"hl = static_library('hl', 'hl.{ext}', hdr)")
        L.append("hdr_dep = declare_dependency(link_with: hl, sources: hdr)")
        kws.append('dependencies: hdr_dep')
        p.files[f'hl.{ext}'] = '#include "gen_val.h"\nint hl_value(void) { return GEN_VALUE; }\n'
    exe = f"exe = executable('app', {', '.join(srcs)}, {', '.join(kws)}"
    if how == 'ct-subdir':
        p.files['meson.build'] = '\n'.join(L + ["subdir('app')"]) + '\n'
        p.files['app/meson.build'] = exe + ", include_directories: inc)\ntest('app', exe)\n"
        d = 'app/'
    else:
        p.files['meson.build'] = '\n'.join(L + [exe + ')', "test('app', exe)"]) + '\n'
        d = ''
    p.files['gen_val.h.in'] = '#pragma once\n#define GEN_VALUE 42\n'
    p.files[f'{d}pch/app_pch.{hext}'] = '#include "gen_val.h"\n#include <stddef.h>\n#define FROM_PCH GEN_VALUE\n'
    # sources stay valid without the precompiled header (b_pch=false): they include what they use
    p.files[f'{d}main.{ext}'] = ('#include "gen_val.h"\nint other(void);\n'
                                 'int main(void) { return (GEN_VALUE - 42) + other(); }\n')
    p.files[f'{d}other.{ext}'] = '#include "gen_val.h"\nint other(void) { return GEN_VALUE == 42 ? 0 : 1; }\n'
    p.expect = [('app', 'all'), ('app', 'meson-test-prereq')]


PCH_MATRIX = {'lang': ['c', 'cpp'], 'b_pch': [True, False], 'layout': LAYOUT, 'unity': UNITY}
PCH_FIXED = [{'lang': 'c', 'b_pch': True, 'layout': 'mirror', 'unity': 'off'}]
PCH_REACH = 'generate_pch (add_header_deps on the c_PCH/cpp_PCH statement), generate_single_compile (pch_dep), get_generated_headers'


@entry('pch-ct', ['gcc', 'g++'], PCH_FIXED + [{'lang': 'cpp', 'b_pch': True, 'layout': 'flat', 'unity': 'on'}], PCH_MATRIX, PCH_REACH,
       'c_pch/cpp_pch header #includes a header produced by a custom_target listed in the sources')
def pch_ct(p: Project) -> None:
    _pch(p, 'ct')


@entry('pch-ct-subdir', ['gcc', 'g++'], PCH_FIXED, PCH_MATRIX, PCH_REACH,
       'as pch-ct, executable in a sub directory, header produced in the root build directory')
def pch_ct_subdir(p: Project) -> None:
    _pch(p, 'ct-subdir')


@entry('pch-generator', ['gcc', 'g++'], PCH_FIXED, PCH_MATRIX, PCH_REACH + ', generate_genlist_for_target',
       'pch header #includes a header produced by generator().process() (private dir of the target)')
def pch_generator(p: Project) -> None:
    _pch(p, 'generator')


@entry('pch-configure', ['gcc', 'g++'], PCH_FIXED, PCH_MATRIX, PCH_REACH,
       'pch header #includes a configure_file() output listed in the sources')
def pch_configure(p: Project) -> None:
    _pch(p, 'configure')


@entry('pch-dep', ['gcc', 'g++'], PCH_FIXED + [{'lang': 'cpp', 'b_pch': False, 'layout': 'mirror', 'unity': 'off'}], PCH_MATRIX, PCH_REACH,
       'pch header #includes a custom_target header that arrives through declare_dependency(sources:)')
def pch_dep(p: Project) -> None:
    _pch(p, 'dep')


@entry('pch-dep-lib', ['gcc', 'g++'], PCH_FIXED, PCH_MATRIX, PCH_REACH,
       'as pch-dep; the dependency also links a static library that was built with the same header')
def pch_dep_lib(p: Project) -> None:
    _pch(p, 'dep-lib')


# ---------------------------------------------------------------------------
# Rust

RUST_MAIN = '''mod genmod;
const DATA: &str = include_str!("data.txt");
const BLOB: &[u8] = include_bytes!("blob.bin");
fn main() {
    let n = genmod::value() + DATA.trim().len() as i32 + BLOB.len() as i32;
    std::process::exit(n - 42 - 5 - 4);
}
'''
RUST_LIB = '''mod genmod;
const DATA: &str = include_str!("data.txt");
pub fn rl_value() -> i32 { genmod::value() + DATA.trim().len() as i32 }
'''


def _rust_gen_cts(L: T.List[str], p: Project, prefix: str, main_in: str, main_out: str, main_text: str, blob: bool = True) -> T.List[str]:
    """custom targets producing <main_out> (the crate root, so that `mod x;` / include_str! resolve next to it in the
    build directory), genmod.rs, data.txt and blob.bin.  Returns the meson variable names."""
    p.files[main_in] = main_text
    p.files[f'{prefix}genmod.rs.in'] = 'pub fn value() -> i32 { 42 }\n'
    p.files[f'{prefix}data.txt.in'] = 'hello\n'
    L.append(f"{prefix}root = custom_target('{prefix}root', input: '{main_in}', output: '{main_out}', {COPY})")
    L.append(f"{prefix}mod = custom_target('{prefix}mod', input: '{prefix}genmod.rs.in', output: 'genmod.rs', {COPY})")
    L.append(f"{prefix}data = custom_target('{prefix}data', input: '{prefix}data.txt.in', output: 'data.txt', {COPY})")
    res = [f'{prefix}root', f'{prefix}mod', f'{prefix}data']
    if blob:
        p.files[f'{prefix}blob.bin.in'] = 'BLOB'
        L.append(f"{prefix}blob = custom_target('{prefix}blob', input: '{prefix}blob.bin.in', output: 'blob.bin', {COPY})")
        res.append(f'{prefix}blob')
    return res


@entry('rust-gen-exe', ['rustc'], [{'buildtype': 'debug'}], {'buildtype': ['debug', 'release', 'debugoptimized']},
       'generate_rust_sources (order-only deps of the rustc statement on every generated source), generate_rust_target',
       'Rust executable: generated crate root + generated module (custom_target .rs) + generated non-.rs files read with include_str!/include_bytes!')
def rust_gen_exe(p: Project) -> None:
    L = head(p, ['rust'])
    v = _rust_gen_cts(L, p, '', 'main.rs.in', 'main.rs', RUST_MAIN)
    L.append(f"exe = executable('rapp', {', '.join(v)})")
    L.append("test('rapp', exe)")
    p.files['meson.build'] = '\n'.join(L) + '\n'
    p.expect = [('rapp', 'all'), ('rapp', 'meson-test-prereq')]


@entry('rust-gen-generator', ['rustc'], [{'layout': 'mirror', 'buildtype': 'debug'}], {'layout': LAYOUT, 'buildtype': ['debug', 'release']},
       'generate_rust_sources (GeneratedList branch: outputs in the private dir), generate_genlist_for_target',
       'Rust executable whose crate root, module and include_str! data all come from generator().process()')
def rust_gen_generator(p: Project) -> None:
    L = head(p, ['rust'])
    L.append("g = generator(gen, output: '@BASENAME@', arguments: ['--copy', '@INPUT@', '@OUTPUT@'])")
    L.append("exe = executable('rgapp', g.process('main.rs.in', 'genmod.rs.in', 'data.txt.in'))")
    L.append("test('rgapp', exe)")
    p.files['main.rs.in'] = ('mod genmod;\nconst DATA: &str = include_str!("data.txt");\n'
                             'fn main() { std::process::exit(genmod::value() + DATA.trim().len() as i32 - 47); }\n')
    p.files['genmod.rs.in'] = 'pub fn value() -> i32 { 42 }\n'
    p.files['data.txt.in'] = 'hello\n'
    p.files['meson.build'] = '\n'.join(L) + '\n'
    p.expect = [('rgapp', 'all'), ('rgapp', 'meson-test-prereq')]


@entry('rust-rlib-chain', ['rustc'], [{'libkind': 'static_library', 'buildtype': 'debug'}], {'libkind': ['static_library', 'library-rust-abi'], 'buildtype': ['debug', 'release']},
       'generate_rust_target for an rlib, get_rust_compiler_deps_and_args (--extern + implicit dep on the rlib), generate_rust_sources',
       'Rust rlib (generated crate root, module, include_str! data) linked into a Rust executable with a hand-written main')
def rust_rlib_chain(p: Project) -> None:
    L = head(p, ['rust'])
    L.append("subdir('rl')")
    L.append("exe = executable('ruser', 'user.rs', link_with: rl)")
    L.append("test('ruser', exe, depends: rl)")
    S: T.List[str] = []
    v = _rust_gen_cts(S, p, 'rl_', 'rl/lib.rs.in', 'lib.rs', RUST_LIB, blob=False)
    for k in list(p.files):
        if k.startswith('rl_'):
            p.files['rl/' + k] = p.files.pop(k)
    S = [s.replace("input: 'rl/", "input: '") for s in S]
    if p.opts.get('libkind', 'static_library') == 'static_library':
        S.append(f"rl = static_library('rl', {', '.join(v)}, rust_abi: 'rust')")
    else:
        S.append(f"rl = library('rl', {', '.join(v)}, rust_abi: 'rust')")
        p.extra_setup = ['-Ddefault_library=static']
    p.files['rl/meson.build'] = '\n'.join(S) + '\n'
    p.files['user.rs'] = 'extern crate rl;\nfn main() { std::process::exit(rl::rl_value() - 47); }\n'
    p.files['meson.build'] = '\n'.join(L) + '\n'
    p.expect = [('librl.rlib', 'all'), ('ruser', 'all'), ('ruser', 'meson-test-prereq'), ('librl.rlib', 'meson-test-prereq')]


@entry('rust-structured', ['rustc'], [{'buildtype': 'debug'}], {'buildtype': ['debug', 'release']},
       '__generate_sources_structure / _generate_copy_target (COPY_FILE statements), generate_rust_sources (structured branch)',
       'Rust executable from structured_sources() mixing hand-written files and custom_target outputs (root and sub directory; needs copies)')
def rust_structured(p: Project) -> None:
    L = head(p, ['rust'])
    L.append(f"top = custom_target('top', input: 'gen_top.rs.in', output: 'top.rs', {COPY})")
    L.append(f"leaf = custom_target('leaf', input: 'gen_leaf.rs.in', output: 'leaf.rs', {COPY})")
    L.append(f"txt = custom_target('txt', input: 'note.txt.in', output: 'note.txt', {COPY})")
    L.append("ss = structured_sources(['src/main.rs', top], {'sub': ['src/sub/mod.rs', leaf, txt]})")
    L.append("exe = executable('sapp', ss)")
    L.append("test('sapp', exe)")
    # nothing generated and the layout already exists in the source tree: no copies, order deps on the source files
    L.append("exe2 = executable('sapp_nocopy', structured_sources(['src2/main.rs'], {'foo': 'src2/foo/mod.rs'}))")
    p.files['src2/main.rs'] = 'mod foo;\nfn main() { std::process::exit(foo::value() - 1); }\n'
    p.files['src2/foo/mod.rs'] = 'pub fn value() -> i32 { 1 }\n'
    p.files['src/main.rs'] = 'mod top;\nmod sub;\nfn main() { std::process::exit(top::value() + sub::leaf::value() + sub::NOTE.trim().len() as i32 - 46); }\n'
    p.files['src/sub/mod.rs'] = 'pub mod leaf;\npub const NOTE: &str = include_str!("note.txt");\n'
    p.files['gen_top.rs.in'] = 'pub fn value() -> i32 { 40 }\n'
    p.files['gen_leaf.rs.in'] = 'pub fn value() -> i32 { 2 }\n'
    p.files['note.txt.in'] = 'note\n'
    p.files['meson.build'] = '\n'.join(L) + '\n'
    p.expect = [('sapp', 'all'), ('sapp', 'meson-test-prereq'), ('sapp_nocopy', 'all')]


@entry('rust-structured-generated-root', ['rustc'], [{'buildtype': 'debug'}], {'buildtype': ['debug', 'release']},
       '__generate_sources_structure with only generated entries (crate root found among the copies), generate_rust_sources',
       'Rust executable from structured_sources() whose entries (crate root included) are all custom_target outputs')
def rust_structured_generated_root(p: Project) -> None:
    L = head(p, ['rust'])
    L.append(f"mainrs = custom_target('mainrs', input: 'main.rs.in', output: 'main.rs', {COPY})")
    L.append(f"modrs = custom_target('modrs', input: 'genmod.rs.in', output: 'genmod.rs', {COPY})")
    L.append("exe = executable('snapp', structured_sources([mainrs, modrs]))")
    L.append("test('snapp', exe)")
    p.files['main.rs.in'] = 'mod genmod;\nfn main() { std::process::exit(genmod::value() - 42); }\n'
    p.files['genmod.rs.in'] = 'pub fn value() -> i32 { 42 }\n'
    p.files['meson.build'] = '\n'.join(L) + '\n'
    p.expect = [('snapp', 'all'), ('snapp', 'meson-test-prereq')]


@entry('rust-c-mix', ['rustc', 'gcc'], [{'unity': 'off', 'buildtype': 'debug'}], {'unity': UNITY, 'buildtype': ['debug', 'release']},
       'get_rust_compiler_deps_and_args (C ABI library: -Clink-arg + implicit dep), generate_link with a Rust staticlib dependency, '
       'generate_rust_sources for rust_abi: c',
       'C static library (generated header) linked into a Rust executable; Rust staticlib (rust_abi: c, generated crate root + include_str! data) linked into a C executable')
def rust_c_mix(p: Project) -> None:
    L = head(p, ['c', 'rust'])
    L.append(f"chdr = custom_target('chdr', input: 'c_val.h.in', output: 'c_val.h', {COPY})")
    L.append("clib = static_library('cadd', 'cadd.c', chdr)")
    L.append("rexe = executable('rust_on_c', 'ruser.rs', link_with: clib)")
    L.append(f"rroot = custom_target('rroot', input: 'rs_c.rs.in', output: 'rs_c.rs', {COPY})")
    L.append(f"rdata = custom_target('rdata', input: 'data.txt.in', output: 'data.txt', {COPY})")
    L.append("rlib = static_library('rs_c', rroot, rdata, rust_abi: 'c')")
    L.append("cexe = executable('c_on_rust', 'cuser.c', link_with: rlib)")
    L.append("test('rust_on_c', rexe)")
    L.append("test('c_on_rust', cexe)")
    p.files['c_val.h.in'] = '#pragma once\n#define C_VAL 40\n'
    p.files['cadd.c'] = '#include "c_val.h"\nint c_add(int a) { return a + C_VAL; }\n'
    p.files['ruser.rs'] = 'extern "C" { fn c_add(a: i32) -> i32; }\nfn main() { std::process::exit(unsafe { c_add(2) } - 42); }\n'
    p.files['rs_c.rs.in'] = ('const DATA: &str = include_str!("data.txt");\n'
                             '#[no_mangle]\npub extern "C" fn rs_value() -> i32 { 37 + DATA.trim().len() as i32 }\n')
    p.files['data.txt.in'] = 'hello\n'
    p.files['cuser.c'] = 'int rs_value(void);\nint main(void) { return rs_value() - 42; }\n'
    p.files['meson.build'] = '\n'.join(L) + '\n'
    p.expect = [('rust_on_c', 'all'), ('c_on_rust', 'all'), ('librs_c.a', 'all'), ('libcadd.a', 'all'),
                ('rust_on_c', 'meson-test-prereq'), ('c_on_rust', 'meson-test-prereq')]


@entry('rust-cdylib-linked', ['rustc', 'gcc'], [{'buildtype': 'debug'}], {'buildtype': ['debug', 'release'], 'layout': LAYOUT},
       'generate_rust_target for a shared library (cdylib) + generate_shsym / get_dependency_filename of the consumers',
       'Rust shared_library(rust_abi: c) linked with link_with: into a C executable and into a Rust executable; whatever the consumers wait for must be produced')
def rust_cdylib_linked(p: Project) -> None:
    L = head(p, ['c', 'rust'])
    L.append("rcore = shared_library('rcore', 'rcore.rs', rust_abi: 'c')")
    L.append("cexe = executable('c_on_rcore', 'cuser.c', link_with: rcore)")
    L.append("rexe = executable('r_on_rcore', 'ruser.rs', link_with: rcore)")
    L.append("test('c_on_rcore', cexe)")
    L.append("test('r_on_rcore', rexe)")
    p.files['rcore.rs'] = '#[no_mangle]\npub extern "C" fn rcore_value() -> i32 { 42 }\n'
    p.files['cuser.c'] = 'int rcore_value(void);\nint main(void) { return rcore_value() - 42; }\n'
    p.files['ruser.rs'] = 'extern "C" { fn rcore_value() -> i32; }\nfn main() { std::process::exit(unsafe { rcore_value() } - 42); }\n'
    p.files['meson.build'] = '\n'.join(L) + '\n'
    p.expect = [('librcore.so', 'all'), ('c_on_rcore', 'all'), ('r_on_rcore', 'all'),
                ('c_on_rcore', 'meson-test-prereq'), ('r_on_rcore', 'meson-test-prereq')]


@entry('rust-module-test-generated', ['rustc'], [{'buildtype': 'debug'}], {'buildtype': ['debug', 'release']},
       'modules/rust.py test_common(): the test executable is a second target built from the library\'s sources, generated ones included',
       'rust.test() of a static library that include!()s a custom_target output listed among its sources, the library having a dependencies: entry')
def rust_module_test_generated(p: Project) -> None:
    L = head(p, ['rust'])
    L.append("rust = import('rust')")
    L.append(f"rgen = custom_target('rgen', input: 'gen.rs.in', output: 'gen.rs', {COPY})")
    L.append("libm = declare_dependency(link_args: ['-lm'])")
    L.append("lib = static_library('mylib', 'mylib.rs', rgen, dependencies: libm)")
    L.append("rust.test('mylib_test', lib)")
    # (the harnesses configure <case>/src into <case>/bld: the generated file is reached by a relative path)
    p.files['mylib.rs'] = ('include!("../bld/gen.rs");\npub fn twice() -> i32 { answer() * 2 }\n'
                           '#[cfg(test)]\nmod tests {\n    #[test]\n    fn doubled() { assert_eq!(super::twice(), 84); }\n}\n')
    p.files['gen.rs.in'] = 'pub fn answer() -> i32 { 42 }\n'
    p.files['meson.build'] = '\n'.join(L) + '\n'
    p.expect = [('libmylib.rlib', 'all'), ('mylib_test', 'meson-test-prereq')]


# ---------------------------------------------------------------------------
# Java

@entry('java-gen', ['javac', 'jar'], [{'buildtype': 'debug'}], {'buildtype': ['debug', 'release']},
       'generate_jar_target, generate_java_compile (generated .java as input and implicit dep; link_targets jars as implicit deps), generate_tests (jar as test program)',
       'jar() with a custom_target .java source; a second jar (not built by default) link_with the first, run as a test')
def java_gen(p: Project) -> None:
    # the library jar lives in its own directory so that javac cannot find Base.java through -sourcepath: App really
    # needs base.jar on its class path
    L = head(p, ['java'])
    L.append("subdir('base')")
    L.append("app = jar('app', 'App.java', link_with: base, main_class: 'App', build_by_default: false)")
    L.append("test('app', app)")
    p.files['base/meson.build'] = (f"gsrc = custom_target('gensrc', input: 'Generated.java.in', output: 'Generated.java', {COPY})\n"
                                   "base = jar('base', 'Base.java', gsrc)\n")
    p.files['base/Generated.java.in'] = 'public class Generated { public static int value() { return 42; } }\n'
    p.files['base/Base.java'] = 'public class Base { public static int value() { return Generated.value(); } }\n'
    p.files['App.java'] = 'public class App { public static void main(String[] a) { System.exit(Base.value() - 42); } }\n'
    p.files['meson.build'] = '\n'.join(L) + '\n'
    p.expect = [('base.jar', 'all'), ('app.jar', 'meson-test-prereq'), ('base.jar', 'meson-test-prereq')]


@entry('java-subdir-gen', ['javac', 'jar'], [{'buildtype': 'debug'}], {'buildtype': ['debug', 'release']},
       'generate_java_compile (-sourcepath of a sub directory, class file paths of sources in package directories and of generated sources), generate_jar_target',
       'jar() in a sub directory: a class in a package directory, a custom_target .java source of that sub directory, both used by the main class')
def java_subdir_gen(p: Project) -> None:
    L = head(p, ['java'])
    L.append("subdir('j')")
    S = [f"gsrc = custom_target('cfgsrc', input: 'Config.java.in', output: 'Config.java', {COPY})",
         "jj = jar('jj', 'Main.java', 'com/ex/Util.java', gsrc, main_class: 'Main')",
         "test('jj', jj)"]
    p.files['j/Config.java.in'] = 'public class Config { public static final int VALUE = 40; }\n'
    p.files['j/com/ex/Util.java'] = 'package com.ex;\npublic class Util { public static int two() { return 2; } }\n'
    p.files['j/Main.java'] = ('import com.ex.Util;\npublic class Main { public static void main(String[] a) '
                              '{ System.exit(Config.VALUE + Util.two() - 42); } }\n')
    p.files['j/meson.build'] = '\n'.join(S) + '\n'
    p.files['meson.build'] = '\n'.join(L) + '\n'
    p.expect = [('jj.jar', 'all'), ('jj.jar', 'meson-test-prereq')]


# ---------------------------------------------------------------------------
# Fortran

@entry('fortran-modules', ['gfortran', 'gcc'], [{'ninja': 'dyndep', 'layout': 'mirror'}, {'ninja': 'legacy', 'layout': 'mirror'}],
       {'ninja': ['dyndep', 'legacy'], 'layout': LAYOUT},
       'generate_dependency_scan_target (depscan/depaccumulate statements), add_dependency_scanner_entries_to_element (dyndep binding); '
       'legacy (ninja < 1.10): scan_fortran_module_outputs, get_fortran_deps, get_fortran_module_deps, get_fortran_order_deps, FORTRAN_DEP_HACK',
       'Fortran: module defined in one file and used by another of the same target (user listed first), module from a static library, generated .f90 source')
def fortran_modules(p: Project) -> None:
    legacy = p.opts.get('ninja') == 'legacy'
    if legacy:
        p.ninja_version = '1.9.0'
    L = head(p, ['fortran'])
    L.append(f"gsrc = custom_target('gensrc', input: 'genpart.f90.in', output: 'genpart.f90', {COPY})")
    L.append("flib = static_library('flib', 'libmod.f90')")
    # a module that reaches the executable only THROUGH a shared library (exe -> shared -> static provider) and is used directly
    L.append("ffar = static_library('ffar', 'farmod.f90', pic: true)")
    L.append("fsh = shared_library('fsh', 'shmod.f90', link_with: ffar)")
    L.append("exe = executable('fexe', 'main.f90', 'moda.f90', 'selfuse.f90', gsrc, link_with: [flib, fsh])")
    L.append("test('fexe', exe)")
    if legacy:
        # the module scanner of the older path cannot see generated sources (documented FIXME): the generated file
        # provides an external function only
        p.files['genpart.f90.in'] = 'integer function gen_value()\n  gen_value = 3\nend function gen_value\n'
        use_gen, decl_gen = '', '  integer, external :: gen_value\n'
    else:
        p.files['genpart.f90.in'] = 'module genpart\n  implicit none\ncontains\n  integer function gen_value()\n    gen_value = 3\n  end function\nend module genpart\n'
        use_gen, decl_gen = '  use genpart\n', ''
    p.files['farmod.f90'] = 'module farmod\n  implicit none\ncontains\n  integer function far_value()\n    far_value = 0\n  end function\nend module farmod\n'
    p.files['shmod.f90'] = ('module shmod\n  use farmod\n  implicit none\ncontains\n  integer function sh_value()\n    sh_value = far_value()\n  end function\n'
                            'end module shmod\n')
    p.files['main.f90'] = ('program main\n  use moda\n  use libmod\n  use farmod\n' + use_gen + '  implicit none\n' + decl_gen +
                           '  integer, external :: use_self\n'
                           '  if (a_value() + lib_value() + gen_value() + use_self() + far_value() /= 6) stop 1\nend program main\n')
    # a file that defines a module AND uses it itself (the object must not be made to wait for its own module)
    p.files['selfuse.f90'] = ('module selfmod\n  implicit none\ncontains\n  integer function self_value()\n    self_value = 0\n  end function\n'
                              'end module selfmod\n\ninteger function use_self()\n  use selfmod\n  implicit none\n  use_self = self_value()\n'
                              'end function use_self\n')
    p.files['moda.f90'] = 'module moda\n  implicit none\ncontains\n  integer function a_value()\n    a_value = 1\n  end function\nend module moda\n'
    p.files['libmod.f90'] = 'module libmod\n  implicit none\ncontains\n  integer function lib_value()\n    lib_value = 2\n  end function\nend module libmod\n'
    p.files['meson.build'] = '\n'.join(L) + '\n'
    p.expect = [('fexe', 'all'), ('libflib.a', 'all'), ('libfsh.so', 'all'), ('fexe', 'meson-test-prereq')]


@entry('fortran-c-mixed', ['gfortran', 'gcc'], [{'ninja': 'dyndep', 'layout': 'mirror'}], {'ninja': ['dyndep', 'legacy'], 'layout': LAYOUT, 'unity': UNITY},
       'generate_single_compile for Fortran and C sources of one target, generated header for the C part, link by the Fortran linker',
       'one executable from a Fortran main, a Fortran module file and a C file that includes a generated header')
def fortran_c_mixed(p: Project) -> None:
    if p.opts.get('ninja') == 'legacy':
        p.ninja_version = '1.9.0'
    L = head(p, ['fortran', 'c'])
    L.append(f"hdr = custom_target('hdr', input: 'c_val.h.in', output: 'c_val.h', {COPY})")
    L.append("exe = executable('fcexe', 'fmain.f90', 'fmod.f90', 'cpart.c', hdr)")
    L.append("test('fcexe', exe)")
    p.files['c_val.h.in'] = '#pragma once\n#define C_VAL 5\n'
    p.files['cpart.c'] = '#include "c_val.h"\nint c_value_(void) { return C_VAL; }\n'
    p.files['fmod.f90'] = 'module fmod\n  implicit none\ncontains\n  integer function m_value()\n    m_value = 1\n  end function\nend module fmod\n'
    p.files['fmain.f90'] = 'program fmain\n  use fmod\n  implicit none\n  integer, external :: c_value\n  if (m_value() + c_value() /= 6) stop 1\nend program fmain\n'
    p.files['meson.build'] = '\n'.join(L) + '\n'
    p.expect = [('fcexe', 'all'), ('fcexe', 'meson-test-prereq')]


# ---------------------------------------------------------------------------
# C / C++

@entry('cpp-c-mixed-pair', ['gcc', 'g++'], [{'layout': 'mirror', 'unity': 'off'}], {'layout': LAYOUT, 'unity': UNITY},
       'generate_target: generated_sources loop with a .cpp (compiled) and a .hpp (header dep) of ONE custom target, C and C++ compile rules in one target, cpp linker',
       'C++ executable with a C source and a generated .cpp + .hpp pair coming from one custom_target with two outputs')
def cpp_c_mixed_pair(p: Project) -> None:
    L = head(p, ['c', 'cpp'])
    L.append("pair = custom_target('pair', input: ['gp.cpp.in', 'gp.hpp.in'], output: ['gp.cpp', 'gp.hpp'], "
             "command: [gen, '--copy', '@INPUT0@', '@OUTPUT0@', '--copy', '@INPUT1@', '@OUTPUT1@'])")
    L.append("exe = executable('mixed', 'main.cpp', 'util.c', pair)")
    L.append("test('mixed', exe)")
    p.files['gp.hpp.in'] = '#pragma once\nint gp_value();\n#define GP_CONST 40\n'
    p.files['gp.cpp.in'] = '#include "gp.hpp"\nint gp_value() { return GP_CONST; }\n'
    p.files['util.c'] = '#include "gp.hpp"\nint util_value(void) { return GP_CONST - 38; }\n'
    p.files['main.cpp'] = '#include "gp.hpp"\nextern "C" int util_value(void);\nint main() { return gp_value() + util_value() - 42; }\n'
    p.files['meson.build'] = '\n'.join(L) + '\n'
    p.expect = [('mixed', 'all'), ('mixed', 'meson-test-prereq')]


@entry('ct-indexed', ['gcc'], [{'layout': 'mirror', 'unity': 'off'}], {'layout': LAYOUT, 'unity': UNITY, 'default_library': DEFLIB},
       'CustomTargetIndex as source: get_target_generated_sources / generated_sources loop for ct[i], get_custom_target_sources',
       'custom_target with two outputs: ct[1] (.c) is compiled into a library, ct[0] (.h) is a source of the executable using that library')
def ct_indexed(p: Project) -> None:
    L = head(p, ['c'])
    L.append("two = custom_target('two', input: ['two_api.h.in', 'two_impl.c.in'], output: ['two_api.h', 'two_impl.c'], "
             "command: [gen, '--copy', '@INPUT0@', '@OUTPUT0@', '--copy', '@INPUT1@', '@OUTPUT1@'])")
    L.append("impl = library('impl', two[1])")
    L.append("exe = executable('user', 'user.c', two[0], link_with: impl)")
    L.append("test('user', exe)")
    p.files['two_api.h.in'] = '#pragma once\nint two_value(void);\n#define TWO_EXPECT 42\n'
    p.files['two_impl.c.in'] = 'int two_value(void) { return 42; }\n'
    p.files['user.c'] = '#include "two_api.h"\nint main(void) { return two_value() - TWO_EXPECT; }\n'
    p.files['meson.build'] = '\n'.join(L) + '\n'
    p.expect = [('user', 'all'), ('user', 'meson-test-prereq')]


# ---------------------------------------------------------------------------
# linking

@entry('link-depends', ['gcc'], [{'layout': 'mirror'}], {'layout': LAYOUT, 'unity': UNITY},
       'generate_link: dep_targets from target.link_depends (get_dependency_filename of a custom target)',
       'shared_library(link_depends: custom_target) whose output is a linker version script really passed with -Wl,--version-script')
def link_depends(p: Project) -> None:
    L = head(p, ['c'])
    L.append(f"vs = custom_target('vscript', input: 'vs.map.in', output: 'vs.map', {COPY})")
    L.append("lib = shared_library('vs', 'vs.c', link_depends: vs, link_args: ['-Wl,--version-script,' + vs.full_path()])")
    L.append("exe = executable('vsuser', 'main.c', link_with: lib)")
    L.append("test('vsuser', exe)")
    p.files['vs.map.in'] = 'VS_1 { global: vs_value; local: *; };\n'
    p.files['vs.c'] = 'int vs_hidden(void) { return 1; }\nint vs_value(void) { return 41 + vs_hidden(); }\n'
    p.files['main.c'] = 'int vs_value(void);\nint main(void) { return vs_value() - 42; }\n'
    p.files['meson.build'] = '\n'.join(L) + '\n'
    p.expect = [('libvs.so', 'all'), ('vsuser', 'all'), ('vsuser', 'meson-test-prereq')]


@entry('link-args-staged-library', ['gcc'], [{'layout': 'mirror'}], {'layout': LAYOUT, 'default_library': DEFLIB},
       'guess_external_link_dependencies: an absolute library path in link_args that does not exist at configure time',
       'a custom_target stages a prebuilt-style archive into <builddir>/staging (its declared output is a stamp only); an executable links it by '
       'absolute path in link_args and waits for the stamp through link_depends:')
def link_args_staged_library(p: Project) -> None:
    L = head(p, ['c'])
    L.append("vlib = static_library('vendorsrc', 'vendor.c', build_by_default: false, install: true)   # installed => a real (not thin) archive")
    L.append("stage_dir = meson.current_build_dir() / 'staging' / 'lib'")
    L.append("stage = custom_target('stage', input: vlib, output: 'stage.stamp', "
             "command: [gen, '--copy', '@INPUT@', stage_dir / 'libvendor.a', '--copy', '@INPUT@', '@OUTPUT@'])")
    L.append("vdep = declare_dependency(link_args: [stage_dir / 'libvendor.a'])")
    L.append("exe = executable('staged', 'main.c', dependencies: vdep, link_depends: stage)")
    L.append("exe2 = executable('staged2', 'main.c', link_args: [stage_dir / 'libvendor.a'], link_depends: stage)")
    L.append("test('staged', exe)")
    p.files['vendor.c'] = 'int vendor_value(void) { return 42; }\n'
    p.files['main.c'] = 'int vendor_value(void);\nint main(void) { return vendor_value() - 42; }\n'
    p.files['meson.build'] = '\n'.join(L) + '\n'
    p.expect = [('staged', 'all'), ('staged2', 'all'), ('staged', 'meson-test-prereq')]


@entry('link-depends-file-and-exe', ['gcc'], [{'layout': 'mirror'}], {'layout': LAYOUT},
       'generate_link: link_depends with a CustomTargetIndex of a two-output custom target that is run by a built tool (get_dependency_filename)',
       'executable(link_depends: ct[0] of a two-output custom_target) with the script passed by -Wl,--version-script; the custom target is run by a built tool')
def link_depends_exe(p: Project) -> None:
    L = head(p, ['c'])
    L.append("tool = executable('mktool', 'mktool.c', build_by_default: false)")
    L.append("vs = custom_target('vscript', input: 'app.map.in', output: ['app.map', 'app.map.stamp'], "
             "command: [tool, '@INPUT@', '@OUTPUT0@', '@OUTPUT1@'])")
    L.append("exe = executable('dynapp', 'main.c', link_depends: vs[0], export_dynamic: true, "
             "link_args: ['-Wl,--version-script,' + vs[0].full_path()])")
    L.append("test('dynapp', exe)")
    p.files['app.map.in'] = '{ global: app_api; local: *; };\n'
    p.files['mktool.c'] = ('#include <stdio.h>\nint main(int argc, char **argv) {\n  FILE *i = fopen(argv[1], "rb"), *o = fopen(argv[2], "wb"), *s = fopen(argv[3], "wb");\n'
                           '  int c; if (!i || !o || !s) return 1;\n  while ((c = fgetc(i)) != EOF) fputc(c, o);\n  fputs("done\\n", s); fclose(o); fclose(s); return 0; }\n')
    p.files['main.c'] = 'int app_api(void) { return 0; }\nint main(void) { return app_api(); }\n'
    p.files['meson.build'] = '\n'.join(L) + '\n'
    p.expect = [('dynapp', 'all'), ('dynapp', 'meson-test-prereq')]


@entry('objects-ct', ['gcc'], [{'layout': 'mirror'}], {'layout': LAYOUT, 'unity': UNITY},
       'generate_target: compilers.is_object(rel_src) branch for generated sources; flatten_object_list / objects: with a custom target output',
       'object file produced by a custom_target, once passed through objects: and once listed among the sources')
def objects_ct(p: Project) -> None:
    L = head(p, ['c'])
    L.append("cc = meson.get_compiler('c')")
    L.append("o1 = custom_target('o1', input: 'o1src.c', output: 'o1src.o', command: [cc.cmd_array(), '-c', '@INPUT@', '-o', '@OUTPUT@'])")
    L.append("o2 = custom_target('o2', input: 'o2src.c', output: 'o2src.o', command: [cc.cmd_array(), '-c', '@INPUT@', '-o', '@OUTPUT@'])")
    L.append("e1 = executable('objkw', 'main1.c', objects: o1)")
    L.append("e2 = executable('objsrc', 'main2.c', o2)")
    L.append("l3 = static_library('objlib', 'lib3.c', objects: o1)")
    L.append("e3 = executable('objlibuser', 'main1.c', link_with: l3)")
    L.append("test('objkw', e1)")
    L.append("test('objsrc', e2)")
    L.append("test('objlibuser', e3)")
    p.files['o1src.c'] = 'int o1_value(void) { return 42; }\n'
    p.files['o2src.c'] = 'int o2_value(void) { return 42; }\n'
    p.files['lib3.c'] = 'int lib3_value(void) { return 0; }\n'
    p.files['main1.c'] = 'int o1_value(void);\nint main(void) { return o1_value() - 42; }\n'
    p.files['main2.c'] = 'int o2_value(void);\nint main(void) { return o2_value() - 42; }\n'
    p.files['meson.build'] = '\n'.join(L) + '\n'
    p.expect = [('objkw', 'all'), ('objsrc', 'all'), ('objlibuser', 'all'), ('libobjlib.a', 'all')]


@entry('extract-objects', ['gcc'], [{'layout': 'mirror', 'unity': 'off'}, {'layout': 'mirror', 'unity': 'on'}], {'layout': LAYOUT, 'unity': UNITY},
       'flatten_object_list / determine_ext_objs (extract_objects, extract_all_objects, recursive: true), objects of generated sources',
       'objects extracted from a static library (hand-written + generated source + objects of an inner library) linked into executables')
def extract_objects(p: Project) -> None:
    unity = p.opts.get('unity', 'off') != 'off'
    L = head(p, ['c'])
    L.append(f"gsrc = custom_target('exgen', input: 'ex_gen.c.in', output: 'ex_gen.c', {COPY})")
    L.append(f"ghdr = custom_target('exhdr', input: 'ex_gen.h.in', output: 'ex_gen.h', {COPY})")
    L.append("inner = static_library('inner', 'in1.c', ghdr, build_by_default: false)")
    L.append("exa = static_library('exa', 'a1.c', 'a2.c', gsrc, ghdr, objects: inner.extract_all_objects(recursive: false), build_by_default: false)")
    L.append("e2 = executable('ex_all', 'm2.c', objects: exa.extract_all_objects(recursive: true))")
    L.append("test('ex_all', e2)")
    p.expect = [('ex_all', 'all'), ('ex_all', 'meson-test-prereq')]
    if not unity:
        # single objects cannot be extracted in unity builds (documented)
        L.append("e1 = executable('ex_one', 'm1.c', objects: exa.extract_objects('a1.c'))")
        L.append("e3 = executable('ex_gen', 'm3.c', objects: exa.extract_objects(gsrc))")
        L.append("test('ex_one', e1)")
        L.append("test('ex_gen', e3)")
        p.expect += [('ex_one', 'all'), ('ex_gen', 'all')]
    p.files['ex_gen.h.in'] = '#pragma once\n#define EX_BASE 10\n'
    p.files['ex_gen.c.in'] = '#include "ex_gen.h"\nint ex_gen_value(void) { return EX_BASE; }\n'
    p.files['in1.c'] = '#include "ex_gen.h"\nint in1_value(void) { return EX_BASE + 1; }\n'
    p.files['a1.c'] = '#include "ex_gen.h"\nint a1_value(void) { return EX_BASE + 2; }\n'
    p.files['a2.c'] = '#include "ex_gen.h"\nint a2_value(void) { return EX_BASE + 3; }\n'
    p.files['m1.c'] = 'int a1_value(void);\nint main(void) { return a1_value() - 12; }\n'
    p.files['m2.c'] = ('int a1_value(void); int a2_value(void); int ex_gen_value(void); int in1_value(void);\n'
                       'int main(void) { return a1_value() + a2_value() + ex_gen_value() + in1_value() - 46; }\n')
    p.files['m3.c'] = 'int ex_gen_value(void);\nint main(void) { return ex_gen_value() - 10; }\n'
    p.files['meson.build'] = '\n'.join(L) + '\n'


@entry('link-whole-ct', ['gcc', 'ar'], [{'layout': 'mirror'}], {'layout': LAYOUT},
       'get_custom_target_provided_libraries, get_link_whole_args / build_target_link_arguments with a CustomTarget, generate_link all_deps',
       'static archive produced by a custom_target, used through link_whole:, through link_with: and as a plain source of three executables')
def link_whole_ct(p: Project) -> None:
    L = head(p, ['c'])
    p.files['mkar.py'] = MKAR_PY
    p.executable.append('mkar.py')
    L.append("mkar = find_program('mkar.py')")
    L.append("cc = meson.get_compiler('c')")
    L.append("arc = custom_target('mkar', input: 'lw.c', output: 'liblw.a', command: [mkar, '@OUTPUT@', '@INPUT@', '--', cc.cmd_array()])")
    L.append("e1 = executable('lw_whole', 'main.c', link_whole: arc)")
    L.append("e2 = executable('lw_with', 'main.c', link_with: arc)")
    L.append("s3 = shared_library('lw_shared', 'sh.c', link_whole: arc)")
    L.append("e4 = executable('lw_source', 'main.c', arc)")      # a library among the sources is passed to the linker
    L.append("test('lw_whole', e1)")
    L.append("test('lw_with', e2)")
    p.files['lw.c'] = 'int lw_value(void) { return 42; }\n'
    p.files['sh.c'] = 'int lw_value(void);\nint sh_value(void) { return lw_value(); }\n'
    p.files['main.c'] = 'int lw_value(void);\nint main(void) { return lw_value() - 42; }\n'
    p.files['meson.build'] = '\n'.join(L) + '\n'
    p.expect = [('lw_whole', 'all'), ('lw_with', 'all'), ('lw_source', 'all'), ('liblw_shared.so', 'all'), ('lw_whole', 'meson-test-prereq')]


@entry('both-libraries', ['gcc'], [{'layout': 'mirror', 'unity': 'off'}], {'layout': LAYOUT, 'unity': UNITY, 'default_library': DEFLIB},
       'both_libraries: shared library reusing the objects of the static one (flatten_object_list), get_static_lib()/get_shared_lib() as link targets',
       'both_libraries() with a generated header, linked through .get_static_lib() and .get_shared_lib() into two executables')
def both_libraries(p: Project) -> None:
    L = head(p, ['c'])
    L.append(f"hdr = custom_target('blhdr', input: 'bl_gen.h.in', output: 'bl_gen.h', {COPY})")
    L.append("bl = both_libraries('bl', 'bl.c', hdr)")
    L.append("es = executable('bl_static', 'main.c', link_with: bl.get_static_lib())")
    L.append("ed = executable('bl_shared', 'main.c', link_with: bl.get_shared_lib())")
    L.append("test('bl_static', es)")
    L.append("test('bl_shared', ed)")
    p.files['bl_gen.h.in'] = '#pragma once\n#define BL_VALUE 42\n'
    p.files['bl.c'] = '#include "bl_gen.h"\nint bl_value(void) { return BL_VALUE; }\n'
    p.files['main.c'] = 'int bl_value(void);\nint main(void) { return bl_value() - 42; }\n'
    p.files['meson.build'] = '\n'.join(L) + '\n'
    p.expect = [('libbl.a', 'all'), ('libbl.so', 'all'), ('bl_static', 'all'), ('bl_shared', 'all'),
                ('bl_static', 'meson-test-prereq'), ('bl_shared', 'meson-test-prereq')]


# ---------------------------------------------------------------------------
# generators and custom target plumbing

@entry('generator-depends', ['gcc'], [{'layout': 'mirror'}], {'layout': LAYOUT, 'unity': UNITY},
       'generate_genlist_for_target: generator.depends -> get_paths_for_dep_outputs',
       'generator(..., depends: [custom target]) whose program really reads that target\'s output')
def generator_depends(p: Project) -> None:
    L = head(p, ['c'])
    L.append(f"table = custom_target('table', input: 'table.txt.in', output: 'table.txt', {COPY})")
    L.append("g = generator(gen, output: '@BASENAME@.c', arguments: ['--read', table.full_path(), '--copy', '@INPUT@', '@OUTPUT@'], depends: [table])")
    L.append("exe = executable('gd', 'main.c', g.process('gd_part.tpl'))")
    L.append("test('gd', exe)")
    p.files['table.txt.in'] = 'table\n'
    p.files['gd_part.tpl'] = 'int gd_value(void) { return 42; }\n'
    p.files['main.c'] = 'int gd_value(void);\nint main(void) { return gd_value() - 42; }\n'
    p.files['meson.build'] = '\n'.join(L) + '\n'
    p.expect = [('gd', 'all'), ('gd', 'meson-test-prereq')]


@entry('generator-depends-per-call', ['gcc'], [{'layout': 'mirror'}], {'layout': LAYOUT, 'unity': UNITY},
       'generate_genlist_for_target: generator.depends AND process(depends:) (GeneratedList.extra_depends) together',
       'generator(depends: [table]) used once plainly and once with process(..., depends: [schema]): the program reads table in both calls and schema in the second')
def generator_depends_per_call(p: Project) -> None:
    L = head(p, ['c'])
    L.append(f"table = custom_target('table', input: 'table.txt.in', output: 'table.txt', {COPY})")
    L.append(f"schema = custom_target('schema', input: 'schema.txt.in', output: 'schema.txt', {COPY})")
    L.append("g = generator(gen, output: '@BASENAME@.c', arguments: ['--read', table.full_path(), '@EXTRA_ARGS@', '--copy', '@INPUT@', '@OUTPUT@'], depends: [table])")
    L.append("plain = g.process('gp_a.tpl')")
    L.append("percall = g.process('gp_b.tpl', depends: [schema], extra_args: ['--read', schema.full_path()])")
    L.append("exe = executable('gpc', 'main.c', plain, percall)")
    L.append("test('gpc', exe)")
    p.files['table.txt.in'] = 'table\n'
    p.files['schema.txt.in'] = 'schema\n'
    p.files['gp_a.tpl'] = 'int gp_a(void) { return 40; }\n'
    p.files['gp_b.tpl'] = 'int gp_b(void) { return 2; }\n'
    p.files['main.c'] = 'int gp_a(void);\nint gp_b(void);\nint main(void) { return gp_a() + gp_b() - 42; }\n'
    p.files['meson.build'] = '\n'.join(L) + '\n'
    p.expect = [('gpc', 'all'), ('gpc', 'meson-test-prereq')]


@entry('genlist-shared-with-custom-target', ['gcc'], [{'layout': 'mirror'}], {'layout': LAYOUT, 'unity': UNITY},
       'generate_genlist_for_target via custom_target_generator_inputs: one process() result feeding a build target and custom targets',
       'the same generator.process() result compiled into an executable and taken as input: by two custom targets declared after it')
def genlist_shared_with_custom_target(p: Project) -> None:
    L = head(p, ['c'])
    L.append("g = generator(gen, output: '@BASENAME@.c', arguments: ['--copy', '@INPUT@', '@OUTPUT@'])")
    L.append("tables = g.process('gl_tables.tpl')")
    L.append("exe = executable('gl', 'main.c', tables)")
    L.append("pack = custom_target('srcpack', input: tables, output: 'srcpack.txt', command: [gen, '--copy', '@INPUT@', '@OUTPUT@'], build_by_default: true)")
    L.append("pack2 = custom_target('srcpack2', input: tables, output: 'srcpack2.txt', command: [gen, '--copy', '@INPUT@', '@OUTPUT@'], build_by_default: true)")
    L.append("test('gl', exe)")
    p.files['gl_tables.tpl'] = 'int gl_value(void) { return 42; }\n'
    p.files['main.c'] = 'int gl_value(void);\nint main(void) { return gl_value() - 42; }\n'
    p.files['meson.build'] = '\n'.join(L) + '\n'
    p.expect = [('gl', 'all'), ('srcpack.txt', 'all'), ('srcpack2.txt', 'all'), ('gl', 'meson-test-prereq')]


@entry('generator-built-exe', ['gcc'], [{'layout': 'mirror'}], {'layout': LAYOUT, 'unity': UNITY},
       'generate_genlist_for_target / as_meson_exe_cmdline with a built executable as generator program (dependency on the tool)',
       'generator whose program is an executable built by the project; produces a header and a source')
def generator_built_exe(p: Project) -> None:
    L = head(p, ['c'])
    L.append("tool = executable('gtool', 'gtool.c', build_by_default: false)")
    L.append("g = generator(tool, output: ['@BASENAME@.h', '@BASENAME@.c'], arguments: ['@INPUT@', '@OUTPUT0@', '@OUTPUT1@'])")
    L.append("exe = executable('gb', 'main.c', g.process('gb_val.tpl'))")
    L.append("test('gb', exe)")
    p.files['gtool.c'] = ('#include <stdio.h>\nint main(int argc, char **argv) {\n  FILE *i = fopen(argv[1], "rb"), *h = fopen(argv[2], "wb"), *c = fopen(argv[3], "wb");\n'
                          '  int ch; if (!i || !h || !c) return 1;\n  while ((ch = fgetc(i)) != EOF) fputc(ch, h);\n'
                          '  fputs("int gb_value(void) { return 42; }\\n", c); fclose(h); fclose(c); return 0; }\n')
    p.files['gb_val.tpl'] = '#pragma once\n#define GB_EXPECT 42\nint gb_value(void);\n'
    p.files['main.c'] = '#include "gb_val.h"\nint main(void) { return gb_value() - GB_EXPECT; }\n'
    p.files['meson.build'] = '\n'.join(L) + '\n'
    p.expect = [('gb', 'all'), ('gb', 'meson-test-prereq')]


@entry('unity-generated-spill', ['gcc', 'g++'], [{'unity': 'on', 'layout': 'mirror'}], {'layout': ['mirror'], 'unity': ['on'], 'default_library': DEFLIB},
       'generate_target: unity_deps as order-only inputs of EVERY unity compile step (generate_unity_files / generate_single_compile)',
       'unity build (unity_size=2) whose generated sources spill into the second unity file, and a C/C++ mix whose second unity file is the C++ one')
def unity_generated_spill(p: Project) -> None:
    p.extra_setup = ['-Dunity_size=2']
    L = head(p, ['c', 'cpp'])
    for i in (1, 2, 3):
        L.append(f"g{i} = custom_target('ug{i}', input: 'ug{i}.c.in', output: 'ug{i}.c', {COPY})")
        p.files[f'ug{i}.c.in'] = f'int ug{i}(void) {{ return {i}; }}\n'
    L.append("spill = executable('spill', 'spill_main.c', g1, g2, g3)")
    L.append("gx = custom_target('ugx', input: 'ugx.cpp.in', output: 'ugx.cpp', " + COPY + ")")
    L.append("gc = custom_target('ugc', input: 'ugc.c.in', output: 'ugc.c', " + COPY + ")")
    L.append("mixed = executable('mixed', 'mixed_main.cpp', gc, gx)")
    L.append("test('spill', spill)")
    L.append("test('mixed', mixed)")
    p.files['spill_main.c'] = 'int ug1(void); int ug2(void); int ug3(void);\nint main(void) { return ug1() + ug2() + ug3() - 6; }\n'
    p.files['ugx.cpp.in'] = 'extern "C" int ugx(void) { return 5; }\n'
    p.files['ugc.c.in'] = 'int ugc(void) { return 4; }\n'
    p.files['mixed_main.cpp'] = 'extern "C" int ugx(void); extern "C" int ugc(void);\nint main() { return ugx() + ugc() - 9; }\n'
    p.files['meson.build'] = '\n'.join(L) + '\n'
    p.expect = [('spill', 'all'), ('mixed', 'all'), ('spill', 'meson-test-prereq')]


@entry('preprocess-depends-non-header', ['gcc'], [{'layout': 'mirror'}], {'layout': ['mirror'], 'buildtype': ['debug', 'release']},
       'CompileTarget.get_generated_headers (depends: of compiler.preprocess) -> order-only inputs of the c_PREPROCESSOR statements',
       'cc.preprocess(..., depends: X) where X writes a file without a header suffix (.inc) that the preprocessed source includes')
def preprocess_depends_non_header(p: Project) -> None:
    L = head(p, ['c'])
    L.append("cc = meson.get_compiler('c')")
    L.append(f"vals = custom_target('vals', input: 'values.inc.in', output: 'values.inc', {COPY})")
    L.append(f"hdr = custom_target('hdr', input: 'names.h.in', output: 'names.h', {COPY})")
    L.append("pp = cc.preprocess('table.c', 'names.c', output: '@PLAINNAME@.i', depends: [vals, hdr], include_directories: include_directories('.'))")
    L.append("final = custom_target('final', input: pp, output: 'final.txt', command: [gen, '--read', '@INPUT0@', '--read', '@INPUT1@', '--copy', '@INPUT0@', '@OUTPUT@'], build_by_default: true)")
    p.files['values.inc.in'] = '#define TABLE_VALUES 1, 2, 3\n'
    p.files['names.h.in'] = '#define TABLE_NAME tbl\n'
    p.files['table.c'] = '#include "values.inc"\nint table[] = { TABLE_VALUES };\n'
    p.files['names.c'] = '#include "names.h"\nint TABLE_NAME;\n'
    p.files['meson.build'] = '\n'.join(L) + '\n'
    p.expect = [('final.txt', 'all')]


@entry('same-name-different-dirs', ['gcc'], [{'layout': 'mirror'}], {'layout': ['mirror'], 'default_library': DEFLIB},
       'generate_ending: `all` / meson-test-prereq list targets by path (two targets in different directories may share a file name)',
       'two default-built executables and two test-only executables whose output FILE NAMES coincide, in different directories')
def same_name_different_dirs(p: Project) -> None:
    L = head(p, ['c'])
    L += ["subdir('tools/a')", "subdir('tools/b')", "subdir('tests/x')", "subdir('tests/y')"]
    for d in ('a', 'b'):
        p.files[f'tools/{d}/meson.build'] = "executable('tool', 'main.c')\n"
        p.files[f'tools/{d}/main.c'] = 'int main(void) { return 0; }\n'
    for d in ('x', 'y'):
        p.files[f'tests/{d}/meson.build'] = f"check = executable('check', 'check.c', build_by_default: false)\ntest('{d}', check)\n"
        p.files[f'tests/{d}/check.c'] = 'int main(void) { return 0; }\n'
    p.files['meson.build'] = '\n'.join(L) + '\n'
    p.expect = [('tool', 'all'), ('check', 'meson-test-prereq')]


# (mirror layout only: under layout=flat the consumer names meson-out/meson-out/..., one more member of the recorded
#  flat-layout family - see known_findings.json, corpus '259 preprocess' --layout=flat)
@entry('fortran-preprocess', ['gfortran'], [{'layout': 'mirror'}], {'layout': ['mirror'], 'buildtype': ['debug', 'release']},
       'add_dependency_scanner_entries_to_element / generate_target for a CompileTarget of a language that uses dyndep scanning',
       'fc.preprocess() of a Fortran source that defines a module, compiled into an executable that uses the module')
def fortran_preprocess(p: Project) -> None:
    L = ["project('feat " + p.name + "', 'fortran', default_options: ['warning_level=0'])", "gen = find_program('gen.py')"]
    L.append("fc = meson.get_compiler('fortran')")
    L.append("pp = fc.preprocess('ppmod.F90', output: '@BASENAME@.f90')")
    L.append("exe = executable('fpp', pp, 'fmain.f90')")
    L.append("test('fpp', exe)")
    p.files['ppmod.F90'] = '#define ANSWER 42\nmodule ppmod\ncontains\ninteger function answer()\nanswer = ANSWER\nend function\nend module\n'
    p.files['fmain.f90'] = 'program m\nuse ppmod\nif (answer() /= 42) stop 1\nend program\n'
    p.files['meson.build'] = '\n'.join(L) + '\n'
    p.expect = [('fpp', 'all'), ('fpp', 'meson-test-prereq')]


@entry('ct-depfile-string-depends', ['gcc'], [{'layout': 'mirror'}], {'layout': LAYOUT},
       'generate_custom_target: depfile (CUSTOM_COMMAND_DEP), target.extra_depends -> get_paths_for_dep_outputs',
       'custom_target with depfile: whose depfile names a generated file; that file reaches the command only as a string path + depends:')
def ct_depfile_string_depends(p: Project) -> None:
    L = head(p, ['c'])
    L.append("subdir('inc')")
    L.append("wd = custom_target('withdep', input: 'top.h.in', output: 'withdep.h', depfile: 'withdep.d', depends: [incl], "
             "command: [gen, '--depfile', '@DEPFILE@', '--read', incl.full_path(), '--copy', '@INPUT@', '@OUTPUT@'])")
    L.append("exe = executable('wdapp', 'main.c', wd)")
    L.append("test('wdapp', exe)")
    p.files['inc/meson.build'] = f"incl = custom_target('incl', input: 'incl.txt.in', output: 'incl.txt', {COPY})\n"
    p.files['inc/incl.txt.in'] = 'included\n'
    p.files['top.h.in'] = '#pragma once\n#define WD_VALUE 42\n'
    p.files['main.c'] = '#include "withdep.h"\nint main(void) { return WD_VALUE - 42; }\n'
    p.files['meson.build'] = '\n'.join(L) + '\n'
    p.expect = [('wdapp', 'all'), ('wdapp', 'meson-test-prereq')]


@entry('ct-chain-generator-input', ['gcc'], [{'unity': 'off'}], {'unity': UNITY, 'default_library': DEFLIB},
       'custom_target_generator_inputs (GeneratedList as custom_target input), generate_genlist_for_target for a CustomTarget, generator processing a custom target output',
       'generator output used as input of a custom_target, and a custom_target output processed by a generator, both compiled into an executable')
def ct_chain_generator_input(p: Project) -> None:
    L = head(p, ['c'])
    L.append("g = generator(gen, output: '@BASENAME@.c', arguments: ['--copy', '@INPUT@', '@OUTPUT@'])")
    L.append("step1 = g.process('s1.tpl')")
    L.append("s2 = custom_target('s2', input: step1, output: 's2.c', command: [gen, '--copy', '@INPUT@', '@OUTPUT@'])")
    L.append(f"t1 = custom_target('t1', input: 't1.tpl.in', output: 't1.tpl', {COPY})")
    L.append("exe = executable('chain', 'main.c', s2, g.process(t1))")
    L.append("test('chain', exe)")
    p.files['s1.tpl'] = 'int s_value(void) { return 40; }\n'
    p.files['t1.tpl.in'] = 'int t_value(void) { return 2; }\n'
    p.files['main.c'] = 'int s_value(void); int t_value(void);\nint main(void) { return s_value() + t_value() - 42; }\n'
    p.files['meson.build'] = '\n'.join(L) + '\n'
    p.expect = [('chain', 'all'), ('chain', 'meson-test-prereq')]


# ---------------------------------------------------------------------------
# configure-time generation, run / alias targets, tests

@entry('vcs-cfg-run-test', ['gcc'], [{'layout': 'mirror'}], {'layout': LAYOUT, 'unity': UNITY},
       'vcs_tag custom target (build_always_stale -> PHONY dep), configure_file(command:) outputs as sources, generate_run_target (command + alias), generate_tests (depends:, args:)',
       'vcs_tag() and configure_file(command:) outputs used as sources; run_target / alias_target on them; test()/benchmark() with depends: and args: on custom targets not built by default')
def vcs_cfg_run_test(p: Project) -> None:
    L = head(p, ['c'])
    L.append("ver = vcs_tag(input: 'version.h.in', output: 'version.h', fallback: 'fallback-1.0')")
    L.append("cfgh = configure_file(input: 'cfgcmd.h.in', output: 'cfgcmd.h', command: [gen, '--copy', '@INPUT@', '@OUTPUT@'])")
    L.append("cfgc = configure_file(input: 'cfgsrc.c.in', output: 'cfgsrc.c', command: [gen, '--copy', '@INPUT@', '@OUTPUT@'])")
    L.append("exe = executable('vapp', 'main.c', ver, cfgh, cfgc)")
    for n in ('targ', 'tdep', 'bdep', 'rdep', 'adep'):
        L.append(f"{n} = custom_target('{n}', input: 'data.txt.in', output: '{n}.txt', {COPY}, build_by_default: false)")
    L.append("run_target('show', command: [exe, rdep], depends: [tdep])")
    L.append("alias_target('everything', exe, adep)")
    L.append("test('vt', exe, args: [targ], depends: [tdep])")
    L.append("benchmark('vb', exe, depends: [bdep])")
    p.files['version.h.in'] = '#pragma once\n#define APP_VERSION "@VCS_TAG@"\n'
    p.files['cfgcmd.h.in'] = '#pragma once\n#define CFG_VALUE 40\n'
    p.files['cfgsrc.c.in'] = 'int cfg_value(void) { return 2; }\n'
    p.files['data.txt.in'] = 'data\n'
    p.files['main.c'] = ('#include <stdio.h>\n#include "version.h"\n#include "cfgcmd.h"\nint cfg_value(void);\n'
                         'int main(int argc, char **argv) {\n  if (argc > 1) { FILE *f = fopen(argv[1], "rb"); if (!f) return 2; fclose(f); }\n'
                         '  return CFG_VALUE + cfg_value() - 42 + (sizeof(APP_VERSION) > 1 ? 0 : 1); }\n')
    p.files['meson.build'] = '\n'.join(L) + '\n'
    p.run_targets = ['show']
    p.expect = [('vapp', 'all'), ('vapp', 'meson-test-prereq'), ('targ.txt', 'meson-test-prereq'), ('tdep.txt', 'meson-test-prereq'),
                ('vapp', 'meson-benchmark-prereq'), ('bdep.txt', 'meson-benchmark-prereq')]


@entry('subproject-gen-header', ['gcc'], [{'layout': 'mirror'}], {'layout': LAYOUT, 'unity': ['off', 'on', 'subprojects'], 'default_library': DEFLIB},
       'generated header of another (sub)project arriving through declare_dependency(sources:): generated_sources loop, header order deps across subprojects',
       'subproject exporting a custom_target header (and a library compiled with it) through declare_dependency(sources:), consumed by the parent')
def subproject_gen_header(p: Project) -> None:
    L = head(p, ['c'])
    L.append("sp = subproject('sp')")
    L.append("exe = executable('spuser', 'main.c', dependencies: sp.get_variable('sp_dep'))")
    L.append("test('spuser', exe)")
    S = ["project('sp', 'c', default_options: ['warning_level=0'])",
         "gen = find_program('../../gen.py')",
         f"hdr = custom_target('sphdr', input: 'sp_gen.h.in', output: 'sp_gen.h', {COPY})",
         "lib = library('spl', 'spl.c', hdr)",
         "sp_dep = declare_dependency(sources: hdr, link_with: lib, include_directories: include_directories('.'))"]
    p.files['subprojects/sp/meson.build'] = '\n'.join(S) + '\n'
    p.files['subprojects/sp/sp_gen.h.in'] = '#pragma once\n#define SP_VALUE 42\nint spl_value(void);\n'
    p.files['subprojects/sp/spl.c'] = '#include "sp_gen.h"\nint spl_value(void) { return SP_VALUE; }\n'
    p.files['main.c'] = '#include "sp_gen.h"\nint main(void) { return spl_value() - SP_VALUE; }\n'
    p.files['meson.build'] = '\n'.join(L) + '\n'
    p.expect = [('spuser', 'all'), ('spuser', 'meson-test-prereq')]


@entry('sibling-subdir-header', ['gcc'], [{'layout': 'mirror', 'unity': 'off'}, {'layout': 'flat', 'unity': 'off'}], {'layout': LAYOUT, 'unity': UNITY},
       'generated header from a sibling directory: order deps with directory parts (has_dir_part / add_header_deps), include_directories of a build dir',
       'executable in one sub directory using a custom_target header and a generated source from a sibling sub directory')
def sibling_subdir_header(p: Project) -> None:
    L = head(p, ['c'])
    L.append("subdir('gen')")
    L.append("subdir('app')")
    p.files['gen/meson.build'] = (f"sib_hdr = custom_target('sibhdr', input: 'sib.h.in', output: 'sib.h', {COPY})\n"
                                  f"sib_src = custom_target('sibsrc', input: 'sib.c.in', output: 'sib.c', {COPY})\n"
                                  "sib_inc = include_directories('.')\n")
    p.files['gen/sib.h.in'] = '#pragma once\n#define SIB_VALUE 42\nint sib_value(void);\n'
    p.files['gen/sib.c.in'] = '#include "sib.h"\nint sib_value(void) { return SIB_VALUE; }\n'
    p.files['app/meson.build'] = ("exe = executable('sibapp', 'main.c', sib_hdr, sib_src, include_directories: sib_inc)\n"
                                  "test('sibapp', exe)\n")
    p.files['app/main.c'] = '#include "sib.h"\nint main(void) { return sib_value() - SIB_VALUE; }\n'
    p.files['meson.build'] = '\n'.join(L) + '\n'
    p.expect = [('sibapp', 'all'), ('sibapp', 'meson-test-prereq')]


@entry('partial-dep-nested-sources', ['gcc'], [{'layout': 'mirror', 'unity': 'off'}], {'layout': ['mirror'], 'unity': UNITY},
       'InternalDependency.get_partial_dependency over nested declare_dependency objects (sources of inner dependencies), as_link_whole / link_whole through declare_dependency',
       'generated header reaching a target only through outer.partial_dependency(sources: true) of a nested declare_dependency; link_whole given through a declare_dependency')
def partial_dep_nested_sources(p: Project) -> None:
    L = head(p, ['c'])
    L.append(f"pgen = custom_target('pgen', input: 'pgen.h.in', output: 'pgen.h', {COPY})")
    L.append("inner = declare_dependency(sources: pgen)")
    L.append("outer = declare_dependency(dependencies: inner, compile_args: ['-DOUTER=1'])")
    L.append("part = outer.partial_dependency(sources: true, compile_args: true, includes: true)")
    L.append("keeper = executable('pkeeper', 'pmain.c', dependencies: outer)")        # keeps pgen.h in `all` through the full dependency
    L.append("papp = executable('papp', 'pmain.c', dependencies: part)")
    L.append("plug = static_library('pplug', 'pplug.c')")
    L.append("plug_dep = declare_dependency(link_whole: plug)")
    L.append("phost = shared_library('phost', 'phost.c', dependencies: plug_dep)")
    L.append("pexe = executable('pwhole', 'pwhole.c', link_whole: plug)")
    L.append("test('papp', papp)")
    p.files['pgen.h.in'] = '#pragma once\n#define PGEN_VALUE 5\n'
    p.files['pmain.c'] = '#include "pgen.h"\n#ifndef OUTER\n#error OUTER not defined\n#endif\nint main(void) { return PGEN_VALUE - 5; }\n'
    p.files['pplug.c'] = 'int pplug(void) { return 0; }\n'
    p.files['phost.c'] = 'int pplug(void);\nint phost(void) { return pplug(); }\n'
    p.files['pwhole.c'] = 'int pplug(void);\nint main(void) { return pplug(); }\n'
    p.files['meson.build'] = '\n'.join(L) + '\n'
    p.expect = [('papp', 'all'), ('pkeeper', 'all'), ('libphost.so', 'all'), ('pwhole', 'all'), ('papp', 'meson-test-prereq')]


# ---------------------------------------------------------------------------
# Minimal projects for defects of the unchanged tree that the entries above ran into.  Each is its own entry (own
# signature ...@feature/<name>) so that it can be listed as a known finding without hiding anything else; the entries
# above avoid these combinations.

@entry('flat-rust-generated', ['rustc'], [{'layout': 'flat'}], {},
       'generate_rust_sources: os.path.join(g.get_builddir(), i) for custom target outputs (layout=flat puts them into meson-out/)',
       'layout=flat: Rust executable whose crate root is a custom_target output')
def flat_rust_generated(p: Project) -> None:
    L = head(p, ['rust'])
    L.append(f"mainrs = custom_target('mainrs', input: 'main.rs.in', output: 'main.rs', {COPY})")
    L.append("exe = executable('frapp', mainrs)")
    p.files['main.rs.in'] = 'fn main() { }\n'
    p.files['meson.build'] = '\n'.join(L) + '\n'
    p.expect = [('frapp', 'all')]


@entry('flat-rust-structured', ['rustc'], [{'layout': 'flat'}], {},
       '__generate_sources_structure: Path(file.subdir) / f as the source of the COPY_FILE statement (layout=flat)',
       'layout=flat: Rust executable from structured_sources() with a custom_target entry')
def flat_rust_structured(p: Project) -> None:
    L = head(p, ['rust'])
    L.append(f"top = custom_target('top', input: 'gen_top.rs.in', output: 'top.rs', {COPY})")
    L.append("exe = executable('fsapp', structured_sources(['src/main.rs', top]))")
    p.files['src/main.rs'] = 'mod top;\nfn main() { std::process::exit(top::value() - 40); }\n'
    p.files['gen_top.rs.in'] = 'pub fn value() -> i32 { 40 }\n'
    p.files['meson.build'] = '\n'.join(L) + '\n'
    p.expect = [('fsapp', 'all')]


@entry('flat-java-link-with', ['javac', 'jar'], [{'layout': 'flat'}], {},
       'Jar.get_classpath_args (build.py) used by determine_java_compile_args: <builddir>/<subdir>/<jar> instead of meson-out/<jar>',
       'layout=flat: jar() link_with another jar')
def flat_java_link_with(p: Project) -> None:
    L = head(p, ['java'])
    L.append("subdir('b')")
    L.append("app = jar('app', 'App.java', link_with: base, main_class: 'App')")
    p.files['b/meson.build'] = "base = jar('base', 'Base.java')\n"
    p.files['b/Base.java'] = 'public class Base { public static int value() { return 42; } }\n'
    p.files['App.java'] = 'public class App { public static void main(String[] a) { System.exit(Base.value() - 42); } }\n'
    p.files['meson.build'] = '\n'.join(L) + '\n'
    p.expect = [('base.jar', 'all'), ('app.jar', 'all')]


@entry('flat-java-generated-subdir', ['javac', 'jar'], [{'layout': 'flat'}], {},
       'generate_java_compile: class file path of a generated source computed relative to target.get_subdir() (layout=flat)',
       'layout=flat: jar() in a sub directory with a custom_target .java source')
def flat_java_generated_subdir(p: Project) -> None:
    L = head(p, ['java'])
    L.append("subdir('j')")
    p.files['j/meson.build'] = (f"gsrc = custom_target('cfgsrc', input: 'Config.java.in', output: 'Config.java', {COPY})\n"
                                "jj = jar('jj', 'Main.java', gsrc, main_class: 'Main')\n")
    p.files['j/Config.java.in'] = 'public class Config { public static final int VALUE = 42; }\n'
    p.files['j/Main.java'] = 'public class Main { public static void main(String[] a) { System.exit(Config.VALUE - 42); } }\n'
    p.files['meson.build'] = '\n'.join(L) + '\n'
    p.expect = [('jj.jar', 'all')]


@entry('flat-generator-ct-input', ['gcc'], [{'layout': 'flat'}], {},
       'generate_genlist_for_target: curfile.rel_to_builddir() for an input that is a custom target output (layout=flat)',
       'layout=flat: generator().process() of a custom_target output')
def flat_generator_ct_input(p: Project) -> None:
    L = head(p, ['c'])
    L.append("g = generator(gen, output: '@BASENAME@.c', arguments: ['--copy', '@INPUT@', '@OUTPUT@'])")
    L.append(f"t1 = custom_target('t1', input: 't1.tpl.in', output: 't1.tpl', {COPY})")
    L.append("exe = executable('fgapp', 'main.c', g.process(t1))")
    p.files['t1.tpl.in'] = 'int t_value(void) { return 42; }\n'
    p.files['main.c'] = 'int t_value(void);\nint main(void) { return t_value() - 42; }\n'
    p.files['meson.build'] = '\n'.join(L) + '\n'
    p.expect = [('fgapp', 'all')]


@entry('fortran-legacy-underscore-module', ['gfortran'], [{'ninja': 'legacy'}], {},
       'scan_fortran_module_outputs + FortranCompiler.module_name_to_filename: "_" in a module name is taken for a submodule separator',
       'ninja < 1.10 code path: a Fortran module whose name contains an underscore, used by another file of the same target')
def fortran_legacy_underscore_module(p: Project) -> None:
    p.ninja_version = '1.9.0'
    L = head(p, ['fortran'])
    L.append("exe = executable('fuexe', 'main.f90', 'mod_a.f90')")
    p.files['main.f90'] = 'program main\n  use mod_a\n  implicit none\n  if (a_value() /= 1) stop 1\nend program main\n'
    p.files['mod_a.f90'] = 'module mod_a\n  implicit none\ncontains\n  integer function a_value()\n    a_value = 1\n  end function\nend module mod_a\n'
    p.files['meson.build'] = '\n'.join(L) + '\n'
    p.expect = [('fuexe', 'all')]


# ---------------------------------------------------------------------------
# case enumeration

def _h(*parts: T.Any) -> int:
    return int.from_bytes(hashlib.sha1(repr(parts).encode()).digest()[:8], 'big')


def _variants(e: Entry) -> T.List[dict]:
    keys = sorted(e.matrix)
    if not keys:
        return []
    return [dict(zip(keys, combo)) for combo in itertools.product(*(e.matrix[k] for k in keys))]


def cases(seed: int, tier: str) -> T.List[dict]:
    """The cases of one run, in catalogue order.  Deterministic in (seed, tier).  Every entry runs with each of its
    `fixed` option sets in both tiers.  On top of that the seed selects option sets from the entry's matrix: in the
    quick tier one further set for every third entry (which third rotates with the seed), in the thorough tier up to
    THOROUGH_VARIANTS further sets for every entry."""
    out: T.List[dict] = []
    for e in ENTRIES:
        seen: T.List[dict] = []
        for o in e.fixed:
            if o not in seen:
                seen.append(dict(o))
        vs = _variants(e)
        vs.sort(key=lambda o: _h(seed, e.name, sorted(o.items())))
        if tier == 'quick':
            extra = 1 if _h('rotate', e.name) % 3 == seed % 3 else 0
        else:
            extra = THOROUGH_VARIANTS
        for o in vs:
            if extra <= 0:
                break
            if o not in seen:
                seen.append(o)
                extra -= 1
        for o in seen:
            out.append({'feature': e.name, 'opts': o})
    return out


def missing_tools(case: dict) -> T.List[str]:
    return [t for t in BY_NAME[case['feature']].tools if shutil.which(t) is None]


def build(case: dict) -> Project:
    e = BY_NAME[case['feature']]
    p = Project(e.name, dict(case.get('opts') or {}))
    e.builder(p)
    return p


def cost(case: dict) -> int:
    """Rough relative cost, used to spread the cases over shards."""
    n = case['feature']
    if n.startswith('java'):
        return 6
    if n.startswith('rust'):
        return 4
    if n.startswith('fortran'):
        return 3
    return 2


def by_cost(cs: T.List[dict]) -> T.List[dict]:
    """Most expensive first (stable): a pool that hands out one case at a time then ends with the cheap ones."""
    return sorted(cs, key=lambda c: -cost(c))
