"""Independent implementation of the Ninja manifest language (written from the Ninja manual, section
"Ninja file reference": lexical syntax, variables/scoping, rule/build/default/pool/include/subninja),
plus graph queries and an executor that owns the schedule.  There is no ninja binary in the sandbox;
this module is the judge of "valid manifest" (C04) and the engine that runs edges (C03, C05, C15).

Errors in the manifest raise NinjaError (a *finding about build.ninja*, not a harness error).
"""
from __future__ import annotations

import hashlib
import os
import subprocess
import typing as T


class NinjaError(Exception):
    def __init__(self, msg: str, lineno: int = 0):
        super().__init__(f'line {lineno}: {msg}' if lineno else msg)
        self.lineno = lineno


_SIMPLE_VAR = set('abcdefghijklmnopqrstuvwxyzABCDEFGHIJKLMNOPQRSTUVWXYZ0123456789_-')
_BRACE_VAR = _SIMPLE_VAR | {'.'}
_IDENT = _BRACE_VAR

# an "EvalString": list of ('lit', text) / ('var', name)
EvalString = T.List[T.Tuple[str, str]]


def canon_path(p: str) -> str:
    """ninja's CanonicalizePath: drop '.', resolve 'x/..' lexically, collapse '//'."""
    if not p:
        return p
    absolute = p.startswith('/')
    parts: T.List[str] = []
    for c in p.split('/'):
        if c == '' or c == '.':
            continue
        if c == '..':
            if parts and parts[-1] != '..':
                parts.pop()
            elif not absolute:
                parts.append('..')
            continue
        parts.append(c)
    r = '/'.join(parts)
    if absolute:
        return '/' + r
    return r or '.'


def shell_escape(s: str) -> str:
    """ninja's GetShellEscapedString (POSIX)."""
    safe = set('abcdefghijklmnopqrstuvwxyzABCDEFGHIJKLMNOPQRSTUVWXYZ0123456789_+-./')
    if s and all(c in safe for c in s):
        return s
    return "'" + s.replace("'", "'\\''") + "'"


class Scope:
    def __init__(self, parent: T.Optional['Scope'] = None):
        self.vars: T.Dict[str, str] = {}
        self.parent = parent
        self.rules: T.Dict[str, 'Rule'] = {}

    def lookup(self, name: str) -> str:
        s: T.Optional[Scope] = self
        while s is not None:
            if name in s.vars:
                return s.vars[name]
            s = s.parent
        return ''

    def lookup_rule(self, name: str) -> T.Optional['Rule']:
        s: T.Optional[Scope] = self
        while s is not None:
            if name in s.rules:
                return s.rules[name]
            s = s.parent
        return None

    def defined(self, name: str) -> bool:
        s: T.Optional[Scope] = self
        while s is not None:
            if name in s.vars:
                return True
            s = s.parent
        return False


def evaluate(es: EvalString, lookup: T.Callable[[str], str]) -> str:
    return ''.join(t if k == 'lit' else lookup(t) for k, t in es)


class Rule:
    RESERVED = {'command', 'depfile', 'dyndep', 'description', 'deps', 'generator', 'pool', 'restat', 'rspfile',
                'rspfile_content', 'msvc_deps_prefix'}

    def __init__(self, name: str, lineno: int):
        self.name = name
        self.lineno = lineno
        self.bindings: T.Dict[str, EvalString] = {}


class Edge:
    def __init__(self, rule: Rule, scope: Scope, lineno: int):
        self.rule = rule
        self.scope = scope          # enclosing file scope
        self.lineno = lineno
        self.outs: T.List[str] = []
        self.implicit_outs: T.List[str] = []
        self.ins: T.List[str] = []
        self.implicit: T.List[str] = []
        self.order_only: T.List[str] = []
        self.validations: T.List[str] = []
        self.bindings: T.Dict[str, str] = {}
        self.undefined_refs: T.Set[str] = set()

    @property
    def is_phony(self) -> bool:
        return self.rule.name == 'phony'

    @property
    def all_outs(self) -> T.List[str]:
        return self.outs + self.implicit_outs

    @property
    def all_ins(self) -> T.List[str]:
        return self.ins + self.implicit + self.order_only

    def get(self, name: str, _stack: T.Optional[T.List[str]] = None, shell: bool = True) -> str:
        """Edge-scope variable lookup: $in/$out, then build-statement bindings, then the rule's
        bindings (expanded lazily in this edge's scope), then the file scope."""
        if name == 'in':
            return ' '.join((shell_escape(p) if shell else p) for p in self.ins)
        if name == 'in_newline':
            return '\n'.join((shell_escape(p) if shell else p) for p in self.ins)
        if name == 'out':
            return ' '.join((shell_escape(p) if shell else p) for p in self.outs)
        if name in self.bindings:
            return self.bindings[name]
        if name in self.rule.bindings:
            stack = _stack or []
            if name in stack:
                raise NinjaError(f'cycle in rule variables: {" -> ".join(stack + [name])}', self.lineno)
            return evaluate(self.rule.bindings[name], lambda n: self.get(n, stack + [name], shell))
        if not self.scope.defined(name):
            self.undefined_refs.add(name)
        return self.scope.lookup(name)

    def command(self) -> str:
        return self.get('command')

    def __repr__(self) -> str:
        return f'<Edge {self.rule.name} {self.outs} <- {self.ins} | {self.implicit} || {self.order_only} @{self.lineno}>'


class Manifest:
    def __init__(self) -> None:
        self.scope = Scope()
        self.edges: T.List[Edge] = []
        self.defaults: T.List[str] = []
        self.pools: T.Dict[str, int] = {'console': 1}
        self.producer: T.Dict[str, Edge] = {}
        self.duplicate_outputs: T.List[T.Tuple[str, Edge, Edge]] = []
        self.files_read: T.List[str] = []

    # -- graph queries -----------------------------------------------------
    def edge_for(self, path: str) -> T.Optional[Edge]:
        return self.producer.get(canon_path(path))

    def closure(self, targets: T.Iterable[str]) -> T.Tuple[T.Set[int], T.Set[str]]:
        """(ids of edges, all paths) reachable from targets through explicit/implicit/order-only inputs."""
        seen_e: T.Set[int] = set()
        seen_p: T.Set[str] = set()
        stack = [canon_path(t) for t in targets]
        while stack:
            p = stack.pop()
            if p in seen_p:
                continue
            seen_p.add(p)
            e = self.producer.get(p)
            if e is None or id(e) in seen_e:
                continue
            seen_e.add(id(e))
            stack.extend(canon_path(i) for i in e.all_ins)
        return seen_e, seen_p

    def find_cycle(self) -> T.Optional[T.List[str]]:
        WHITE, GREY, BLACK = 0, 1, 2
        color: T.Dict[int, int] = {}
        for root in self.edges:
            if color.get(id(root), WHITE) != WHITE:
                continue
            stack: T.List[T.Tuple[Edge, T.Iterator[str]]] = [(root, iter(root.all_ins))]
            color[id(root)] = GREY
            path = [root]
            while stack:
                e, it = stack[-1]
                nxt = None
                for p in it:
                    pe = self.producer.get(canon_path(p))
                    if pe is None:
                        continue
                    c = color.get(id(pe), WHITE)
                    if c == GREY:
                        idx = path.index(pe)
                        return [x.outs[0] if x.outs else '?' for x in path[idx:]] + [pe.outs[0] if pe.outs else '?']
                    if c == WHITE:
                        nxt = pe
                        break
                if nxt is None:
                    color[id(e)] = BLACK
                    stack.pop()
                    path.pop()
                else:
                    color[id(nxt)] = GREY
                    stack.append((nxt, iter(nxt.all_ins)))
                    path.append(nxt)
        return None

    def topo_order(self, edge_ids: T.Optional[T.Set[int]] = None) -> T.List[Edge]:
        """Declaration-stable topological order of (a subset of) the edges."""
        sel = [e for e in self.edges if edge_ids is None or id(e) in edge_ids]
        done: T.Set[int] = set()
        order: T.List[Edge] = []

        def visit(e: Edge, stack: T.Set[int]) -> None:
            if id(e) in done:
                return
            if id(e) in stack:
                raise NinjaError('dependency cycle', e.lineno)
            stack.add(id(e))
            for p in e.all_ins:
                pe = self.producer.get(canon_path(p))
                if pe is not None and (edge_ids is None or id(pe) in edge_ids):
                    visit(pe, stack)
            stack.discard(id(e))
            done.add(id(e))
            order.append(e)

        import sys
        old = sys.getrecursionlimit()
        sys.setrecursionlimit(max(old, 20000))
        try:
            for e in sel:
                visit(e, set())
        finally:
            sys.setrecursionlimit(old)
        return order

    def deps_of(self, e: Edge) -> T.List[Edge]:
        out = []
        seen = set()
        for p in e.all_ins:
            pe = self.producer.get(canon_path(p))
            if pe is not None and id(pe) not in seen:
                seen.add(id(pe))
                out.append(pe)
        return out

    def ancestors(self, e: Edge) -> T.Set[int]:
        seen: T.Set[int] = set()
        stack = self.deps_of(e)
        while stack:
            x = stack.pop()
            if id(x) in seen:
                continue
            seen.add(id(x))
            stack.extend(self.deps_of(x))
        return seen


class _Lexer:
    def __init__(self, text: str, fname: str):
        self.t = text
        self.i = 0
        self.line = 1
        self.fname = fname

    def err(self, msg: str) -> NinjaError:
        return NinjaError(f'{self.fname}: {msg}', self.line)

    def eof(self) -> bool:
        return self.i >= len(self.t)

    def peek(self) -> str:
        return self.t[self.i] if self.i < len(self.t) else ''

    def skip_spaces(self) -> None:
        """spaces and $-newline continuations"""
        t = self.t
        while self.i < len(t):
            c = t[self.i]
            if c == ' ':
                self.i += 1
            elif c == '$' and t.startswith('$\n', self.i):
                self.i += 2
                self.line += 1
            elif c == '$' and t.startswith('$\r\n', self.i):
                self.i += 3
                self.line += 1
            else:
                break

    def read_ident(self) -> str:
        j = self.i
        while j < len(self.t) and self.t[j] in _IDENT:
            j += 1
        if j == self.i:
            raise self.err(f'expected identifier, got {self.t[self.i:self.i + 10]!r}')
        s = self.t[self.i:j]
        self.i = j
        self.skip_spaces()
        return s

    def read_eval(self, path: bool) -> EvalString:
        """path=True: stops at space, ':', '|', newline (not consumed except trailing spaces);
        path=False: a value, runs to end of line and consumes the newline."""
        t = self.t
        out: EvalString = []
        lit: T.List[str] = []

        def flush() -> None:
            if lit:
                out.append(('lit', ''.join(lit)))
                lit.clear()

        while True:
            if self.i >= len(t):
                if path:
                    break
                # a value at EOF without newline: ninja reports "unexpected EOF"
                raise self.err('unexpected EOF')
            c = t[self.i]
            if c == '$':
                n = t[self.i + 1] if self.i + 1 < len(t) else ''
                if n == '$':
                    lit.append('$')
                    self.i += 2
                elif n == ' ':
                    lit.append(' ')
                    self.i += 2
                elif n == ':':
                    lit.append(':')
                    self.i += 2
                elif n == '\n' or (n == '\r' and t.startswith('\r\n', self.i + 1)):
                    self.i += 2 if n == '\n' else 3
                    self.line += 1
                    while self.i < len(t) and t[self.i] == ' ':
                        self.i += 1
                elif n == '{':
                    j = self.i + 2
                    while j < len(t) and t[j] in _BRACE_VAR:
                        j += 1
                    if j >= len(t) or t[j] != '}' or j == self.i + 2:
                        raise self.err("bad $-escape (literal $ must be written as $$)")
                    flush()
                    out.append(('var', t[self.i + 2:j]))
                    self.i = j + 1
                elif n in _SIMPLE_VAR:
                    j = self.i + 1
                    while j < len(t) and t[j] in _SIMPLE_VAR:
                        j += 1
                    flush()
                    out.append(('var', t[self.i + 1:j]))
                    self.i = j
                else:
                    raise self.err("bad $-escape (literal $ must be written as $$)")
            elif c == '\n':
                if path:
                    break
                self.i += 1
                self.line += 1
                break
            elif c == '\r' and t.startswith('\r\n', self.i):
                if path:
                    break
                self.i += 2
                self.line += 1
                break
            elif path and c in ' :|':
                break
            elif c == '\0':
                raise self.err('unexpected NUL')
            else:
                lit.append(c)
                self.i += 1
        flush()
        if path:
            self.skip_spaces()
        return out


def parse_file(path: str, manifest: T.Optional[Manifest] = None, scope: T.Optional[Scope] = None,
               cwd: T.Optional[str] = None) -> Manifest:
    with open(path, encoding='utf-8', newline='') as f:
        text = f.read()
    return parse(text, path, manifest, scope, cwd or os.path.dirname(os.path.abspath(path)))


def parse(text: str, fname: str = 'build.ninja', manifest: T.Optional[Manifest] = None,
          scope: T.Optional[Scope] = None, cwd: str = '.') -> Manifest:
    m = manifest or Manifest()
    sc = scope or m.scope
    m.files_read.append(fname)
    if not m.scope.rules.get('phony'):
        m.scope.rules['phony'] = Rule('phony', 0)
    lx = _Lexer(text, fname)
    t = lx.t

    def read_indented_bindings() -> T.List[T.Tuple[str, EvalString, int]]:
        res = []
        while True:
            # an indented line that is not blank/comment
            j = lx.i
            while j < len(t) and t[j] == ' ':
                j += 1
            if j == lx.i:
                break
            if j >= len(t):
                lx.i = j
                break
            if t[j] == '\n':
                lx.i = j + 1
                lx.line += 1
                continue
            if t.startswith('\r\n', j):
                lx.i = j + 2
                lx.line += 1
                continue
            if t[j] == '#':
                k = t.find('\n', j)
                lx.i = len(t) if k < 0 else k + 1
                lx.line += 1
                continue
            lx.i = j
            ln = lx.line
            key = lx.read_ident()
            if lx.peek() != '=':
                raise lx.err("expected '='")
            lx.i += 1
            lx.skip_spaces()
            val = lx.read_eval(path=False)
            res.append((key, val, ln))
        return res

    def expect_newline() -> None:
        if lx.eof():
            return
        if t.startswith('\r\n', lx.i):
            lx.i += 2
            lx.line += 1
        elif t[lx.i] == '\n':
            lx.i += 1
            lx.line += 1
        else:
            raise lx.err(f'expected newline, got {t[lx.i:lx.i + 10]!r}')

    while not lx.eof():
        c = t[lx.i]
        if c == '\n':
            lx.i += 1
            lx.line += 1
            continue
        if c == '\r' and t.startswith('\r\n', lx.i):
            lx.i += 2
            lx.line += 1
            continue
        if c == '#':
            k = t.find('\n', lx.i)
            lx.i = len(t) if k < 0 else k + 1
            lx.line += 1
            continue
        if c == ' ':
            # blank or comment line with leading spaces is fine; anything else is an unexpected indent
            j = lx.i
            while j < len(t) and t[j] == ' ':
                j += 1
            if j >= len(t) or t[j] in '\n#' or t.startswith('\r\n', j):
                k = t.find('\n', j)
                lx.i = len(t) if k < 0 else k + 1
                lx.line += 1
                continue
            raise lx.err('unexpected indent')
        if c == '\t':
            raise lx.err('tabs are not allowed, use spaces')
        ln = lx.line
        word = lx.read_ident()
        if word == 'rule' and lx.peek() not in '=':
            name = lx.read_ident()
            expect_newline()
            if name in sc.rules:
                raise NinjaError(f"duplicate rule '{name}'", ln)
            r = Rule(name, ln)
            for key, val, bl in read_indented_bindings():
                if key not in Rule.RESERVED:
                    raise NinjaError(f"unexpected variable '{key}' in rule", bl)
                r.bindings[key] = val
            if ('rspfile' in r.bindings) != ('rspfile_content' in r.bindings):
                raise NinjaError('rspfile and rspfile_content need to be both specified', ln)
            if 'command' not in r.bindings:
                raise NinjaError("expected 'command =' line", ln)
            sc.rules[name] = r
        elif word == 'build' and lx.peek() not in '=':
            outs: T.List[EvalString] = []
            imp_outs: T.List[EvalString] = []
            while True:
                es = lx.read_eval(path=True)
                if not es:
                    break
                outs.append(es)
            if lx.peek() == '|' and not t.startswith('||', lx.i):
                lx.i += 1
                lx.skip_spaces()
                while True:
                    es = lx.read_eval(path=True)
                    if not es:
                        break
                    imp_outs.append(es)
            if not outs and not imp_outs:
                raise lx.err('expected path')
            if lx.peek() != ':':
                raise lx.err("expected ':'")
            lx.i += 1
            lx.skip_spaces()
            rname = lx.read_ident()
            rule = sc.lookup_rule(rname)
            if rule is None:
                raise NinjaError(f"unknown build rule '{rname}'", ln)
            ins: T.List[EvalString] = []
            imps: T.List[EvalString] = []
            oos: T.List[EvalString] = []
            vals: T.List[EvalString] = []
            while True:
                es = lx.read_eval(path=True)
                if not es:
                    break
                ins.append(es)
            if lx.peek() == '|' and not t.startswith('||', lx.i) and not t.startswith('|@', lx.i):
                lx.i += 1
                lx.skip_spaces()
                while True:
                    es = lx.read_eval(path=True)
                    if not es:
                        break
                    imps.append(es)
            if t.startswith('||', lx.i):
                lx.i += 2
                lx.skip_spaces()
                while True:
                    es = lx.read_eval(path=True)
                    if not es:
                        break
                    oos.append(es)
            if t.startswith('|@', lx.i):
                lx.i += 2
                lx.skip_spaces()
                while True:
                    es = lx.read_eval(path=True)
                    if not es:
                        break
                    vals.append(es)
            expect_newline()
            e = Edge(rule, sc, ln)
            for key, val, bl in read_indented_bindings():
                # build-statement variables are expanded immediately in the enclosing scope
                e.bindings[key] = evaluate(val, sc.lookup)
            ev = lambda es: canon_path(evaluate(es, lambda n: e.bindings[n] if n in e.bindings else sc.lookup(n)))  # noqa: E731
            e.outs = [ev(x) for x in outs]
            e.implicit_outs = [ev(x) for x in imp_outs]
            e.ins = [ev(x) for x in ins]
            e.implicit = [ev(x) for x in imps]
            e.order_only = [ev(x) for x in oos]
            e.validations = [ev(x) for x in vals]
            pool = e.get('pool')
            if pool and pool not in m.pools:
                raise NinjaError(f"unknown pool name '{pool}'", ln)
            for o in e.all_outs:
                if o in m.producer:
                    m.duplicate_outputs.append((o, m.producer[o], e))
                else:
                    m.producer[o] = e
            m.edges.append(e)
        elif word == 'default' and lx.peek() not in '=':
            got = False
            while True:
                es = lx.read_eval(path=True)
                if not es:
                    break
                got = True
                m.defaults.append(canon_path(evaluate(es, sc.lookup)))
            if not got:
                raise lx.err('expected target name')
            expect_newline()
        elif word == 'pool' and lx.peek() not in '=':
            name = lx.read_ident()
            expect_newline()
            depth = None
            for key, val, bl in read_indented_bindings():
                if key != 'depth':
                    raise NinjaError(f"unexpected variable '{key}' in pool", bl)
                try:
                    depth = int(evaluate(val, sc.lookup))
                except ValueError:
                    raise NinjaError('invalid pool depth', bl)
            if depth is None or depth < 0:
                raise NinjaError("expected 'depth =' line", ln)
            if name in m.pools:
                raise NinjaError(f"duplicate pool '{name}'", ln)
            m.pools[name] = depth
        elif word in ('include', 'subninja') and lx.peek() not in '=':
            es = lx.read_eval(path=True)
            expect_newline()
            p = evaluate(es, sc.lookup)
            full = p if os.path.isabs(p) else os.path.join(cwd, p)
            try:
                with open(full, encoding='utf-8', newline='') as f:
                    sub = f.read()
            except OSError as ex:
                raise NinjaError(f'loading {p!r}: {ex}', ln)
            parse(sub, p, m, sc if word == 'include' else Scope(sc), cwd)
        else:
            if lx.peek() != '=':
                raise NinjaError(f"{fname}: expected '=', got {t[lx.i:lx.i + 10]!r} after {word!r}", ln)
            lx.i += 1
            lx.skip_spaces()
            val = lx.read_eval(path=False)
            sc.vars[word] = evaluate(val, sc.lookup)
    if manifest is None:
        for d in m.defaults:
            if d not in m.producer:
                # ninja: a default that is a plain source file is allowed only if it is known as a node
                known = any(d in e.all_ins for e in m.edges)
                if not known:
                    raise NinjaError(f"unknown target '{d}' in default")
    return m


# ---------------------------------------------------------------------------
# dyndep (Ninja manual, "Dynamic Dependencies"): a build statement may name, with the `dyndep` binding, one of
# its inputs as a file that is produced during the build and declares further implicit outputs and implicit
# inputs of that statement:
#     ninja_dyndep_version = 1
#     build out | imp-out... : dyndep | imp-in...
#       restat = 1

def dyndep_files(m: Manifest) -> T.Dict[str, T.List[Edge]]:
    """{dyndep file path: the edges bound to it}.  Raises NinjaError when a binding names a file that is not an
    input of its statement (ninja: "dyndep '...' is not an input")."""
    res: T.Dict[str, T.List[Edge]] = {}
    for e in m.edges:
        if 'dyndep' in e.bindings:
            dd = e.bindings['dyndep']
        elif 'dyndep' in e.rule.bindings:
            dd = e.get('dyndep', shell=False)
        else:
            dd = e.scope.lookup('dyndep')
        if not dd:
            continue
        dd = canon_path(dd)
        if dd not in e.all_ins:
            raise NinjaError(f"dyndep '{dd}' is not an input", e.lineno)
        res.setdefault(dd, []).append(e)
    return res


def load_dyndep(m: Manifest, path: str, builddir: str) -> T.List[Edge]:
    """Read the dyndep file `path` (relative to builddir) and add what it declares to the edges of m.
    Returns the edges that were updated."""
    bound = dyndep_files(m).get(canon_path(path), [])
    full = path if os.path.isabs(path) else os.path.join(builddir, path)
    try:
        with open(full, encoding='utf-8', newline='') as f:
            text = f.read()
    except OSError as ex:
        raise NinjaError(f'loading dyndep file {path!r}: {ex}')
    lx = _Lexer(text, path)
    t = lx.t
    version_seen = False
    updated: T.List[Edge] = []
    seen_edges: T.Set[int] = set()

    def paths() -> T.List[str]:
        res = []
        while True:
            es = lx.read_eval(path=True)
            if not es:
                break
            res.append(canon_path(evaluate(es, lambda n: '')))
        return res

    while not lx.eof():
        c = t[lx.i]
        if c in '\r\n':
            if c == '\n':
                lx.line += 1
            lx.i += 1
            continue
        if c == '#':
            k = t.find('\n', lx.i)
            lx.i = len(t) if k < 0 else k + 1
            lx.line += 1
            continue
        if c == ' ':
            j = lx.i
            while j < len(t) and t[j] == ' ':
                j += 1
            if j >= len(t) or t[j] in '\r\n#':
                lx.i = j
                continue
            raise lx.err('unexpected indent')
        ln = lx.line
        word = lx.read_ident()
        if word == 'ninja_dyndep_version':
            if lx.peek() != '=':
                raise lx.err("expected '='")
            lx.i += 1
            lx.skip_spaces()
            v = evaluate(lx.read_eval(path=False), lambda n: '')
            if v not in ('1', '1.0'):
                raise NinjaError(f'{path}: unsupported ninja_dyndep_version {v!r}', ln)
            version_seen = True
            continue
        if word != 'build':
            raise NinjaError(f'{path}: unexpected {word!r}', ln)
        if not version_seen:
            raise NinjaError(f"{path}: expected 'ninja_dyndep_version = ...'", ln)
        outs = paths()
        imp_outs: T.List[str] = []
        if lx.peek() == '|':
            lx.i += 1
            lx.skip_spaces()
            imp_outs = paths()
        if len(outs) != 1:
            raise NinjaError(f'{path}: expected exactly one explicit output', ln)
        if lx.peek() != ':':
            raise lx.err("expected ':'")
        lx.i += 1
        lx.skip_spaces()
        if lx.read_ident() != 'dyndep':
            raise NinjaError(f"{path}: expected build command name 'dyndep'", ln)
        if paths():
            raise NinjaError(f'{path}: explicit inputs not supported', ln)
        imp_ins: T.List[str] = []
        if lx.peek() == '|' and not t.startswith('||', lx.i):
            lx.i += 1
            lx.skip_spaces()
            imp_ins = paths()
        if t.startswith('||', lx.i):
            raise NinjaError(f'{path}: order-only inputs not supported', ln)
        if not lx.eof():
            if t.startswith('\r\n', lx.i):
                lx.i += 2
            elif t[lx.i] == '\n':
                lx.i += 1
            else:
                raise lx.err(f'expected newline, got {t[lx.i:lx.i + 10]!r}')
            lx.line += 1
        # optional indented bindings (only restat is allowed)
        while lx.i < len(t) and t[lx.i] == ' ':
            j = lx.i
            while j < len(t) and t[j] == ' ':
                j += 1
            if j >= len(t) or t[j] in '\r\n#':
                break
            lx.i = j
            key = lx.read_ident()
            if key != 'restat' or lx.peek() != '=':
                raise NinjaError(f'{path}: unexpected binding {key!r}', lx.line)
            lx.i += 1
            lx.skip_spaces()
            lx.read_eval(path=False)
            lx.line += 1
        e = m.producer.get(outs[0])
        if e is None:
            raise NinjaError(f"{path}: no build statement exists for '{outs[0]}'", ln)
        if e not in bound:
            raise NinjaError(f"{path}: build statement for '{outs[0]}' does not have this file as its dyndep binding", ln)
        if id(e) in seen_edges:
            raise NinjaError(f"{path}: multiple statements for '{outs[0]}'", ln)
        seen_edges.add(id(e))
        for o in imp_outs:
            if o in m.producer and m.producer[o] is not e:
                m.duplicate_outputs.append((o, m.producer[o], e))
            elif o not in e.implicit_outs and o not in e.outs:
                m.producer[o] = e
                e.implicit_outs.append(o)
        for i in imp_ins:
            if i not in e.implicit:
                e.implicit.append(i)
        updated.append(e)
    for e in bound:
        if id(e) not in seen_edges:
            raise NinjaError(f"{path}: '{e.outs[0]}' is not mentioned in its dyndep file", e.lineno)
    return updated


# ---------------------------------------------------------------------------
# execution

def file_digest(path: str) -> str:
    try:
        if os.path.islink(path):
            return 'link:' + os.readlink(path)
        if os.path.isdir(path):
            return 'dir'
        h = hashlib.sha1()
        with open(path, 'rb') as f:
            for chunk in iter(lambda: f.read(1 << 20), b''):
                h.update(chunk)
        return h.hexdigest()
    except FileNotFoundError:
        return 'missing'


class RunResult:
    def __init__(self, edge: Edge, rc: int, output: str, command: str):
        self.edge = edge
        self.rc = rc
        self.output = output
        self.command = command


def run_edge(e: Edge, builddir: str, env: T.Optional[T.Dict[str, str]] = None, timeout: float = 120) -> RunResult:
    """What ninja does for one edge: create output dirs, write the rspfile, run the command through
    /bin/sh -c in the build directory, remove the rspfile on success."""
    if e.is_phony:
        return RunResult(e, 0, '', '')
    for o in e.all_outs:
        d = os.path.dirname(os.path.join(builddir, o))
        if d:
            os.makedirs(d, exist_ok=True)
    cmd = e.command()
    rsp = e.get('rspfile')
    if rsp:
        rp = os.path.join(builddir, rsp)
        os.makedirs(os.path.dirname(rp) or '.', exist_ok=True)
        with open(rp, 'w', encoding='utf-8', newline='') as f:
            f.write(e.get('rspfile_content'))
    p = subprocess.run(['/bin/sh', '-c', cmd], cwd=builddir, env=env, stdout=subprocess.PIPE, stderr=subprocess.STDOUT,
                       stdin=subprocess.DEVNULL, timeout=timeout)
    if rsp and p.returncode == 0:
        try:
            os.unlink(os.path.join(builddir, rsp))
        except OSError:
            pass
    return RunResult(e, p.returncode, p.stdout.decode('utf-8', 'replace'), cmd)


def parse_depfile(text: str) -> T.List[str]:
    """Makefile-style depfile as written by gcc -MD: 'target: dep dep \\\n dep'. Returns the deps."""
    text = text.replace('\\\n', ' ')
    deps: T.List[str] = []
    for line in text.splitlines():
        if not line.strip():
            continue
        # split at the first unescaped ': '
        i = 0
        tgt_end = -1
        while i < len(line):
            if line[i] == '\\' and i + 1 < len(line):
                i += 2
                continue
            if line[i] == ':' and (i + 1 == len(line) or line[i + 1] in ' \t'):
                tgt_end = i
                break
            i += 1
        rest = line[tgt_end + 1:] if tgt_end >= 0 else line
        cur: T.List[str] = []
        i = 0
        while i < len(rest):
            c = rest[i]
            if c == '\\' and i + 1 < len(rest) and rest[i + 1] in ' #\\:':
                cur.append(rest[i + 1])
                i += 2
            elif c == '$' and rest.startswith('$$', i):
                cur.append('$')
                i += 2
            elif c in ' \t':
                if cur:
                    deps.append(''.join(cur))
                    cur = []
                i += 1
            else:
                cur.append(c)
                i += 1
        if cur:
            deps.append(''.join(cur))
    return deps


def selftest() -> None:
    """Examples from the Ninja manual."""
    m = parse('''cflags = -Wall
rule cc
  command = gcc $cflags -c $in -o $out
build foo.o: cc foo.c
build special.o: cc special.c
  cflags = -Wall -g
build a$ b.o | imp.o: cc a$ b.c $
    | hdr.h || oo
default foo.o
''')
    e0, e1, e2 = m.edges
    assert e0.command() == 'gcc -Wall -c foo.c -o foo.o', e0.command()
    assert e1.command() == 'gcc -Wall -g -c special.c -o special.o', e1.command()
    assert e2.outs == ['a b.o'] and e2.implicit_outs == ['imp.o'] and e2.ins == ['a b.c'], e2
    assert e2.implicit == ['hdr.h'] and e2.order_only == ['oo']
    assert e2.command() == "gcc -Wall -c 'a b.c' -o 'a b.o'", e2.command()
    m = parse('''rule cat
  command = cat $in > $out
  rspfile = $out.rsp
  rspfile_content = $in_newline ${x.y}
x.y = 1$$2
build out: cat ./a/../in1 in2
pool p
  depth = 2
build o2: phony out
''')
    e = m.edges[0]
    assert e.ins == ['in1', 'in2'] and e.get('rspfile') == 'out.rsp' and e.get('rspfile_content') == 'in1\nin2 1$2'
    for bad in ('build x: nope y\n', 'rule r\n  command = a $\n', 'rule r\n  description = x\n', 'build x y\n',
                'rule r\n command = $ x\nbuild a: r b\n  v = $\n', 'x = $?\n', 'pool q\n', '\tx = 1\n', 'default zz\n'):
        try:
            parse(bad)
        except NinjaError:
            continue
        raise AssertionError(f'refninja accepted invalid manifest {bad!r}')
    m = parse('rule r\n command = x\nbuild a: r b\nbuild b: r c\nbuild c: r a\n')
    assert m.find_cycle() is not None
    m = parse('rule r\n command = x\nbuild a: r b\nbuild a: r c\n')
    assert m.duplicate_outputs
    assert canon_path('a/./b/../c//d') == 'a/c/d' and canon_path('../x/../y') == '../y' and canon_path('/a/../../b') == '/b'
    assert parse_depfile('a.o: a.c \\\n b\\ c.h /x/y.h\n') == ['a.c', 'b c.h', '/x/y.h']
    # dyndep (manual, "Dynamic Dependencies": the tarball example and the Fortran-module shape)
    import tempfile
    with tempfile.TemporaryDirectory(dir='/dev/shm' if os.path.isdir('/dev/shm') else None) as td:
        text = ('rule f\n command = f $in -o $out\nrule scan\n command = scan $in > $out\n'
                'build x.dd: scan a.f90 b.f90\n'
                'build a.o: f a.f90 || x.dd\n  dyndep = x.dd\n'
                'build b.o: f b.f90 || x.dd\n  dyndep = x.dd\n'
                'build c.o: f c.f90\n')
        m = parse(text)
        assert sorted(dyndep_files(m)) == ['x.dd'] and len(dyndep_files(m)['x.dd']) == 2
        with open(os.path.join(td, 'x.dd'), 'w') as f:
            f.write('ninja_dyndep_version = 1\nbuild a.o | a.mod: dyndep\nbuild b.o: dyndep | a.mod\n  restat = 1\n')
        up = load_dyndep(m, 'x.dd', td)
        assert len(up) == 2 and m.producer['a.mod'] is m.edges[1] and m.edges[2].implicit == ['a.mod']
        assert id(m.edges[1]) in m.ancestors(m.edges[2]) and not m.duplicate_outputs
        for bad in ('build a.o: dyndep\n',                                              # no version
                    'ninja_dyndep_version = 1\nbuild a.o: dyndep\n',                    # b.o not mentioned
                    'ninja_dyndep_version = 1\nbuild a.o: dyndep\nbuild b.o: dyndep\nbuild c.o: dyndep\n',   # c.o is not bound
                    'ninja_dyndep_version = 1\nbuild a.o: dyndep\nbuild a.o: dyndep\nbuild b.o: dyndep\n',   # twice
                    'ninja_dyndep_version = 1\nbuild a.o: dyndep x\nbuild b.o: dyndep\n',                    # explicit input
                    'ninja_dyndep_version = 2\nbuild a.o: dyndep\nbuild b.o: dyndep\n'):
            with open(os.path.join(td, 'x.dd'), 'w') as f:
                f.write(bad)
            try:
                load_dyndep(parse(text), 'x.dd', td)
            except NinjaError:
                continue
            raise AssertionError(f'refninja accepted invalid dyndep file {bad!r}')
        try:
            dyndep_files(parse(text.replace('build b.o: f b.f90 || x.dd', 'build b.o: f b.f90')))
        except NinjaError:
            pass
        else:
            raise AssertionError('refninja accepted a dyndep binding that is not an input')
