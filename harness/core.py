"""Shared runner machinery: context, evidence, failure buckets, known findings,
replay files, scratch directories, process pool, Hypothesis helpers.

Conventions every check follows
-------------------------------
* a *case* is plain JSON-able data (dict / list / str / int / bool / None);
  generators produce cases, `check(case)` builds the real objects.
* a check function returns None (held) or a `Failure(sig, case, msg)`;
  `sig` is a short deterministic root-cause signature (e.g. 'roundtrip/dropped-not').
* nothing random except through Hypothesis seeded from ctx.seed (or explicit
  `random.Random(seed)` objects for enumerations that sample).
* exit codes: 0 held, 1 violation (after printing VIOLATION lines), 2 harness error.
"""
from __future__ import annotations

import atexit
import collections
import hashlib
import json
import multiprocessing
import os
import shutil
import sys
import tempfile
import time
import traceback
import typing as T

VERIF = os.path.dirname(os.path.dirname(os.path.abspath(__file__)))
REPO = os.environ.get('VERIF_REPO', '/repo')
NCPU = int(os.environ.get('VERIF_JOBS', '0')) or min(16, os.cpu_count() or 1)


class HarnessError(Exception):
    """Problem of the machinery itself (exit 2, never a VIOLATION)."""


def repo_on_path() -> None:
    if REPO not in sys.path:
        sys.path.insert(0, REPO)


def fp(obj: T.Any) -> bytes:
    """8-byte fingerprint of a JSON-able case."""
    if not isinstance(obj, (str, bytes)):
        obj = json.dumps(obj, sort_keys=True, default=repr, ensure_ascii=False)
    if isinstance(obj, str):
        obj = obj.encode('utf-8', 'surrogatepass')
    return hashlib.sha1(obj).digest()[:8]


class Failure:
    def __init__(self, sig: str, case: T.Any, msg: str, kind: str = 'case'):
        self.sig = sig
        self.case = case
        self.msg = msg
        self.kind = kind

    def to_json(self) -> dict:
        return {'sig': self.sig, 'case': self.case, 'msg': self.msg, 'kind': self.kind}

    @staticmethod
    def from_json(d: dict) -> 'Failure':
        return Failure(d['sig'], d['case'], d['msg'], d.get('kind', 'case'))

    def __repr__(self) -> str:
        return f'Failure({self.sig!r}, {self.msg[:200]!r})'


class Evidence:
    """Mergeable counters. `nontrivial` holds fingerprints; for exhaustive
    enumerations whose cases are distinct by construction use add_distinct()."""
    MAX_SAMPLES_PER_CLASS = 3
    MAX_CLASSES = 24

    def __init__(self) -> None:
        self.evaluations = 0
        self.nontrivial: T.Set[bytes] = set()
        self.distinct_by_construction = 0
        self.hist: T.Counter[str] = collections.Counter()
        self.excluded: T.Counter[str] = collections.Counter()
        self.samples: T.Dict[str, list] = {}
        self.extra: T.Dict[str, T.Any] = {}
        self.inproc_only = 0

    def case(self, case: T.Any = None, nontrivial: bool = False, cls: T.Optional[str] = None,
             sample: T.Any = None, fingerprint: T.Optional[bytes] = None, n: int = 1) -> None:
        self.evaluations += n
        if cls is not None:
            self.hist[cls] += n
        if nontrivial:
            self.nontrivial.add(fingerprint if fingerprint is not None else fp(case))
        if cls is not None or sample is not None:
            key = cls or 'case'
            lst = self.samples.get(key)
            if lst is None:
                if len(self.samples) >= self.MAX_CLASSES:
                    return
                lst = self.samples[key] = []
            if len(lst) < self.MAX_SAMPLES_PER_CLASS:
                s = sample if sample is not None else case
                if s is not None:
                    lst.append(s)

    def add_distinct(self, n: int) -> None:
        """n cases that are distinct (by construction) and non-trivial."""
        self.distinct_by_construction += n

    def exclude(self, what: str, n: int = 1) -> None:
        self.excluded[what] += n

    def event(self, cls: str, n: int = 1) -> None:
        self.hist[cls] += n

    def merge(self, other: 'Evidence') -> None:
        self.evaluations += other.evaluations
        self.nontrivial |= other.nontrivial
        self.distinct_by_construction += other.distinct_by_construction
        self.hist.update(other.hist)
        self.excluded.update(other.excluded)
        self.inproc_only += other.inproc_only
        for k, v in other.samples.items():
            lst = self.samples.setdefault(k, []) if (k in self.samples or len(self.samples) < self.MAX_CLASSES) else None
            if lst is None:
                continue
            for s in v:
                if len(lst) < self.MAX_SAMPLES_PER_CLASS:
                    lst.append(s)
        for k, v in other.extra.items():
            if isinstance(v, (int, float)) and isinstance(self.extra.get(k, 0), (int, float)):
                self.extra[k] = self.extra.get(k, 0) + v
            elif isinstance(v, list):
                self.extra.setdefault(k, [])
                if isinstance(self.extra[k], list):
                    self.extra[k].extend(v)
                    del self.extra[k][50:]
            elif isinstance(v, dict) and isinstance(self.extra.get(k, {}), dict):
                d = self.extra.setdefault(k, {})
                for kk, vv in v.items():
                    if isinstance(vv, (int, float)) and isinstance(d.get(kk, 0), (int, float)):
                        d[kk] = d.get(kk, 0) + vv
                    else:
                        d[kk] = vv
            else:
                self.extra[k] = v

    @property
    def distinct_nontrivial(self) -> int:
        return len(self.nontrivial) + self.distinct_by_construction


def _shorten(o: T.Any, limit: int = 1200) -> T.Any:
    try:
        s = json.dumps(o, default=repr, ensure_ascii=False)
    except Exception:
        return repr(o)[:limit]
    if len(s) <= limit:
        return json.loads(s)
    return s[:limit] + '...<truncated>'


class Ctx:
    def __init__(self, prop: str, tier: str, seed: int):
        self.prop = prop
        self.tier = tier
        self.seed = seed
        self.quick = tier == 'quick'
        self.ev = Evidence()
        self.failures: T.Dict[str, Failure] = {}
        self.level = 'exploration'
        self.rule = ''
        self.assumptions: T.List[str] = []
        self.exhaustive: T.Optional[bool] = None
        self.t0 = time.time()
        self._scratch: T.Optional[str] = None
        self.notes: T.List[str] = []

    # -- scratch --------------------------------------------------------
    @property
    def scratch(self) -> str:
        if self._scratch is None:
            self._scratch = make_scratch(self.prop)
        return self._scratch

    # -- failures -------------------------------------------------------
    def fail(self, f: T.Optional[Failure]) -> None:
        if f is None:
            return
        if f.sig not in self.failures:
            self.failures[f.sig] = f

    def fail_all(self, fs: T.Iterable[Failure]) -> None:
        for f in fs:
            self.fail(f)

    def n(self, quick: int, thorough: int) -> int:
        scale = float(os.environ.get('VERIF_SCALE', '1'))
        return max(1, int((quick if self.quick else thorough) * scale))

    def note(self, s: str) -> None:
        self.notes.append(s)


_SCRATCH_ROOTS: T.List[str] = []


def make_scratch(tag: str) -> str:
    base = os.environ.get('VERIF_SCRATCH')
    if not base:
        base = '/dev/shm' if os.path.isdir('/dev/shm') and os.access('/dev/shm', os.W_OK) else tempfile.gettempdir()
    d = tempfile.mkdtemp(prefix=f'mverif-{tag}-', dir=base)
    _SCRATCH_ROOTS.append(d)
    return d


_MAIN_PID = os.getpid()


def _cleanup_scratch() -> None:
    if os.getpid() != _MAIN_PID:
        return
    for d in _SCRATCH_ROOTS:
        shutil.rmtree(d, ignore_errors=True)


atexit.register(_cleanup_scratch)


# ---------------------------------------------------------------------------
# process pool

def _worker_entry(args: T.Tuple[T.Callable, T.Any, int]) -> T.Tuple[T.Any, T.List[dict], T.Optional[str]]:
    func, shard, idx = args
    ev = Evidence()
    fails: T.List[Failure] = []
    err = None
    try:
        func(shard, ev, fails)
    except BaseException:  # harness problem inside a worker
        err = traceback.format_exc()
    return ev, [f.to_json() for f in fails], err


def pmap(ctx: Ctx, func: T.Callable[[T.Any, Evidence, T.List[Failure]], None], shards: T.Sequence[T.Any],
         procs: T.Optional[int] = None) -> None:
    """Run func(shard, ev, fails) for every shard in a fork pool, merging
    evidence and failures into ctx. func must be a module-level function."""
    procs = procs or NCPU
    shards = list(shards)
    if procs <= 1 or len(shards) <= 1:
        results = [_worker_entry((func, s, i)) for i, s in enumerate(shards)]
    else:
        mp = multiprocessing.get_context('fork')
        with mp.Pool(min(procs, len(shards))) as pool:
            results = pool.map(_worker_entry, [(func, s, i) for i, s in enumerate(shards)], chunksize=1)
    errs = []
    for ev, fails, err in results:
        ctx.ev.merge(ev)
        ctx.fail_all(Failure.from_json(f) for f in fails)
        if err:
            errs.append(err)
    if errs:
        raise HarnessError('worker error:\n' + errs[0])


def shard_seeds(ctx: Ctx, n: int) -> T.List[int]:
    return [ctx.seed * 1000003 + i for i in range(n)]


# ---------------------------------------------------------------------------
# Hypothesis helpers

def hyp_settings(max_examples: int, shrink: bool = False, **kw: T.Any):
    from hypothesis import settings, HealthCheck, Phase
    phases = [Phase.explicit, Phase.generate] + ([Phase.shrink] if shrink else [])
    return settings(max_examples=max_examples, database=None, deadline=None, derandomize=False,
                    report_multiple_bugs=False, suppress_health_check=list(HealthCheck),
                    phases=phases, **kw)


class _Found(Exception):
    pass


def campaign(strategy: T.Any, check: T.Callable[[T.Any], T.Optional[Failure]], n: int, seed: int,
             fails: T.List[Failure], max_buckets: int = 8, shrink_budget: int = 400) -> None:
    """collect-then-shrink: run `n` generated cases through `check`, bucket
    failures by signature, then shrink one representative per bucket by
    re-running the same seeded test asserting only that bucket."""
    import hypothesis
    from hypothesis import given

    buckets: T.Dict[str, Failure] = {}

    def body(case: T.Any) -> None:
        f = check(case)
        if f is not None and f.sig not in buckets and len(buckets) < max_buckets:
            buckets[f.sig] = f

    t = hypothesis.seed(seed)(hyp_settings(n)(given(strategy)(body)))
    t()
    for sig, f0 in list(buckets.items()):
        best = [f0]

        def body2(case: T.Any, sig: str = sig, best: list = best) -> None:
            f = check(case)
            if f is not None and f.sig == sig:
                best[0] = f
                raise _Found()

        t2 = hypothesis.seed(seed)(hyp_settings(n, shrink=True)(given(strategy)(body2)))
        try:
            t2()
        except _Found:
            pass
        except Exception:
            pass
        fails.append(best[0])


def minimize_list(items: list, still_fails: T.Callable[[list], bool], max_tests: int = 2000) -> list:
    """ddmin-style list minimisation for enumeration/sequence cases."""
    tests = 0
    n = 2
    cur = list(items)
    while len(cur) >= 2 and tests < max_tests:
        chunk = max(1, len(cur) // n)
        reduced = False
        for i in range(0, len(cur), chunk):
            cand = cur[:i] + cur[i + chunk:]
            tests += 1
            if cand and still_fails(cand):
                cur = cand
                n = max(n - 1, 2)
                reduced = True
                break
        if not reduced:
            if chunk == 1:
                break
            n = min(len(cur), n * 2)
    return cur


# ---------------------------------------------------------------------------
# known findings / replay / evidence / exit

def load_known() -> T.Tuple[T.Dict[T.Tuple[str, str], dict], T.List[str]]:
    path = os.path.join(VERIF, 'known_findings.json')
    if not os.path.exists(path):
        return {}, []
    with open(path, encoding='utf-8') as f:
        d = json.load(f)
    known = {(e['property'], e['signature']): e for e in d.get('findings', [])}
    extra = os.environ.get('VERIF_KNOWN_EXTRA')   # development aid only; never set by registered commands
    if extra and os.path.exists(extra):
        with open(extra, encoding='utf-8') as f:
            for e in json.load(f).get('findings', []):
                known[(e['property'], e['signature'])] = e
    return known, d.get('fixed', [])


def write_replay(ctx: Ctx, f: Failure) -> str:
    d = os.path.join(os.environ['VERIF_EVIDENCE_DIR'], 'replays') if os.environ.get('VERIF_EVIDENCE_DIR') \
        else os.path.join(VERIF, 'replays', 'new')
    os.makedirs(d, exist_ok=True)
    safe = ''.join(c if c.isalnum() or c in '-_.' else '_' for c in f.sig)[:60]
    name = f'{ctx.prop}-{safe}-{fp(f.case).hex()}.json'
    path = os.path.join(d, name)
    with open(path, 'w', encoding='utf-8') as fh:
        json.dump({'property': ctx.prop, 'signature': f.sig, 'kind': f.kind, 'message': f.msg,
                   'case': f.case, 'seed': ctx.seed, 'tier': ctx.tier}, fh, indent=1, ensure_ascii=False,
                  default=repr)
    return path


def finish(ctx: Ctx) -> int:
    known, _fixed = load_known()
    n_viol = 0
    known_hit = []
    for sig, f in sorted(ctx.failures.items()):
        k = known.get((ctx.prop, sig))
        if k is not None:
            known_hit.append(sig)
            print(f'KNOWN-FINDING: property={ctx.prop} {sig}: {k.get("what", f.msg)}')
            continue
        path = write_replay(ctx, f)
        n_viol += 1
        print(f'VIOLATION property={ctx.prop} replay={path}')
        print(f'  signature: {sig}')
        print('  ' + f.msg.replace('\n', '\n  ')[:3000])
    write_evidence(ctx, n_viol, known_hit)
    return 1 if n_viol else 0


def write_evidence(ctx: Ctx, n_viol: int, known_hit: T.List[str]) -> None:
    ev = ctx.ev
    samples: T.List[T.Any] = []
    for cls, lst in sorted(ev.samples.items()):
        for s in lst:
            samples.append({'class': cls, 'case': _shorten(s)})
    if n_viol and not samples:
        # a run that failed before completing any case: the failing cases are what was explored
        for sig, f in sorted(ctx.failures.items()):
            samples.append({'class': 'failing:' + sig, 'case': _shorten(f.case)})
        ev.evaluations = max(ev.evaluations, len(ctx.failures))
    cov: T.Dict[str, T.Any] = {
        'evaluations': ev.evaluations,
        'distinct_nontrivial': ev.distinct_nontrivial,
        'rule': ctx.rule,
        'samples': samples[:40],
        'class_histogram': dict(sorted(ev.hist.items())),
        'excluded': dict(sorted(ev.excluded.items())),
        'inproc_only': ev.inproc_only,
        'known_findings_hit': known_hit,
    }
    if ctx.exhaustive is not None:
        cov['exhaustive'] = ctx.exhaustive
    for k, v in ev.extra.items():
        if k not in cov:
            cov[k] = _shorten(v, 4000)
    if ctx.notes:
        cov['notes'] = ctx.notes
    doc = {
        'property_id': ctx.prop,
        'tier': ctx.tier,
        'seed': ctx.seed,
        'level': ctx.level,
        'coverage': cov,
        'assumptions': ctx.assumptions,
        'wall_s': round(time.time() - ctx.t0, 2),
        'violations': n_viol,
    }
    try:
        validate_evidence(doc)
    except HarnessError:
        if not n_viol:
            raise
        # violations were found and printed; thin evidence must not turn the verdict into a harness error
    evdir =os.environ.get('VERIF_EVIDENCE_DIR') or os.path.join(VERIF, 'evidence')
    os.makedirs(evdir, exist_ok=True)
    path = os.path.join(evdir, f'{ctx.prop}.json')
    tmp = path + '.tmp'
    with open(tmp, 'w', encoding='utf-8') as fh:
        json.dump(doc, fh, indent=1, ensure_ascii=False, default=repr)
        fh.write('\n')
    os.replace(tmp, path)


def validate_evidence(doc: dict) -> None:
    schema_path = '/root/.vp/EVIDENCE.schema.json'
    try:
        import jsonschema  # type: ignore
        if os.path.exists(schema_path):
            with open(schema_path) as f:
                jsonschema.validate(doc, json.load(f))
            return
    except ImportError:
        pass
    except Exception as e:  # schema violation -> harness error
        raise HarnessError(f'evidence does not validate: {e}')
    cov = doc['coverage']
    if cov['evaluations'] < 1 or cov['distinct_nontrivial'] < 2 or not cov['samples'] or not cov['rule']:
        raise HarnessError('evidence too thin: ' + json.dumps({k: cov[k] for k in ('evaluations', 'distinct_nontrivial')}))
