"""Reference model for C11: what `meson install` must create, written from the user documentation only.

Sources of every clause (file names relative to /repo/docs):

* destinations                 markdown/Installing.md ("install_headers('header.h', subdir : 'projname') # -> include/projname/header.h",
                               "install_man('foo.1') # -> share/man/man1/foo.1", rename examples, "giving an absolute install path ->
                               /etc/foo.dat", DESTDIR section) and the `install_dir`/`subdir`/`preserve_path`/`rename`/`locale`/
                               `strip_directory`/`exclude_*` kwargs in yaml/functions/install_*.yaml, custom_target.yaml, configure_file.yaml
* default directories          markdown/Builtin-options.md (bindir=bin, includedir=include, datadir=share, mandir=share/man,
                               localedir=share/locale, sbindir=sbin; libdir is passed explicitly)
* tags                         markdown/Installing.md "Installation tags" (predefined tags + `install_tag`; untagged files are not
                               installed when --tags is given)
* modes                        yaml/functions/install_data.yaml `install_mode` (symbolic `ls -l` notation, owner, group, `false`
                               = default) and markdown/Release-notes-for-0.47.0.md "New built-in option install_umask" ("This umask
                               is used to define the default permissions of files and directories created in the install tree.
                               Files will preserve their executable mode, but the exact permissions will obey the install_umask";
                               "preserve ... permissions are copied from the files in their origin")
* DESTDIR                      markdown/Installing.md "DESTDIR support" (relative = relative to the build directory; --destdir
                               overrides the environment)

Nothing here imports mesonbuild.
"""
from __future__ import annotations

import hashlib
import os
import stat
import typing as T

DEFAULT_DIRS = {'bindir': 'bin', 'sbindir': 'sbin', 'libdir': 'lib', 'includedir': 'include', 'datadir': 'share',
                'mandir': 'share/man', 'localedir': 'share/locale'}
MAIN_NAME = 'c11 proj'
SP_NAME = 'sp'


# ---------------------------------------------------------------------------
# permission strings (standard `ls -l` notation)

def perms_bits(s: str) -> int:
    if len(s) != 9:
        raise ValueError(s)
    bits = 0
    for i, (ch, r) in enumerate(zip(s, 'rwxrwxrwx')):
        shift = 8 - i
        if i % 3 != 2:
            if ch == r:
                bits |= 1 << shift
            elif ch != '-':
                raise ValueError(s)
            continue
        special = {2: stat.S_ISUID, 5: stat.S_ISGID, 8: stat.S_ISVTX}[i]
        lower, upper = ('s', 'S') if i != 8 else ('t', 'T')
        if ch == 'x':
            bits |= 1 << shift
        elif ch == lower:
            bits |= (1 << shift) | special
        elif ch == upper:
            bits |= special
        elif ch != '-':
            raise ValueError(s)
    return bits


# ---------------------------------------------------------------------------
# paths

class Layout:
    """Concrete paths of one materialised case.  Everything lives under `root`; the configured prefix and the
    absolute install directories are paths *inside root that must never come into existence*."""

    def __init__(self, root: str, case: dict):
        self.root = root
        self.src = os.path.join(root, 'src')
        self.bld = os.path.join(root, 'bld')
        self.home = os.path.join(root, 'home')
        self.tmp = os.path.join(root, 'tmp')
        self.rp = os.path.join(root, 'rp')
        self.abs = os.path.join(root, 'abs')
        self.prefix = os.path.normpath(os.path.join(self.rp, case['prefix'])) if case['prefix'] else self.rp
        dd = case['destdir']
        self.wrong_dest = os.path.join(root, 'wrongdest')
        if dd['rel']:
            # relative to the build directory (Installing.md, DESTDIR support)
            self.destdir_arg = dd['path']
            self.destdir = os.path.normpath(os.path.join(self.bld, dd['path']))
        else:
            self.destdir_arg = os.path.join(root, dd['path'])
            self.destdir = os.path.normpath(self.destdir_arg)
        if dd.get('slash'):
            self.destdir_arg += '/'
        self.dirs = dict(DEFAULT_DIRS)
        self.dirs.update(case.get('dirs') or {})

    def projdir(self, sp: bool) -> str:
        return os.path.join(self.src, 'subprojects', SP_NAME) if sp else self.src

    def expand(self, p: str) -> str:
        return p.replace('@ABS@', self.abs)

    def install_abs(self, idir: str) -> str:
        """absolute installation path of an install_dir-like string (before DESTDIR)"""
        idir = self.expand(idir)
        if os.path.isabs(idir):
            return os.path.normpath(idir)
        return os.path.normpath(os.path.join(self.prefix, idir))

    def staged(self, abspath: str) -> str:
        """absolute install path -> where it lands under DESTDIR"""
        return os.path.normpath(os.path.join(self.destdir, abspath.lstrip('/')))


def join_rel(*parts: str) -> str:
    return os.path.join(*[p for p in parts if p]) if any(parts) else ''


# ---------------------------------------------------------------------------
# tags

def guess_tag(lay: Layout, dest: str) -> T.Optional[str]:
    """Installing.md, 'Installation tags': the location-derived predefined tags."""
    def inside(d: str) -> bool:
        base = os.path.normpath(os.path.join(lay.prefix, d))
        return dest.startswith(base + '/')
    ext = os.path.splitext(dest)[1]
    if inside(lay.dirs['bindir']) or inside(lay.dirs['sbindir']):
        return 'runtime'
    if inside(lay.dirs['libdir']):
        if ext in ('.a', '.pc'):
            return 'devel'
        if ext in ('.so', '.dll'):
            return 'runtime'
        return None
    if inside(lay.dirs['includedir']):
        return 'devel'
    if inside(lay.dirs['localedir']):
        return 'i18n'
    parts = dest.split('/')
    if 'installed-tests' in parts:
        return 'tests'
    if 'systemtap' in parts:
        return 'systemtap'
    return None


def location_is_autotagged(lay: Layout, dest_dir: str) -> bool:
    return guess_tag(lay, os.path.join(dest_dir, 'x.so')) is not None or guess_tag(lay, os.path.join(dest_dir, 'x.a')) is not None


# ---------------------------------------------------------------------------
# expected entries

def _mode_fields(mode: T.Optional[list]) -> dict:
    if not mode:
        return {'perms': None, 'owner': None, 'group': None}
    m = list(mode) + [None] * (3 - len(mode))
    return {'perms': perms_bits(m[0]) if isinstance(m[0], str) else None, 'owner': m[1], 'group': m[2]}


def rule_entries(lay: Layout, case: dict, idx: int) -> T.List[dict]:
    """Entries (absolute install path before DESTDIR) one rule asks for.  Source attributes (content, mode,
    link targets) are read from the materialised tree when the entry is evaluated, not here."""
    r = case['rules'][idx]
    sp = bool(r.get('sp'))
    pdir = lay.projdir(sp)
    cur = os.path.join(pdir, r.get('dir') or '')
    bcur = os.path.join(lay.bld, 'subprojects', SP_NAME, r.get('dir') or '') if sp else os.path.join(lay.bld, r.get('dir') or '')
    base = {'rule': idx, 'sp': sp}
    base.update(_mode_fields(r.get('mode')))
    k = r['k']
    out: T.List[dict] = []

    def file_entry(dest: str, src: str, tag: T.Optional[str], follow: T.Optional[bool], extra: T.Optional[dict] = None) -> dict:
        e = dict(base, path=dest, src=src, tag=tag, follow=follow, typ='file')
        if extra:
            e.update(extra)
        return e

    if k == 'data':
        name = SP_NAME if sp else MAIN_NAME
        idir = r['install_dir'] if r.get('install_dir') else join_rel(lay.dirs['datadir'], name)
        for i, s in enumerate(r['sources']):
            child = os.path.dirname(s) if r.get('preserve_path') else ''
            fname = r['rename'][i] if r.get('rename') else os.path.basename(s)
            dest = os.path.normpath(os.path.join(lay.install_abs(idir), child, fname))
            tag = r.get('tag') or guess_tag(lay, dest)
            out.append(file_entry(dest, os.path.join(cur, s), tag, r.get('follow')))
    elif k == 'headers':
        if r.get('install_dir'):
            idir = r['install_dir']
        else:
            idir = join_rel(lay.dirs['includedir'], r.get('subdir') or '')
        for s in r['sources']:
            child = os.path.dirname(s) if r.get('preserve_path') else ''
            dest = os.path.normpath(os.path.join(lay.install_abs(idir), child, os.path.basename(s)))
            out.append(file_entry(dest, os.path.join(cur, s), r.get('tag') or 'devel', r.get('follow')))
    elif k == 'man':
        for s in r['sources']:
            b = os.path.basename(s)
            num = b.rsplit('.', 1)[1]
            loc = r.get('locale')
            if r.get('install_dir'):
                d = lay.install_abs(r['install_dir'])
            else:
                d = lay.install_abs(join_rel(lay.dirs['mandir'], loc or '', 'man' + num))
            if loc:
                stem = b.rsplit('.', 1)[0]
                assert stem.endswith('.' + loc)
                b = stem[:-len(loc) - 1] + '.' + num
            out.append(file_entry(os.path.join(d, b), os.path.join(cur, s), r.get('tag') or 'man', None))
    elif k == 'conf':
        if r.get('install') is False or not r.get('install_dir'):
            return []
        dest = os.path.join(lay.install_abs(r['install_dir']), r['output'])
        out.append(file_entry(dest, os.path.join(bcur, r['output']), r.get('tag') or guess_tag(lay, dest), None))
    elif k == 'ct':
        outs = r['outputs']
        idirs = r['install_dir'] if isinstance(r['install_dir'], list) else [r['install_dir']] * len(outs)
        if len(idirs) == 1:
            idirs = idirs * len(outs)
        tags = r.get('tag')
        if tags is None:
            tags = [None] * len(outs)
        elif isinstance(tags, str):
            tags = [tags] * len(outs)
        elif len(tags) == 1:
            tags = list(tags) * len(outs)
        for o, d, t in zip(outs, idirs, tags):
            if d is False:
                continue
            dest = os.path.join(lay.install_abs(d), o)
            out.append(file_entry(dest, os.path.join(bcur, o), (t or None) or guess_tag(lay, dest), None))
    elif k == 'emptydir':
        dest = lay.install_abs(r['path'])
        out.append(dict(base, path=dest, typ='dir', tag=r.get('tag') or guess_tag(lay, dest), explicit=True))
    elif k == 'symlink':
        d = lay.install_abs(r['install_dir'])
        dest = os.path.join(d, r['name'])
        out.append(dict(base, path=dest, typ='link', link=lay.expand(r['pointing_to']), tag=r.get('tag') or guess_tag(lay, dest),
                        perms=None, owner=None, group=None))
    elif k == 'subdir':
        srcdir = os.path.join(cur, r['name'])
        d = lay.install_abs(r['install_dir'])
        if not r.get('strip_directory'):
            d = os.path.join(d, os.path.basename(r['name']))
        tag = r.get('tag') or guess_tag(lay, os.path.join(lay.install_abs(r['install_dir']), 'dummy'))
        exf = {os.path.normpath(x) for x in r.get('exclude_files') or []}
        exd = {os.path.normpath(x) for x in r.get('exclude_directories') or []}
        # the destination directory itself; directories get default permissions (install_mode is "for the installed files")
        out.append(dict(base, path=d, typ='dir', tag=tag, perms=None, owner=None, group=None))
        tree = r['tree']

        def excluded(rel: str, node: dict) -> bool:
            # "Names are interpreted as paths relative to the subdir_name location"; an excluded directory takes its subtree along
            parts = rel.split('/')
            for i in range(1, len(parts) + 1):
                pre = '/'.join(parts[:i])
                if pre in exd and tree.get(pre, {}).get('t') == 'dir':
                    return True
            return node['t'] != 'dir' and rel in exf

        for rel in sorted(tree):
            node = tree[rel]
            if excluded(rel, node):
                continue
            dest = os.path.join(d, rel)
            if node['t'] == 'dir':
                out.append(dict(base, path=dest, typ='dir', tag=tag, perms=None, owner=None, group=None))
            else:
                out.append(file_entry(dest, os.path.join(srcdir, rel), tag, r.get('follow')))
    elif k == 'target':
        # compiled slice: executable / shared_library / static_library (Installing.md: bindir / libdir; tags runtime / devel)
        kind = r['kind']
        default_dir = lay.dirs['bindir'] if kind == 'exe' else lay.dirs['libdir']
        d = lay.install_abs(r.get('install_dir') or default_dir)
        nm = r['name']
        tag = r.get('tag') or ('devel' if kind == 'static' else 'runtime')
        if kind == 'exe':
            out.append(file_entry(os.path.join(d, nm), os.path.join(bcur, nm), tag, None, {'elf': True}))
        elif kind == 'static':
            out.append(file_entry(os.path.join(d, f'lib{nm}.a'), os.path.join(bcur, f'lib{nm}.a'), tag, None))
        else:
            ver = r.get('version')
            sov = r.get('soversion') or (ver.split('.')[0] if ver else None)
            real = f'lib{nm}.so' + (f'.{ver}' if ver else (f'.{sov}' if sov else ''))
            out.append(file_entry(os.path.join(d, real), os.path.join(bcur, real), tag, None, {'elf': True}))
            aliases = []
            if ver and sov and f'lib{nm}.so.{sov}' != real:
                aliases.append(f'lib{nm}.so.{sov}')
            if real != f'lib{nm}.so':
                aliases.append(f'lib{nm}.so')
            for a in aliases:
                # the alias names are documented (shared_library soversion/version); which tag they carry is not
                out.append(dict(base, path=os.path.join(d, a), typ='link', link=None, resolves_to=os.path.join(d, real), tag=tag,
                                tag_uncertain=True, perms=None, owner=None, group=None))
    else:
        raise ValueError(k)
    return out


def all_entries(lay: Layout, case: dict) -> T.List[dict]:
    out = []
    for i in range(len(case['rules'])):
        out.extend(rule_entries(lay, case, i))
    return out


def selected(e: dict, tags: T.Optional[T.List[str]], skip: T.Optional[str]) -> T.Optional[bool]:
    """True/False, or None when the docs do not decide (alias symlink tags)."""
    if e['sp'] and skip is not None:
        names = [x for x in skip.split(',')]
        if skip == '*' or SP_NAME in names:
            return False
    if tags:
        if e.get('tag_uncertain'):
            return None
        return e['tag'] in tags
    return True


# ---------------------------------------------------------------------------
# evaluating an entry against the materialised source tree

def file_digest(path: str) -> str:
    h = hashlib.sha1()
    with open(path, 'rb') as f:
        h.update(f.read())
    return h.hexdigest()


def resolve_source(e: dict) -> dict:
    """What a file-type entry turns into, given its source on disk and follow_symlinks.
    -> {'typ': 'file', 'digest', 'srcmode'} or {'typ': 'link', 'link'}."""
    src = e['src']
    st = os.lstat(src)
    if stat.S_ISLNK(st.st_mode):
        dangling = not os.path.exists(src)
        if e.get('follow') is False or dangling:
            return {'typ': 'link', 'link': os.readlink(src), 'from_source_link': True}
        st = os.stat(src)
    return {'typ': 'file', 'digest': file_digest(src), 'srcmode': stat.S_IMODE(st.st_mode), 'size': st.st_size}


def expected_file_mode(e: dict, srcmode: int, umask: T.Union[int, str]) -> int:
    if e.get('perms') is not None:
        return e['perms']
    if umask == 'preserve':
        return srcmode
    assert isinstance(umask, int)
    return (0o777 if srcmode & 0o111 else 0o666) & ~umask


def expected_dir_mode(e: T.Optional[dict], umask: T.Union[int, str]) -> T.Optional[int]:
    """None = not specified by the docs (implicit directories under install_umask=preserve)."""
    if e is not None and e.get('perms') is not None:
        return e['perms']
    if umask == 'preserve':
        return None
    assert isinstance(umask, int)
    return 0o777 & ~umask


# ---------------------------------------------------------------------------
# snapshots

def snapshot(root: str, skip: T.Sequence[str] = ()) -> T.Dict[str, tuple]:
    """rel path -> (type, mode, uid, gid, size, mtime_ns, digest/link) for everything under root (root itself = '.')."""
    out: T.Dict[str, tuple] = {}
    skipset = {os.path.normpath(s) for s in skip}

    def one(path: str, rel: str) -> bool:
        st = os.lstat(path)
        m = st.st_mode
        if stat.S_ISDIR(m):
            out[rel] = ('dir', stat.S_IMODE(m), st.st_uid, st.st_gid, 0, 0, '')
            return True
        if stat.S_ISLNK(m):
            out[rel] = ('link', 0, st.st_uid, st.st_gid, 0, st.st_mtime_ns, os.readlink(path))
        elif stat.S_ISREG(m):
            out[rel] = ('file', stat.S_IMODE(m), st.st_uid, st.st_gid, st.st_size, st.st_mtime_ns, file_digest(path))
        else:
            out[rel] = ('other', stat.S_IMODE(m), st.st_uid, st.st_gid, 0, 0, '')
        return False

    def walk(path: str, rel: str) -> None:
        if os.path.normpath(path) in skipset:
            return
        if not os.path.lexists(path):
            return
        if one(path, rel):
            for n in sorted(os.listdir(path)):
                walk(os.path.join(path, n), n if rel == '.' else rel + '/' + n)

    walk(root, '.')
    return out


def diff_snap(a: T.Dict[str, tuple], b: T.Dict[str, tuple], limit: int = 6) -> T.List[str]:
    out = []
    for p in sorted(set(a) | set(b)):
        if a.get(p) != b.get(p):
            if p not in a:
                out.append(f'created {p!r} {b[p][:2]}')
            elif p not in b:
                out.append(f'removed {p!r}')
            else:
                out.append(f'changed {p!r}: {a[p]} -> {b[p]}')
            if len(out) >= limit:
                break
    return out
