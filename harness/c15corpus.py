"""C15, corpus half: the same relations on the projects of the repository's own `test cases/` tree.

No model of the project exists here, so every relation is between two artefacts of the same configuration:
intro-targets.json <-> build.ninja, intro-buildsystem_files.json <-> the build-definition files the meson
process really opened (audit hook, harness/shim_c06), intro-tests/benchmarks.json <-> argv / environment /
working directory that `meson test` hands to the test programs (the built programs are replaced by a recorder),
intro-installed.json / intro-install_plan.json <-> the tree `meson install --destdir` creates.
"""
from __future__ import annotations

import json
import os
import re
import shlex
import shutil
import stat
import typing as T

from harness import refninja
from harness.core import Evidence, Failure
from harness.mesondrv import REPO, run_sub

SHIM_DIR = os.path.join(os.path.dirname(os.path.abspath(__file__)), 'shim_c06')
BUILD_DEF_NAMES = ('meson.build', 'meson.options', 'meson_options.txt', 'Cargo.toml', 'Cargo.lock')
CORPUS_DIRS = ('common', 'unit', 'native', 'linuxlike', 'rust', 'java')

RECORDER = r'''#!/usr/bin/env python3
# stand-in for a built program: records how it was started (C15 corpus check)
import sys, os, json
d = os.environ.get('VERIF_C15_RECDIR')
if d:
    os.makedirs(d, exist_ok=True)
    with open(os.path.join(d, 'rec-%d.json' % os.getpid()), 'w') as f:
        json.dump({'argv': sys.argv, 'env': dict(os.environ), 'cwd': os.getcwd()}, f)
'''

COMPILE_RULE = {'c': 'c_COMPILER', 'cpp': 'cpp_COMPILER'}


def corpus_projects() -> T.List[str]:
    import glob
    out = []
    for sub in CORPUS_DIRS:
        for d in sorted(glob.glob(os.path.join(REPO, 'test cases', sub, '*'))):
            if os.path.isfile(os.path.join(d, 'meson.build')):
                out.append(os.path.relpath(d, REPO))
    return out


def _abs_in(p: str, base: str) -> str:
    return os.path.normpath(p if os.path.isabs(p) else os.path.join(base, p))


def _rel_build(p: str, bld: str) -> str:
    return refninja.canon_path(os.path.relpath(p, bld)) if os.path.isabs(p) else refninja.canon_path(p)


def _norm_param(a: str, bld: str) -> str:
    for pre in ('-I', '-isystem', '-L'):
        if a.startswith(pre) and len(a) > len(pre) and not a[len(pre):].startswith('='):
            return pre + _abs_in(a[len(pre):], bld)
    return a


def _uses(src: str, word: str) -> bool:
    for root, _d, fnames in os.walk(src):
        for fn in fnames:
            if fn == 'meson.build':
                try:
                    with open(os.path.join(root, fn), encoding='utf-8', errors='replace') as f:
                        if word in f.read():
                            return True
                except OSError:
                    pass
    return False


def check_corpus(case: dict, workdir: str, ev: T.Optional[Evidence], collect: T.Optional[T.List[Failure]] = None) -> T.Optional[Failure]:
    """One corpus project.  With `collect` every disagreement is appended (exploration); otherwise the first is returned."""
    found: T.List[Failure] = [] if collect is None else collect

    def fail(sig: str, msg: str) -> None:
        found.append(Failure(sig, case, f'{case["corpus"]}: {msg}'))

    shutil.rmtree(workdir, ignore_errors=True)
    src = os.path.join(workdir, 'src')
    bld = os.path.join(workdir, 'bld')
    dest = os.path.join(workdir, 'dest')
    recdir = os.path.join(workdir, 'rec')
    rlog = os.path.join(workdir, 'reads.log')
    os.makedirs(workdir)
    try:
        shutil.copytree(os.path.join(REPO, case['corpus']), src, symlinks=True)
        args = ['setup'] + list(case.get('args', [])) + [bld, src]
        r = run_sub(args, env={'PYTHONPATH': SHIM_DIR, 'MESON_VERIF_READLOG': rlog}, timeout=300)
        info = os.path.join(bld, 'meson-info')
        if r.rc != 0 or 'MESON_SKIP_TEST' in r.text or not os.path.exists(os.path.join(info, 'intro-targets.json')):
            if ev is not None:
                ev.exclude('corpus project does not configure here (needs other tools / expected failure / skipped)')
            return None

        def load(name: str) -> T.Any:
            with open(os.path.join(info, f'intro-{name}.json'), encoding='utf-8') as fh:
                return json.load(fh)
        try:
            m = refninja.parse_file(os.path.join(bld, 'build.ninja'))
        except refninja.NinjaError:
            if ev is not None:
                ev.exclude('build.ninja invalid (C04 territory)')
            return None
        targets = load('targets')
        all_edges, _ = m.closure(['all'])
        unity_on = any(o['name'] == 'unity' and o['value'] != 'off' for o in load('buildoptions'))
        # ---- targets ----------------------------------------------------------------------------------
        n_src_checked = 0
        for t in targets:
            if t['type'] in ('run', 'alias') or not t['filename']:
                continue
            fns = [_rel_build(x, bld) for x in t['filename']]
            e = m.edge_for(fns[0])
            if e is None:
                fail(f'targets/filename-not-produced:{t["type"]}',
                     f'intro-targets.json: target {t["name"]!r} ({t["type"]}) filename {t["filename"]} is not produced by any build.ninja statement')
                continue
            prods = [m.edge_for(f) for f in fns]
            if all(p is not None for p in prods) and len({id(p) for p in prods}) > 1:
                # one statement per output (compile-only targets): the statements together must produce exactly the list
                outs = sorted({o for p in prods for o in p.outs})      # type: ignore[union-attr]
                if outs != sorted(fns):
                    fail(f'targets/filename-set-differs:{t["type"]}',
                         f'intro-targets.json: target {t["name"]!r} lists {sorted(fns)} but the statements producing them output {outs}')
                continue
            if sorted(e.outs) != sorted(fns):
                fail(f'targets/filename-set-differs:{t["type"]}',
                     f'intro-targets.json: target {t["name"]!r} lists {sorted(fns)} but the statement producing it outputs {sorted(e.outs)}')
                continue
            if t['build_by_default'] and id(e) not in all_edges:
                fail('targets/build_by_default-not-in-all', f'intro-targets.json says {t["name"]!r} is built by default but `all` does not reach it')
            if t['type'] in ('custom', 'jar') or unity_on:
                continue
            pdir = '/' + os.path.basename(fns[0]) + '.p/'
            objs = [i for i in e.ins if i.endswith('.o') and pdir in '/' + i]
            for ts in t['target_sources']:
                rule = COMPILE_RULE.get(ts.get('language', ''))
                if rule is None or ts.get('unity_sources'):
                    continue
                ins: T.Set[str] = set()
                params = None
                for o in objs:
                    ce = m.edge_for(o)
                    if ce is None or not ce.rule.name.startswith(rule):
                        continue
                    ins.update(_abs_in(i, bld) for i in ce.ins)
                    if params is None:
                        params = [_norm_param(x, bld) for x in shlex.split(ce.bindings.get('ARGS', ''))]
                if not ins:
                    continue
                want = {os.path.normpath(x) for x in ts['sources'] + ts['generated_sources']}
                # generated headers are listed under generated_sources of every language block but compiled by none
                want_c = {x for x in want if not x.endswith(('.h', '.hpp', '.hh', '.hxx', '.inc', '.def', '.tcc'))}
                n_src_checked += 1
                if not want_c <= ins or not ins <= want:
                    fail('targets/sources-differ', f'intro-targets.json: target {t["name"]!r} ({ts["language"]}) lists sources+generated_sources '
                         f'{sorted(want)} but its compile statements consume {sorted(ins)}')
                elif params is not None:
                    got = [_norm_param(x, bld) for x in ts['parameters']]
                    if got != params:
                        fail('targets/parameters-differ', f'intro-targets.json: target {t["name"]!r} parameters differ from ARGS of its compile statement\n'
                             f' intro: {got}\n ninja: {params}')
        # ---- build-definition files ----------------------------------------------------------------------
        def named(xs: T.Iterable[str]) -> T.Set[str]:
            return {os.path.realpath(x) for x in xs if os.path.basename(x) in BUILD_DEF_NAMES}
        listed = named(load('buildsystem_files'))
        try:
            with open(rlog, encoding='utf-8', errors='surrogateescape') as fh:
                read = named(ln.rstrip('\n') for ln in fh)
        except OSError:
            read = set()
        if os.path.join(os.path.realpath(src), 'meson.build') not in read:
            raise RuntimeError('C15 corpus harness: the read log does not name the root meson.build (shim inactive?)')
        if listed != read:
            rel = lambda xs: sorted(os.path.relpath(x, os.path.realpath(src)) for x in xs)   # noqa: E731
            kind = 'read-not-listed' if read - listed else 'listed-not-read'
            fail(f'buildsystem_files/{kind}', f'intro-buildsystem_files.json and the files the interpreter opened disagree: '
                 f'read but not listed {rel(read - listed)}, listed but never read {rel(listed - read)}')
        # ---- placeholders for everything build.ninja produces --------------------------------------------
        made: T.Set[str] = set()
        for e in m.edges:
            if e.is_phony or e.rule.name in ('REGENERATE_BUILD',):
                continue
            for o in e.all_outs:
                if o.startswith('meson-internal__'):
                    continue
                p = os.path.join(bld, o)
                if not os.path.lexists(p):
                    os.makedirs(os.path.dirname(p), exist_ok=True)
                    with open(p, 'w') as fh:
                        fh.write(RECORDER)
                    os.chmod(p, 0o755)
                    made.add(os.path.realpath(p))
        # ---- tests / benchmarks -------------------------------------------------------------------------
        n_tests_checked = 0
        for kind, fname in (('test', 'tests'), ('benchmark', 'benchmarks')):
            intro = load(fname)
            if not intro:
                continue
            lr = run_sub(['test', '--no-rebuild', '-C', bld, '--list'] + (['--benchmark'] if kind == 'benchmark' else []), timeout=120)
            if lr.rc == 0:
                lines = [ln.rstrip('\n') for ln in lr.out.splitlines() if ln.strip()]
                names = [t['name'] for t in intro]
                unknown = [ln for ln in lines if not any(ln == n or ln.endswith((' / ' + n, ':' + n)) for n in names)]
                if len(lines) != len(names) or unknown:
                    fail(f'{fname}/list-differs', f'`meson test --list` prints {len(lines)} entries, intro-{fname}.json has {len(names)}; '
                         f'lines without an intro entry: {unknown[:4]}')
            mine = [t for t in intro if t['cmd'] and os.path.realpath(t['cmd'][0]) in made]
            shutil.rmtree(recdir, ignore_errors=True)
            if mine:      # (the depends relation below does not need a run)
                run_sub(['test', '--no-rebuild', '-C', bld, '--num-processes', '4', '-t', '0.2'] + (['--benchmark'] if kind == 'benchmark' else []),
                        env={'VERIF_C15_RECDIR': recdir}, timeout=300)
            recs = []
            if os.path.isdir(recdir):
                for fn in sorted(os.listdir(recdir)):
                    try:
                        with open(os.path.join(recdir, fn)) as fh:
                            recs.append(json.load(fh))
                    except (OSError, ValueError):
                        pass
            for it in mine:
                cands = [rc for rc in recs if rc['argv'] == it['cmd']]
                if not cands:
                    near = [rc['argv'] for rc in recs if os.path.realpath(rc['argv'][0]) == os.path.realpath(it['cmd'][0])]
                    if near:
                        fail(f'{fname}/cmd-differs', f'intro-{fname}.json {it["name"]!r} cmd {it["cmd"]} but the program was started as {near[:3]}')
                    continue    # not run (is_parallel / setup specific / skipped): nothing to compare
                n_tests_checked += 1
                def env_ok(real: T.Optional[str], v: str) -> bool:
                    # env.append()/prepend() are shown applied to an empty environment; really they extend the inherited value
                    return real == v or (real is not None and (real.startswith(v) or real.endswith(v)))
                ok_env = [rc for rc in cands if all(env_ok(rc['env'].get(k), v) for k, v in it['env'].items())]
                if not ok_env:
                    k = next(k for k, v in it['env'].items() if not env_ok(cands[0]['env'].get(k), v))
                    fail(f'{fname}/env-differs', f'intro-{fname}.json {it["name"]!r} env {k}={it["env"][k]!r} but the test saw {cands[0]["env"].get(k)!r}')
                    continue
                wd = it['workdir']
                if wd is not None and not any(os.path.realpath(rc['cwd']) == os.path.realpath(wd) for rc in ok_env):
                    fail(f'{fname}/workdir-differs', f'intro-{fname}.json {it["name"]!r} workdir {wd!r} but the test ran in {ok_env[0]["cwd"]!r}')
            agg = 'meson-benchmark-prereq' if kind == 'benchmark' else 'meson-test-prereq'
            edges, _ = m.closure([agg])
            tid = {t['id']: t for t in targets}
            for it in intro:
                for dep in it['depends']:
                    tt = tid.get(dep)
                    if tt is None:
                        fail(f'{fname}/depends-unknown-id', f'intro-{fname}.json {it["name"]!r} depends on unknown target id {dep!r}')
                        continue
                    if not tt['filename']:
                        continue
                    e = m.edge_for(_rel_build(tt['filename'][0], bld))
                    if e is None or id(e) not in edges:
                        fail(f'{fname}/depends-not-prereq', f'intro-{fname}.json {it["name"]!r} depends on {dep!r} which {agg} does not reach')
        # ---- install -----------------------------------------------------------------------------------
        installed = load('installed')
        plan = load('install_plan')
        scripts = _uses(src, 'add_install_script') or _uses(src, 'add_postconf_script') or _uses(src, 'gnome.') or _uses(src, 'i18n.')
        n_inst = 0
        if installed and not scripts:
            def tree(root: str) -> T.Set[str]:
                res = set()
                for dp, dn, fn in os.walk(root):
                    for f in fn:
                        res.add('/' + os.path.relpath(os.path.join(dp, f), root))
                    for d in dn:
                        if os.path.islink(os.path.join(dp, d)):
                            res.add('/' + os.path.relpath(os.path.join(dp, d), root))
                return res
            ir = run_sub(['install', '--no-rebuild', '-C', bld, '--destdir', dest], timeout=120)
            if ir.rc == 0:
                got = tree(dest)
                exp = set()
                roots = []
                for srcp, dst in installed.items():
                    if os.path.isabs(srcp) and not os.path.islink(srcp) and (os.path.isdir(srcp) or not os.path.lexists(srcp)):
                        # install_subdir (also of a directory that does not exist: an empty directory is created) and
                        # directories produced by the build
                        roots.append(os.path.normpath(dst))
                    else:
                        exp.add(os.path.normpath(dst))
                n_inst = len(exp)
                extra = {g for g in got - exp if not any(g == r or g.startswith(r + '/') for r in roots)}
                missing = exp - got
                if missing:
                    fail('installed/listed-but-not-installed', f'intro-installed.json promises {sorted(missing)[:6]} which `meson install` did not create\n{ir.out[-600:]}')
                if extra:
                    # was the file named at all?  (same source installed by two rules: the JSON object is keyed by source path)
                    srcs = {os.path.basename(k) for k in installed}
                    srcdirs = {os.path.basename(k) for k in installed if os.path.isdir(k)}
                    twice = [g for g in sorted(extra) if os.path.basename(g) in srcs or srcdirs & set(g.split('/'))]
                    if len(twice) == len(extra):
                        fail('installed/one-source-two-destinations', f'`meson install` created {twice[:6]}; intro-installed.json names the source of each '
                             f'but with another destination only (an object keyed by source path keeps one destination per source)')
                    else:
                        fail('installed/installed-but-not-listed', f'`meson install` created {sorted(extra)[:6]} which intro-installed.json does not list')
                for rroot in roots:
                    if not os.path.isdir(dest + rroot):
                        fail('installed/subdir-not-installed', f'intro-installed.json lists the directory {rroot} but `meson install` did not create it')
            elif ev is not None:
                ev.event('corpus:install-failed-with-placeholders')
        # ---- a second configuration of the same directory ------------------------------------------------
        rr = run_sub(['setup', '--reconfigure', bld, src], timeout=300)
        if rr.rc == 0:
            again = named(load('buildsystem_files'))
            if again != listed:
                fail('buildsystem_files/differs-after-reconfigure',
                     f'after an unchanged `meson setup --reconfigure` intro-buildsystem_files.json lost '
                     f'{sorted(listed - again)} and gained {sorted(again - listed)}')
            for name, before in (('installed', installed), ('install_plan', plan)):
                if load(name) != before:
                    fail(f'{name}/changes-on-reconfigure', f'intro-{name}.json differs after an unchanged `meson setup --reconfigure`')
        if ev is not None:
            ev.case(case, nontrivial=len(targets) >= 2 and (n_src_checked > 0) and (n_tests_checked > 0 or n_inst > 0),
                    cls='corpus', sample={'corpus': case['corpus'], 'targets': len(targets), 'source_blocks_compared': n_src_checked,
                                          'tests_recorded': n_tests_checked, 'installed_entries': n_inst})
        return found[0] if (found and collect is None) else None
    finally:
        shutil.rmtree(workdir, ignore_errors=True)
