"""Typed Hypothesis generator of core-language Meson programs over the refmeson AST (used by C01).

Everything is drawn through `draw` (Hypothesis), so cases shrink and are a pure function of the seed.
The generator is *typed* so that ill-typed programs appear only where a fault is injected deliberately
(exactly one per program, `fault_at`).  The reference evaluator stays the only arbiter: whatever is
generated is evaluated by refmeson and judged (or excluded as undefined) on that basis.
"""
from __future__ import annotations

import copy
import typing as T

from hypothesis import strategies as st

from harness import refmeson as R

INT = ('int',)
BOOL = ('bool',)
STR = ('str',)


def ARR(el: T.Any, n: T.Optional[int]) -> tuple:
    return ('arr', el, n)


def DICT(el: T.Any, keys: T.Optional[tuple]) -> tuple:
    return ('dict', el, keys)


def base(t: tuple) -> tuple:
    """type without value refinements (array length / key set)"""
    if t[0] == 'arr':
        return ('arr', base(t[1]) if t[1] else None, None)
    if t[0] == 'dict':
        return ('dict', base(t[1]) if t[1] else None, None)
    return t


def compatible(have: tuple, want: tuple) -> bool:
    if have[0] != want[0]:
        return False
    if have[0] in ('arr', 'dict'):
        if want[1] is None:
            return True
        if have[1] is None:
            return False
        return compatible(have[1], want[1])
    return True


PLAIN = list('abcxyzABZ019 _.-/:,;=+*()[]{}<>!?&|^~$%') + ['@', '#', '"', 'é', 'ß', 'ж', '日', '😀', 'İ']
ESCAPES = ['\\\\', "\\'", '\\a', '\\b', '\\f', '\\n', '\\r', '\\t', '\\v', '\\0', '\\7', '\\101', '\\60', '\\377', '\\400',
           '\\1234', '\\x41', '\\x7e', '\\xe9', '\\x0a', '\\u00e9', '\\u20ac', '\\u0041', '\\U0001F600', '\\U00000041',
           '\\N{DIGIT ONE}', '\\N{LATIN SMALL LETTER A}', '\\N{GREEK SMALL LETTER ALPHA}', '\\N{SNOWMAN}']
NONESC = ['\\q', '\\ ', '\\"', '\\8', '\\9', '\\xZ1', '\\x4', '\\u12', '\\u12G4', '\\U0001F60', '\\N', '\\Nx', '\\N{}', '\\c',
          '\\e', '\\-', '\\(', '\\#', '\\@', '\\x', '\\u', '\\U']
WORDS = ['foo', 'bar', 'baz', 'x86_FreeBSD', 'a b   c d ', 'semicolons;as;separators', ' -Dsomedefine ', 'xyxHelloxyx',
         'Meson Docs.txt#Reference-manual', 'hello\\nworld\\n', 'a,b,,c', '1.2.3', 'lib', '/usr/share', 'projectname',
         'A', '', ' ', 'abcabc', 'aXbXc', 'one\\ttwo', 'l1\\r\\nl2\\rl3\\nl4']
NUMSTR = ['0', '1', '42', '-7', '+5', '007', '0x1F', '0o17', '0b101', '-0xff', '1_000', '123456789012345678901']
KEYS = ['a', 'b', 'c', 'k', 'z', 'A', 'B', 'aa', 'ab', 'a_b', 'a-b', '0', '10', '9', '', ' ', 'é', 'Z', 'key', '_']
VERS = ['1', '1.0', '1.2', '1.2.3', '1.10', '2.0', '0.9', '3.6', '3.6.0', '10.1']
VOPS = ['>=', '<=', '!=', '==', '=', '>', '<']
SEGS = ['usr', 'share', 'lib', 'a', 'b.c', 'x y', '/etc', '/usr/local', 'name', 'foo/bar']


class Gen:
    def __init__(self, draw: T.Any, fault_at: T.Optional[int] = None, prefix: str = 'v', features: T.Optional[dict] = None):
        self.draw = draw
        self.env: T.Dict[str, tuple] = {}
        self.n = 0
        self.prefix = prefix
        self.fault_at = fault_at
        self.fault: T.Optional[str] = None
        self.in_tern = False
        self.loop_depth = 0
        self.block_depth = 0
        self.modified: T.Set[str] = set()
        self.nodes = 0
        self.max_nodes = 140
        self.subs: T.Dict[str, T.Dict[str, tuple]] = {}     # subproject variable -> {name: type}
        self.undef_names: T.List[str] = []                  # names known to be undefined (fault material)
        self.feat = features or {}
        self.classes: T.Set[str] = set()

    # -- primitive draws (0 is always the simplest choice) ---------------------------------------
    def i(self, n: int) -> int:
        if n <= 1:
            return 0
        return self.draw(st.integers(0, n - 1))

    def chance(self, pct: int) -> bool:
        return self.draw(st.integers(0, 99)) >= 100 - pct

    def pick(self, seq: T.Sequence[T.Any]) -> T.Any:
        return seq[self.i(len(seq))]

    def weighted(self, table: T.Sequence[T.Tuple[int, T.Any]]) -> T.Any:
        tot = sum(w for w, _ in table)
        x = self.i(tot)
        for w, v in table:
            if x < w:
                return v
            x -= w
        return table[-1][1]

    def fresh(self, pfx: T.Optional[str] = None) -> str:
        self.n += 1
        return f'{pfx or self.prefix}{self.n}'

    def vars_of(self, want: tuple) -> T.List[str]:
        return [k for k, t in self.env.items() if compatible(t, want)]

    def exhausted(self) -> bool:
        return self.nodes > self.max_nodes

    # -- fault sites -----------------------------------------------------------------------------
    def site(self) -> bool:
        """True exactly once, at the fault_at-th site"""
        if self.fault_at is None or self.fault is not None:
            return False
        if self.fault_at <= 0:
            return True
        self.fault_at -= 1
        return False

    # -- literals --------------------------------------------------------------------------------
    def int_lit(self, nonzero: bool = False, nonneg: bool = False) -> list:
        k = self.i(12)
        if k < 7:
            v = self.draw(st.integers(-9, 20))
        elif k < 10:
            v = self.draw(st.integers(-300, 70000))
        else:
            v = self.draw(st.integers(-2 ** 70, 2 ** 70))
        if nonneg and v < 0:
            v = -v
        if nonzero and v == 0:
            v = 3
        form = 'd' if self.i(5) < 3 else self.pick(['d', 'x', 'X', 'o', 'b'])
        node = ['int', abs(v), form]
        return ['neg', node] if v < 0 else node

    def str_lit(self, ascii_only: bool = False, simple: bool = False) -> list:
        k = self.i(10)
        if simple or k < 3:
            w = self.pick(WORDS)
            if not simple or '\\' not in w:
                return ['str', w, 's']
            return ['str', 'foo', 's']
        kind = 's' if k < 8 else 'm'
        n = self.i(6)
        raw = ''
        for _ in range(n):
            c = self.i(10)
            if c < 5:
                ch = self.pick(PLAIN)
                if ascii_only and not ch.isascii():
                    ch = 'q'
                raw += ch
            elif c < 8:
                esc = self.pick(ESCAPES)
                if ascii_only and esc in ('\\xe9', '\\377', '\\400', '\\1234', '\\u00e9', '\\u20ac', '\\U0001F600',
                                          '\\N{GREEK SMALL LETTER ALPHA}', '\\N{SNOWMAN}'):
                    esc = '\\t'
                raw += esc
            elif c < 9:
                raw += self.pick(NONESC)
            else:
                raw += "\\'" if kind == 's' else self.pick(["'", "''", '\n', '\n\n', ' \n'])
        if kind == 'm':
            while "'''" in raw:        # (one pass leaves ''' behind when four or more quotes meet)
                raw = raw.replace("'''", "''")
            while raw.endswith("'") or raw.endswith('\\'):
                raw = raw[:-1]
            if ascii_only and any(e in raw for e in ()):
                pass
        else:
            # a trailing lone backslash would escape the closing quote
            nb = len(raw) - len(raw.rstrip('\\'))
            if nb % 2 == 1 and not raw.endswith("\\'"):
                raw += '\\'
            # NONESC pieces followed by text can fuse into real escapes (\x4 + 1); that is fine: the
            # evaluator decodes the final raw text, not the pieces
        return ['str', raw, kind]

    def key_lit(self) -> str:
        return self.pick(KEYS)

    # -- expression entry ------------------------------------------------------------------------
    def expr(self, t: tuple, d: int) -> T.Tuple[list, tuple]:
        self.nodes += 1
        if self.site():
            return self.fault_expr(t), t
        if self.exhausted():
            d = 0
        k = t[0]
        if k == 'int':
            return self.int_expr(d), INT
        if k == 'bool':
            return self.bool_expr(d), BOOL
        if k == 'str':
            return self.str_expr(d), STR
        if k == 'arr':
            return self.arr_expr(t, d)
        if k == 'dict':
            return self.dict_expr(t, d)
        raise AssertionError(t)

    def e(self, t: tuple, d: int) -> list:
        return self.expr(t, d)[0]

    def rand_scalar(self) -> tuple:
        return self.weighted([(4, INT), (2, BOOL), (4, STR)])

    def rand_type(self, depth: int = 2) -> tuple:
        if depth <= 0:
            return self.rand_scalar()
        k = self.i(10)
        if k < 6:
            return self.rand_scalar()
        if k < 9:
            return ARR(self.rand_type(depth - 1) if self.i(5) else None, None)
        return DICT(self.rand_type(depth - 1) if self.i(5) else None, None)

    def maybe_paren(self, e: list) -> list:
        return ['paren', e] if self.chance(8) else e

    def tern(self, t: tuple, d: int) -> T.Optional[list]:
        if self.in_tern:
            return None
        self.in_tern = True
        try:
            c = self.e(BOOL, d - 1)
            a = self.e(t, d - 1)
            b = self.e(t, d - 1)
        finally:
            self.in_tern = False
        return ['tern', c, a, b]

    def known_arrays(self, el: tuple) -> T.List[T.Tuple[str, int]]:
        return [(k, t[2]) for k, t in self.env.items() if t[0] == 'arr' and t[2] and t[1] and compatible(t[1], el)]

    def known_dicts(self, el: tuple) -> T.List[T.Tuple[str, tuple]]:
        return [(k, t[2]) for k, t in self.env.items() if t[0] == 'dict' and t[2] and t[1] and compatible(t[1], el)]

    def from_container(self, t: tuple, d: int) -> T.Optional[list]:
        """an expression of type t obtained by indexing / .get()"""
        k = self.i(6)
        if k == 0:
            n = 1 + self.i(3)
            items = [self.e(t, d - 1) for _ in range(n)]
            ix = self.draw(st.integers(-n, n - 1))
            return ['idx', ['arr', items], R.lit_of(ix)]
        if k == 1:
            ka = self.known_arrays(t)
            if ka:
                name, n = self.pick(ka)
                ix = self.draw(st.integers(-n, n - 1))
                return ['idx', ['id', name], R.lit_of(ix)]
            return None
        if k == 2:
            kd = self.known_dicts(t)
            if kd:
                name, keys = self.pick(kd)
                key = self.pick(keys)
                if self.chance(50):
                    return ['idx', ['id', name], R.lit_of(key)]
                return ['meth', ['id', name], 'get', [[None, R.lit_of(key)]] + ([[None, self.e(t, 0)]] if self.chance(40) else [])]
            return None
        if k == 3:
            keys = self.distinct_keys(1 + self.i(3))
            pairs = [[R.lit_of(kk), self.e(t, d - 1)] for kk in keys]
            if self.chance(60):
                return ['idx', ['dict', pairs], R.lit_of(self.pick(keys))]
            probe = self.pick(keys + ['nokey'])
            return ['meth', ['dict', pairs], 'get', [[None, R.lit_of(probe)], [None, self.e(t, 0)]]]
        if k == 4:
            arrs = self.vars_of(ARR(t, None))
            if arrs:
                ix = self.draw(st.integers(-4, 4))
                return ['meth', ['id', self.pick(arrs)], 'get', [[None, R.lit_of(ix)], [None, self.e(t, 0)]]]
            return None
        # get_variable
        vs = self.vars_of(t)
        if vs and self.chance(60):
            args = [[None, R.lit_of(self.pick(vs))]]
            if self.chance(30):
                args.append([None, self.e(t, 0)])
            return ['call', 'get_variable', args]
        for sp, vars_ in self.subs.items():
            cands = [n for n, tt in vars_.items() if compatible(tt, t)]
            if cands:
                args = [[None, R.lit_of(self.pick(cands))]]
                if self.chance(30):
                    args.append([None, self.e(t, 0)])
                return ['meth', ['id', sp], 'get_variable', args]
        return ['call', 'get_variable', [[None, R.lit_of(self.fresh('nov'))], [None, self.e(t, 0)]]]

    def distinct_keys(self, n: int) -> T.List[str]:
        out: T.List[str] = []
        for _ in range(n):
            k = self.key_lit()
            if k not in out:
                out.append(k)
        return out or ['a']

    # -- int ---------------------------------------------------------------------------------------
    def int_expr(self, d: int) -> list:
        vs = self.vars_of(INT)
        if d <= 0 or self.i(10) < 2:
            if vs and self.chance(55):
                return ['id', self.pick(vs)]
            return self.int_lit()
        k = self.weighted([(16, 'arith'), (10, 'div'), (4, 'neg'), (5, 'tern'), (8, 'cont'), (8, 'meth'), (2, 'range'),
                           (3, 'paren'), (3, 'leaf')])
        if k == 'arith':
            op = self.pick(['+', '-', '*'])
            return ['bin', op, self.e(INT, d - 1), self.e(INT, d - 1)]
        if k == 'div':
            op = self.pick(['/', '%'])
            l = self.e(INT, d - 1)
            if self.chance(75):
                r = self.int_lit(nonzero=True)
            else:
                x = self.e(INT, d - 2)
                r = ['paren', ['bin', '+', ['bin', '*', x, x], ['int', 1, 'd']]]
            return ['bin', op, l, r]
        if k == 'neg':
            return ['neg', self.e(INT, d - 1)]
        if k == 'tern':
            t = self.tern(INT, d)
            return t if t is not None else self.int_lit()
        if k == 'cont':
            c = self.from_container(INT, d)
            return c if c is not None else self.int_lit()
        if k == 'meth':
            m = self.i(5)
            if m == 0:
                return ['meth', self.e(ARR(None, None), d - 1), 'length', []]
            if m == 1:
                return ['meth', ['str', self.pick(NUMSTR), 's'], 'to_int', []]
            if m == 2:
                return ['meth', ['meth', self.postfix_int(d - 1), 'to_string', []], 'to_int', []]
            if m == 3:
                return ['meth', self.e(BOOL, d - 1), 'to_int', []]
            return ['meth', ['meth', self.e(DICT(None, None), d - 1), 'keys', []], 'length', []]
        if k == 'range':
            a = self.i(4)
            step = 1 + self.i(3)
            cnt = 1 + self.i(4)
            b = a + step * cnt - self.i(step)
            ix = self.i(cnt)
            form = self.i(3)
            if form == 0 and step == 1:
                args = [R.lit_of(b)]
                ix = self.i(b) if b > 0 else 0
                if b == 0:
                    return self.int_lit()
            elif form <= 1 and step == 1:
                args = [R.lit_of(a), R.lit_of(b)]
                ix = self.i(b - a)
            else:
                args = [R.lit_of(a), R.lit_of(b), R.lit_of(step)]
            return ['idx', ['call', 'range', [[None, x] for x in args]], R.lit_of(ix)]
        if k == 'paren':
            return ['paren', self.e(INT, d - 1)]
        return self.int_lit()

    def postfix_int(self, d: int) -> list:
        """an int expression usable as a method receiver"""
        x = self.e(INT, d)
        return x

    # -- bool --------------------------------------------------------------------------------------
    def bool_expr(self, d: int) -> list:
        vs = self.vars_of(BOOL)
        if d <= 0 or self.i(10) < 2:
            if vs and self.chance(50):
                return ['id', self.pick(vs)]
            return ['bool', bool(self.i(2))]
        k = self.weighted([(8, 'not'), (14, 'logic'), (12, 'rel'), (10, 'eq'), (8, 'in'), (10, 'meth'), (4, 'tern'),
                           (4, 'cont'), (3, 'paren'), (3, 'isvar')])
        if k == 'not':
            return ['not', self.e(BOOL, d - 1)]
        if k == 'logic':
            return ['bin', self.pick(['and', 'or']), self.e(BOOL, d - 1), self.e(BOOL, d - 1)]
        if k == 'rel':
            return ['bin', self.pick(['<', '<=', '>', '>=', '==', '!=']), self.e(INT, d - 1), self.e(INT, d - 1)]
        if k == 'eq':
            t = self.weighted([(3, STR), (2, BOOL), (2, ARR(INT, None)), (2, ARR(STR, None)), (1, DICT(INT, None)),
                               (1, ARR(ARR(INT, None), None))])
            return ['bin', self.pick(['==', '!=']), self.e(t, d - 1), self.e(t, d - 1)]
        if k == 'in':
            op = self.pick(['in', 'not in'])
            if self.chance(65):
                el = self.pick([INT, STR, ARR(INT, None)])
                return ['bin', op, self.e(el, d - 1), self.e(ARR(el, None), d - 1)]
            return ['bin', op, self.e(STR, d - 1) if self.chance(50) else R.lit_of(self.key_lit()), self.e(DICT(None, None), d - 1)]
        if k == 'meth':
            m = self.i(7)
            if m == 0:
                return ['meth', self.e(STR, d - 1), self.pick(['contains', 'startswith', 'endswith']), [[None, self.e(STR, d - 1)]]]
            if m == 1:
                w = self.pick(WORDS)
                frag = w[self.i(3):][:1 + self.i(4)] if w else ''
                if '\\' in frag:
                    frag = 'o'
                return ['meth', ['str', w, 's'], self.pick(['contains', 'startswith', 'endswith']), [[None, ['str', frag, 's']]]]
            if m == 2:
                if self.chance(35):
                    # array-valued elements: the needle is (a copy of) one of the haystack's own elements half of the time,
                    # so that "contains an element that is itself an array" is decided both ways
                    el = self.pick([INT, STR])
                    elems = [self.e(ARR(el, None), 1) for _ in range(2 + self.i(2))]
                    needle = copy.deepcopy(self.pick(elems)) if self.chance(55) else self.e(ARR(el, None), 1)
                    return ['meth', ['arr', elems], 'contains', [[None, needle]]]
                el = self.pick([INT, STR])
                return ['meth', self.e(ARR(el, None), d - 1), 'contains', [[None, self.e(el, d - 1)]]]
            if m == 3:
                return ['meth', self.e(DICT(None, None), d - 1), 'has_key', [[None, R.lit_of(self.key_lit())]]]
            if m == 4:
                return ['meth', self.postfix_int(d - 1), self.pick(['is_even', 'is_odd']), []]
            if m == 5:
                args = [[None, ['str', self.pick(VOPS) + self.pick(VERS), 's']]]
                if self.chance(20):
                    args.append([None, ['str', self.pick(VOPS) + self.pick(VERS), 's']])
                return ['meth', ['str', self.pick(VERS), 's'], 'version_compare', args]
            return ['meth', ['id', self.pick(list(self.subs))], 'found', []] if self.subs else ['bool', True]
        if k == 'tern':
            t = self.tern(BOOL, d)
            return t if t is not None else ['bool', False]
        if k == 'cont':
            c = self.from_container(BOOL, d)
            return c if c is not None else ['bool', True]
        if k == 'paren':
            return ['paren', self.e(BOOL, d - 1)]
        names = [n for n in self.env] + [self.fresh('nov')]
        return ['call', 'is_variable', [[None, R.lit_of(self.pick(names))]]]

    # -- str ---------------------------------------------------------------------------------------
    def scalar_vars(self) -> T.List[str]:
        return [k for k, t in self.env.items() if t[0] in ('int', 'bool', 'str')]

    def str_expr(self, d: int) -> list:
        vs = self.vars_of(STR)
        if d <= 0 or self.i(10) < 2:
            if vs and self.chance(45):
                return ['id', self.pick(vs)]
            return self.str_lit()
        k = self.weighted([(10, 'cat'), (4, 'path'), (8, 'format'), (6, 'fstr'), (18, 'meth'), (4, 'tern'), (6, 'cont'),
                           (3, 'index'), (2, 'paren'), (5, 'leaf')])
        if k == 'cat':
            return ['bin', '+', self.e(STR, d - 1), self.e(STR, d - 1)]
        if k == 'path':
            e = ['str', self.pick(SEGS), 's']
            for _ in range(1 + self.i(2)):
                e = ['bin', '/', e, ['str', self.pick(SEGS), 's']]
            return e
        if k == 'format':
            n = 1 + self.i(3)
            args = [self.e(self.rand_scalar(), d - 1) for _ in range(n)]
            tmpl = ''
            for _ in range(1 + self.i(4)):
                c = self.i(4)
                if c == 0:
                    tmpl += self.pick(['a', ' ', ': ', 'x=', ', ', '#', 'é'])
                else:
                    tmpl += '@%d@' % self.i(n)
            kind = 's' if self.chance(80) else 'm'
            return ['meth', ['str', tmpl, kind], 'format', [[None, a] for a in args]]
        if k == 'fstr':
            sv = self.scalar_vars()
            raw = ''
            for _ in range(1 + self.i(4)):
                c = self.i(5)
                if c < 2 and sv:
                    raw += '@' + self.pick(sv) + '@'
                elif c < 4:
                    raw += self.pick(['a', ' ', ': ', 'int: ', ', ', '#', 'é', '-', 'x'])
                else:
                    raw += self.pick(['\\n', '\\t', "\\'", '\\\\', '\\x41', '\\q'])
            kind = 'fs' if self.chance(75) else 'fm'
            if kind == 'fm':
                # a multi-line f-string may really span lines
                if self.chance(50):
                    cut = self.i(len(raw) + 1)
                    raw = raw[:cut] + self.pick(['\n', '\n\n', 'z\n']) + raw[cut:]
                while "'''" in raw:
                    raw = raw.replace("'''", "''")
                while raw.endswith("'") or raw.endswith('\\'):
                    raw = raw[:-1]
            return ['str', raw, kind]
        if k == 'meth':
            return self.str_meth(d)
        if k == 'tern':
            t = self.tern(STR, d)
            return t if t is not None else self.str_lit()
        if k == 'cont':
            c = self.from_container(STR, d)
            return c if c is not None else self.str_lit()
        if k == 'index':
            lit = self.str_lit()
            try:
                val = R.string_value(lit[1], lit[2])
            except R.Undefined:
                val = ''
            if not val:
                return lit
            return ['idx', lit, R.lit_of(self.i(len(val)))]
        if k == 'paren':
            return ['paren', self.e(STR, d - 1)]
        return self.str_lit()

    def str_meth(self, d: int) -> list:
        m = self.i(14)
        if m == 0:
            w = self.pick(WORDS)
            old = w[self.i(3):][:1 + self.i(3)] if len(w) > 1 else 'a'
            if '\\' in old or not old:
                old = 'a'
            return ['meth', ['str', w, 's'], 'replace', [[None, ['str', old, 's']], [None, self.str_lit(simple=True)]]]
        if m == 1:
            return ['meth', self.e(STR, d - 1), 'replace', [[None, ['str', self.pick(['a', 'b', ' ', 'ab', '\\n', 'x']), 's']], [None, self.e(STR, d - 1)]]]
        if m == 2:
            args = [] if self.chance(55) else [[None, ['str', self.pick(['xy', ' ', 'a', '', 'abc', '\\n ', '-']), 's']]]
            recv = ['str', self.pick([' a ', '\\n a b \\n', '  ', 'xyxHelloxyx', 'abc', ' \\n\\n x', '--a--', 'a']), 's'] if self.chance(60) else self.e(STR, d - 1)
            return ['meth', recv, 'strip', args]
        if m == 3:
            return ['meth', self.str_lit(ascii_only=True) if self.chance(60) else ['str', self.pick(WORDS), 's'], self.pick(['to_lower', 'to_upper']), []]
        if m == 4:
            n = self.i(3)
            # boundary values (0 as start AND as end, -1, 1) as often as arbitrary offsets
            args = [[None, R.lit_of(self.draw(st.one_of(st.sampled_from([0, 0, 0, 1, -1, 2]), st.integers(-8, 12))))] for _ in range(n)]
            recv = ['str', self.pick(WORDS + ['foobar', 'abc']), 's'] if self.chance(50) else self.e(STR, d - 1)
            return ['meth', recv, 'substring', args]
        if m == 5:
            sep = self.e(STR, d - 1) if self.chance(30) else ['str', self.pick([' ', ':', ', ', '', '/', '.']), 's']
            if self.chance(60):
                n = self.i(4)
                return ['meth', sep, 'join', [[None, ['arr', [self.e(STR, d - 1) for _ in range(n)]]]]]
            if self.chance(50):
                return ['meth', sep, 'join', [[None, self.e(ARR(STR, None), d - 1)]]]
            return ['meth', sep, 'join', [[None, self.e(STR, d - 1)] for _ in range(1 + self.i(3))]]
        if m == 6:
            return ['meth', self.e(STR, d - 1), 'underscorify', []]
        if m == 7:
            args = []
            if self.chance(40):
                args.append(['fill', R.lit_of(self.draw(st.integers(-2, 9)))])
            if self.chance(40):
                args.append(['format', ['str', self.pick(['hex', 'oct', 'bin', 'dec']), 's']])
            return ['meth', self.postfix_int(d - 1), 'to_string', args]
        if m == 8:
            args = [] if self.chance(50) else [[None, self.str_lit(simple=True) if self.chance(80) else ['str', 'y', 's']], [None, self.str_lit(simple=True)]]
            return ['meth', self.e(BOOL, d - 1), 'to_string', args]
        if m == 9:
            return ['meth', self.e(STR, d - 1), 'strip', []]
        if m == 10:
            return ['meth', self.e(STR, d - 1), self.pick(['to_lower', 'to_upper']), []]
        if m == 11:
            return ['idx', ['meth', ['str', self.pick(['a b c', 'x,y', 'one']), 's'], 'split', []], ['int', 0, 'd']]
        return ['meth', ['str', self.pick(WORDS), 's'], 'substring', [[None, R.lit_of(self.draw(st.integers(-5, 5)))]]]

    # -- arrays ------------------------------------------------------------------------------------
    def arr_expr(self, t: tuple, d: int) -> T.Tuple[list, tuple]:
        el = t[1]
        vs = self.vars_of(ARR(el, None))
        if vs and self.chance(30 if d > 0 else 55):
            name = self.pick(vs)
            return ['id', name], self.env[name]
        k = 'lit' if d <= 0 else self.weighted([(14, 'lit'), (6, 'cat'), (5, 'strm'), (3, 'dictm'), (2, 'flat'), (2, 'slice'),
                                                (2, 'tern'), (1, 'paren')])
        if k == 'cat':
            a, ta = self.expr(ARR(el, None), d - 1)
            b, tb = self.expr(ARR(el, None), d - 1)
            n = ta[2] + tb[2] if ta[2] is not None and tb[2] is not None else None
            rel = el if el is not None else (ta[1] if ta[1] == tb[1] else None)
            return ['bin', '+', a, b], ARR(rel, n)
        if k == 'strm' and (el is None or el == STR):
            m = self.i(4)
            if m == 0:
                return ['meth', ['str', self.pick(WORDS), 's'], 'split', [] if self.chance(50) else [[None, ['str', self.pick([' ', ',', ';', 'a', 'as', '\\n', '.']), 's']]]], ARR(STR, None)
            if m == 1:
                return ['meth', self.e(STR, d - 1), 'split', [[None, ['str', self.pick([' ', ',', 'a', '/']), 's']]]], ARR(STR, None)
            if m == 2:
                return ['meth', ['str', self.pick(['hello\\nworld\\n', '', 'a\\r\\nb\\rc', 'one', '\\n', 'x\\n\\ny', '\\r\\n']), 's'], 'splitlines', []], ARR(STR, None)
            return ['meth', self.e(STR, d - 1), 'splitlines', []], ARR(STR, None)
        if k == 'dictm':
            if el is None or el == STR:
                if self.chance(60):
                    return ['meth', self.e(DICT(None, None), d - 1), 'keys', []], ARR(STR, None)
            if el is not None:
                return ['meth', self.e(DICT(el, None), d - 1), 'values', []], ARR(el, None)
        if k == 'flat' and el is not None and el[0] != 'arr':
            inner, _ = self.expr(ARR(ARR(el, None), None), d - 1)
            return ['meth', inner, 'flatten', []], ARR(el, None)
        if k == 'slice':
            a, ta = self.expr(ARR(el, None), d - 1)
            step = self.pick([1, 2, -1, -2, 3])
            return ['meth', a, 'slice', [['step', R.lit_of(step)]]], ARR(el if el is not None else ta[1], None)
        if k == 'tern':
            x = self.tern(ARR(el, None), d)
            if x is not None:
                return x, ARR(el, None)
        if k == 'paren':
            a, ta = self.expr(ARR(el, None), d - 1)
            return ['paren', a], ta
        n = self.i(4) if d > 0 else self.i(3)
        items = []
        for _ in range(n):
            et = el if el is not None else self.rand_type(1)
            items.append(self.e(et, max(d - 1, 0)))
        return ['arr', items], ARR(el, n)

    # -- dicts -------------------------------------------------------------------------------------
    def dict_expr(self, t: tuple, d: int) -> T.Tuple[list, tuple]:
        el = t[1]
        vs = self.vars_of(DICT(el, None))
        if vs and self.chance(30 if d > 0 else 55):
            name = self.pick(vs)
            return ['id', name], self.env[name]
        k = 'lit' if d <= 0 else self.weighted([(14, 'lit'), (5, 'merge'), (2, 'tern'), (1, 'paren')])
        if k == 'merge':
            a, ta = self.expr(DICT(el, None), d - 1)
            b, tb = self.expr(DICT(el, None), d - 1)
            keys = None
            if ta[2] is not None and tb[2] is not None:
                keys = tuple(ta[2]) + tuple(x for x in tb[2] if x not in ta[2])
            return ['bin', '+', a, b], DICT(el, keys)
        if k == 'tern':
            x = self.tern(DICT(el, None), d)
            if x is not None:
                return x, DICT(el, None)
        if k == 'paren':
            a, ta = self.expr(DICT(el, None), d - 1)
            return ['paren', a], ta
        keys = self.distinct_keys(self.i(4)) if self.i(8) else []
        pairs = []
        for kk in keys:
            et = el if el is not None else self.rand_type(1)
            if self.chance(12):
                kexpr = ['bin', '+', R.lit_of(kk[:1]), R.lit_of(kk[1:])]     # "Keys can be any expression evaluating to a string"
            else:
                kexpr = R.lit_of(kk)
            pairs.append([kexpr, self.e(et, max(d - 1, 0))])
        return ['dict', pairs], DICT(el, tuple(keys))

    # -- deliberate faults (exactly one per program) -------------------------------------------------
    def other_lit(self, t: tuple) -> list:
        """a literal of a type different from t (never the int/bool pairing, which the docs call broken)"""
        if t[0] == 'int' or t[0] == 'bool':
            return self.pick([['str', 'a', 's'], ['arr', [['int', 1, 'd']]], ['dict', []]])
        if t[0] == 'str':
            return self.pick([['int', 1, 'd'], ['bool', True], ['arr', []]])
        if t[0] == 'arr':
            return self.pick([['str', 'a', 's'], ['int', 1, 'd'], ['dict', []]])
        return self.pick([['str', 'a', 's'], ['int', 1, 'd'], ['arr', []]])

    def fault_expr(self, t: tuple) -> list:
        good = self.simple(t)
        cat: T.List[str] = ['undefined_variable', 'void_value', 'index_out_of_range', 'missing_key', 'wrong_method_args',
                            'unknown_method', 'nested_ternary', 'kw_before_positional', 'assign_in_args', 'nonstring_key',
                            'duplicate_key', 'get_variable_unknown', 'cross_type_equality', 'unknown_function']
        if t[0] == 'int':
            cat += ['div_zero', 'mod_zero', 'cross_type_arith', 'stacked_minus', 'to_int_garbage', 'neg_nonint', 'bad_range']
        if t[0] == 'bool':
            cat += ['chained_comparison', 'stacked_not', 'not_nonbool', 'logic_nonbool', 'cross_type_order', 'tern_nonbool_cond']
        if t[0] == 'str':
            cat += ['cross_type_arith', 'str_index_oob', 'join_nonstr', 'bool_to_string_one_arg', 'format_kwarg']
        if t[0] == 'arr':
            cat += ['slice_step_zero', 'slice_one_bound']
        if t[0] == 'dict':
            cat += ['dict_plus_nondict']
        if self.subs:
            cat += ['subproject_missing_var']
        name = self.pick(cat)
        self.fault = name
        if name == 'undefined_variable':
            return ['id', self.fresh('undef')]
        if name == 'void_value':
            return self.pick([['call', 'message', [[None, ['str', 'void', 's']]]],
                              ['call', 'set_variable', [[None, ['str', self.fresh('sv'), 's']], [None, ['int', 1, 'd']]]],
                              ['call', 'assert', [[None, ['bool', True]]]]])
        if name == 'index_out_of_range':
            n = self.i(3)
            items = [self.simple(t) for _ in range(n)]
            ix = n + self.i(2) if self.chance(50) else -n - 1 - self.i(2)
            if self.chance(70):
                return ['idx', ['arr', items], R.lit_of(ix)]
            return ['meth', ['arr', items], 'get', [[None, R.lit_of(ix)]]]
        if name == 'missing_key':
            d = ['dict', [[['str', 'a', 's'], good]]]
            if self.chance(50):
                return ['idx', d, ['str', 'b', 's']]
            return ['meth', d, 'get', [[None, ['str', 'b', 's']]]]
        if name == 'wrong_method_args':
            return self.pick([
                ['meth', ['str', 'a', 's'], 'to_upper', [[None, ['int', 1, 'd']]]],
                ['meth', ['str', 'a', 's'], 'contains', []],
                ['meth', ['str', 'a', 's'], 'contains', [[None, ['arr', []]]]],
                ['meth', ['str', 'a', 's'], 'startswith', [[None, ['str', 'a', 's']], [None, ['str', 'b', 's']]]],
                ['meth', ['arr', [good]], 'length', [[None, ['int', 2, 'd']]]],
                ['meth', ['int', 4, 'd'], 'is_even', [['k', ['int', 1, 'd']]]],
                ['meth', ['dict', []], 'has_key', [[None, ['arr', []]]]],
                ['meth', ['dict', []], 'keys', [[None, ['str', 'a', 's']]]],
                ['meth', ['str', 'a b', 's'], 'split', [[None, ['str', ' ', 's']], [None, ['str', ' ', 's']]]],
                ['meth', ['str', 'abc', 's'], 'substring', [[None, ['str', '1', 's']]]],
                ['meth', ['bool', True], 'to_int', [[None, ['str', 'a', 's']]]],
                ['meth', ['arr', [good]], 'get', []],
                ['meth', ['int', 4, 'd'], 'to_string', [['format', ['str', 'roman', 's']]]],
                ['meth', ['str', 'a', 's'], 'replace', [[None, ['str', 'a', 's']]]],
            ])
        if name == 'unknown_method':
            recv = self.pick([['int', 1, 'd'], ['str', 'a', 's'], ['bool', True], ['arr', []], ['dict', []]])
            return ['meth', recv, 'zzfrob', []]
        if name == 'unknown_function':
            return ['call', 'zzfunc', [[None, good]]]
        if name == 'nested_ternary':
            if self.in_tern:
                self.fault = 'undefined_variable'
                return ['id', self.fresh('undef')]
            inner = ['tern', ['bool', bool(self.i(2))], self.simple(t), self.simple(t)]
            form = self.i(4)
            arm = ['bare', inner] if form == 0 else ['paren', inner] if form == 1 else inner if form == 2 else ['arr', [inner]]
            if form == 3:
                arm = ['idx', arm, ['int', 0, 'd']]
            c = ['bool', bool(self.i(2))]
            return ['tern', c, arm, good] if self.chance(50) else ['tern', c, good, arm]
        if name == 'kw_before_positional':
            return ['meth', ['int', 5, 'd'], 'to_string', [['fill', ['int', 3, 'd']], [None, ['int', 2, 'd']]]] if t[0] == 'str' and self.chance(50) \
                else ['idx', ['arr', [good]], ['meth', ['arr', []], 'length', [['k', ['int', 1, 'd']], [None, ['int', 2, 'd']]]]]
        if name == 'assign_in_args':
            return ['idx', ['arr', [good, ['call', 'get_variable', [[None, ['bare', ['assign', self.fresh('asg'), ['str', 'q', 's']]]], [None, ['int', 0, 'd']]]]]], ['int', 0, 'd']]
        if name == 'nonstring_key':
            return ['idx', ['dict', [[self.pick([['int', 1, 'd'], ['bool', True], ['arr', []]]), good]]], ['str', 'a', 's']]
        if name == 'duplicate_key':
            return ['idx', ['dict', [[['str', 'a', 's'], good], [['str', 'a', 's'], self.simple(t)]]], ['str', 'a', 's']]
        if name == 'get_variable_unknown':
            return ['call', 'get_variable', [[None, ['str', self.fresh('undef'), 's']]]]
        if name == 'cross_type_equality':
            cmp_ = ['bin', self.pick(['==', '!=']), self.simple(INT) if self.chance(50) else self.simple(STR), ['arr', []]]
            if self.chance(50):
                cmp_ = ['bin', '==', ['str', '1', 's'], ['int', 1, 'd']]
            return cmp_ if t[0] == 'bool' else ['idx', ['arr', [good]], ['meth', cmp_, 'to_int', []]]
        if name == 'div_zero':
            return ['bin', '/', good, self.pick([['int', 0, 'd'], ['paren', ['bin', '-', ['int', 3, 'd'], ['int', 3, 'd']]]])]
        if name == 'mod_zero':
            return ['bin', '%', good, ['int', 0, 'x']]
        if name == 'cross_type_arith':
            op = '+' if t[0] == 'str' else self.pick(['+', '-', '*', '/', '%'])
            o = self.other_lit(t)
            return ['bin', op, good, o] if self.chance(50) else ['bin', op, o, good]
        if name == 'stacked_minus':
            return ['neg', ['bare', ['neg', good]]]
        if name == 'to_int_garbage':
            return ['meth', ['str', self.pick(['abc', '', 'xyz', 'one', '12z', '--', 'é']), 's'], 'to_int', []]
        if name == 'neg_nonint':
            return ['neg', self.pick([['str', '1', 's'], ['arr', [['int', 1, 'd']]], ['paren', ['bool', True]]])]
        if name == 'bad_range':
            args = self.pick([[R.lit_of(-1)], [R.lit_of(5), R.lit_of(2)], [R.lit_of(0), R.lit_of(5), R.lit_of(0)],
                              [R.lit_of(0), R.lit_of(5), R.lit_of(-1)], [['str', '3', 's']], []])
            return ['idx', ['call', 'range', [[None, a] for a in args]], ['int', 0, 'd']]
        if name == 'chained_comparison':
            a, b, c = self.simple(INT), self.simple(INT), self.simple(INT)
            ops = [self.pick(['<', '<=', '>', '>=', '==', '!=']) for _ in range(2)]
            if self.chance(50):
                return ['bin', ops[1], ['bare', ['bin', ops[0], a, b]], c]
            return ['bin', '==', ['bare', ['bin', '==', a, b]], ['bool', True]]
        if name == 'stacked_not':
            return ['not', ['bare', ['not', good]]]
        if name == 'not_nonbool':
            return ['not', self.pick([['str', 'a', 's'], ['arr', []], ['paren', ['str', '', 's']]])]
        if name == 'logic_nonbool':
            bad = self.pick([['str', 'a', 's'], ['arr', []], ['str', '', 's'], ['dict', []]])
            form = self.i(3)
            if form == 0:
                return ['bin', self.pick(['and', 'or']), bad, good]
            if form == 1:
                return ['bin', 'and', ['bool', True], bad]
            return ['bin', 'or', ['bool', False], bad]
        if name == 'cross_type_order':
            return ['bin', self.pick(['<', '<=', '>', '>=']), self.simple(INT), ['str', '1', 's']]
        if name == 'tern_nonbool_cond':
            if self.in_tern:
                return ['not', ['str', 'a', 's']]
            return ['tern', self.pick([['str', 'a', 's'], ['arr', []], ['str', '', 's']]), good, good]
        if name == 'str_index_oob':
            return ['idx', ['str', 'abc', 's'], ['int', 3 + self.i(3), 'd']]
        if name == 'join_nonstr':
            return ['meth', ['str', ',', 's'], 'join', [[None, ['arr', [['str', 'a', 's'], ['int', 1, 'd']]]]]]
        if name == 'bool_to_string_one_arg':
            return ['meth', ['bool', True], 'to_string', [[None, ['str', 'yes', 's']]]]
        if name == 'format_kwarg':
            return ['meth', ['str', '@0@', 's'], 'format', [[None, good], ['k', ['int', 1, 'd']]]]
        if name == 'slice_step_zero':
            return ['meth', good, 'slice', [['step', ['int', 0, 'd']]]]
        if name == 'slice_one_bound':
            return ['meth', good, 'slice', [[None, ['int', 0, 'd']]]]
        if name == 'dict_plus_nondict':
            return ['bin', '+', good, self.pick([['arr', []], ['str', 'a', 's'], ['int', 1, 'd']])]
        if name == 'subproject_missing_var':
            return ['meth', ['id', self.pick(list(self.subs))], 'get_variable', [[None, ['str', self.fresh('undef'), 's']]]]
        raise AssertionError(name)

    def simple(self, t: tuple) -> list:
        """a small well-typed expression of type t that contains no fault site"""
        saved = self.fault_at
        self.fault_at = None
        try:
            return self.e(t, 0)
        finally:
            self.fault_at = saved

    def fault_stmt(self) -> T.List[list]:
        cat = ['plusassign_undefined', 'plusassign_type', 'foreach_varcount', 'foreach_scalar', 'if_nonbool', 'assert_false',
               'assign_void', 'message_kwarg', 'subdir_twice_like_unknown_function', 'assert_nonbool']
        name = self.pick(cat)
        self.fault = name
        if name == 'plusassign_undefined':
            return [['plusassign', self.fresh('undef'), self.simple(INT)]]
        if name == 'plusassign_type':
            v = self.fresh()
            kind = self.i(3)
            if kind == 0:
                return [['assign', v, self.simple(STR)], ['plusassign', v, ['int', 1, 'd']]]
            if kind == 1:
                return [['assign', v, self.simple(INT)], ['plusassign', v, ['str', 'a', 's']]]
            return [['assign', v, ['dict', []]], ['plusassign', v, ['arr', [['int', 1, 'd']]]]]
        if name == 'foreach_varcount':
            a, b = self.fresh('e'), self.fresh('e')
            if self.chance(50):
                return [['foreach', [a, b], ['arr', [['int', 1, 'd']]], [['expr', ['call', 'message', [[None, ['id', a]]]]]]]]
            return [['foreach', [a], ['dict', [[['str', 'k', 's'], ['int', 1, 'd']]]], [['expr', ['call', 'message', [[None, ['id', a]]]]]]]]
        if name == 'foreach_scalar':
            return [['foreach', [self.fresh('e')], self.pick([['int', 3, 'd'], ['str', 'abc', 's'], ['bool', True]]), []]]
        if name == 'if_nonbool':
            cond = self.pick([['str', 'a', 's'], ['arr', []], ['str', '', 's'], ['dict', []]])
            if self.chance(50):
                return [['if', [[cond, []]], None]]
            return [['if', [[['bool', False], []], [cond, []]], []]]
        if name == 'assert_false':
            args = [[None, self.pick([['bool', False], ['bin', '==', ['int', 1, 'd'], ['int', 2, 'd']]])]]
            if self.chance(50):
                args.append([None, ['str', 'boom', 's']])
            return [['expr', ['call', 'assert', args]]]
        if name == 'assert_nonbool':
            return [['expr', ['call', 'assert', [[None, ['str', 'true', 's']]]]]]
        if name == 'assign_void':
            return [['assign', self.fresh(), ['call', 'message', [[None, ['str', 'void', 's']]]]]]
        if name == 'message_kwarg':
            return [['expr', ['call', 'message', [[None, ['str', 'a', 's']], ['sep', ['str', ',', 's']]]]]]
        self.fault = 'unknown_function_stmt'
        return [['expr', ['call', 'zzfunc', []]]]

    # -- statements ----------------------------------------------------------------------------------
    def msg(self, *args: list) -> list:
        return ['expr', ['call', 'message', [[None, a] for a in args]]]

    def message_stmt(self, d: int) -> list:
        n = 1 + self.i(3)
        args = []
        for _ in range(n):
            sv = self.scalar_vars()
            if sv and self.chance(50):
                args.append(['id', self.pick(sv)])
            else:
                args.append(self.e(self.rand_scalar(), d))
        return self.msg(*args)

    def set_type(self, name: str, t: tuple) -> None:
        if self.block_depth:
            self.modified.add(name)
        self.env[name] = t

    def assign_stmt(self, d: int) -> T.List[list]:
        existing = [k for k in self.env if not k.startswith('sp')]
        if self.block_depth:
            # inside blocks only type-preserving reassignments of outer names (keeps the static types sound)
            if existing and self.chance(50):
                name = self.pick(existing)
                e, t = self.expr(base(self.env[name]), d)
                self.set_type(name, base(self.env[name]))
                return [['assign', name, e]]
            name = self.fresh()
            t = self.rand_type()
            e, t2 = self.expr(t, d)
            self.set_type(name, t2)
            return [['assign', name, e]]
        if existing and self.chance(25):
            name = self.pick(existing)
        else:
            name = self.fresh()
        t = self.rand_type()
        e, t2 = self.expr(t, d)
        self.set_type(name, t2)
        if self.chance(10):
            return [['expr', ['call', 'set_variable', [[None, R.lit_of(name)], [None, e]]]]]
        return [['assign', name, e]]

    def plusassign_stmt(self, d: int) -> T.List[list]:
        cands = [k for k, t in self.env.items() if t[0] in ('int', 'str', 'arr', 'dict')]
        if not cands:
            return self.assign_stmt(d)
        name = self.pick(cands)
        t = self.env[name]
        if t[0] == 'int':
            return [['plusassign', name, self.e(INT, d)]]
        if t[0] == 'str':
            return [['plusassign', name, self.e(STR, d)]]
        if t[0] == 'arr':
            el = t[1]
            if el is not None and self.chance(50) and el[0] != 'arr':
                e = self.e(el, d)            # single item
                self.set_type(name, ARR(el, t[2] + 1 if t[2] is not None and not self.loop_depth else None))
                return [['plusassign', name, e]]
            e, t2 = self.expr(ARR(el, None), d)
            n = t[2] + t2[2] if t[2] is not None and t2[2] is not None and not self.loop_depth else None
            self.set_type(name, ARR(el, n))
            return [['plusassign', name, e]]
        e, t2 = self.expr(DICT(t[1], None), d)
        self.set_type(name, DICT(t[1], None))
        return [['plusassign', name, e]]

    def enter_block(self) -> T.Tuple[dict, set]:
        saved = (dict(self.env), self.modified)
        self.modified = set()
        self.block_depth += 1
        return saved

    def leave_block(self, saved: T.Tuple[dict, set]) -> None:
        env, outer_mod = saved
        self.block_depth -= 1
        for name in self.modified:
            if name in env:
                env[name] = base(env[name])
        if self.block_depth:
            outer_mod |= {m for m in self.modified if m in env}
        self.env = env
        self.modified = outer_mod

    def if_stmt(self, d: int, depth: int) -> T.List[list]:
        clauses = []
        n = 1 + (self.i(3) if self.chance(40) else 0)
        for _ in range(n):
            c = self.e(BOOL, d)
            saved = self.enter_block()
            blk = self.block(self.i(3), d, depth - 1)
            self.leave_block(saved)
            clauses.append([c, blk])
        els = None
        if self.chance(50):
            saved = self.enter_block()
            els = self.block(self.i(3), d, depth - 1)
            self.leave_block(saved)
        return [['if', clauses, els]]

    def foreach_stmt(self, d: int, depth: int) -> T.List[list]:
        kind = self.i(4)
        pre: T.List[list] = []
        if kind <= 1:
            el = self.rand_type(1)
            it, t = self.expr(ARR(el, None), d)
            names = [self.fresh('e')]
            vt = [el]
        elif kind == 2:
            el = self.rand_type(1)
            it, t = self.expr(DICT(el, None), d)
            names = [self.fresh('k'), self.fresh('e')]
            vt = [STR, el]
        else:
            a = self.i(3)
            b = a + self.i(6)
            args = [R.lit_of(b)] if a == 0 and self.chance(50) else [R.lit_of(a), R.lit_of(b)] + ([R.lit_of(1 + self.i(3))] if self.chance(40) else [])
            it = ['call', 'range', [[None, x] for x in args]]
            names = [self.fresh('e')]
            vt = [INT]
        saved = self.enter_block()
        self.loop_depth += 1
        for n_, t_ in zip(names, vt):
            self.env[n_] = t_
        body: T.List[list] = []
        if self.chance(60):
            body.append(self.msg(*[['id', n_] for n_, t_ in zip(names, vt) if t_[0] in ('int', 'bool', 'str')] or [['str', 'it', 's']]))
        if self.chance(35):
            # break / continue under a condition on the loop state
            c = self.e(BOOL, 1)
            body.append(['if', [[c, [[self.pick(['break', 'continue'])]]]], None])
        body += self.block(self.i(3), d, depth - 1)
        if self.chance(20) and it[0] == 'id' and it[1] in saved[0]:      # (an injected undefined-name fault is not in the environment)
            # "Trying to assign a new value to the iterated object inside a foreach loop will not affect foreach's control flow"
            e, _ = self.expr(base(saved[0][it[1]]), 0)
            body.append(['plusassign', it[1], e])
            self.modified.add(it[1])
        self.loop_depth -= 1
        self.leave_block(saved)
        return pre + [['foreach', names, it, body]]

    def statement(self, d: int, depth: int) -> T.List[list]:
        self.nodes += 2
        if self.site() and self.fault_at is not None and self.chance(30):
            return self.fault_stmt()
        table = [(30, 'assign'), (14, 'plus'), (22, 'msg'), (3, 'expr'), (2, 'unset')]
        if depth > 0 and not self.exhausted():
            table += [(12, 'if'), (12, 'foreach')]
        k = self.weighted(table)
        if k == 'assign':
            return self.assign_stmt(d)
        if k == 'plus':
            return self.plusassign_stmt(d)
        if k == 'msg':
            return [self.message_stmt(min(d, 2))]
        if k == 'expr':
            return [['expr', self.e(self.rand_type(1), d)]]
        if k == 'unset':
            cands = [n for n in self.env if not n.startswith('sp')]
            if cands and not self.block_depth:
                n = self.pick(cands)
                del self.env[n]
                return [['expr', ['call', 'unset_variable', [[None, R.lit_of(n)]]]]]
            return [self.message_stmt(1)]
        if k == 'if':
            return self.if_stmt(d, depth)
        return self.foreach_stmt(d, depth)

    def block(self, n: int, d: int, depth: int) -> T.List[list]:
        out: T.List[list] = []
        for _ in range(n):
            out += self.statement(d, depth)
        return out


def project_stmt(name: str) -> list:
    return ['expr', ['call', 'project', [[None, ['str', name, 's']], ['meson_version', ['str', '>=1.12.0', 's']]]]]


def contains_subdir(stmts: T.List[list]) -> bool:
    for s in stmts:
        if s[0] == 'expr' and s[1][0] == 'call' and s[1][1] in ('subdir', 'subproject'):
            return True
        if s[0] == 'assign' and s[2][0] == 'call' and s[2][1] == 'subproject':
            return True
        if s[0] == 'if':
            if any(contains_subdir(b) for _, b in s[1]) or (s[2] is not None and contains_subdir(s[2])):
                return True
        if s[0] == 'foreach' and contains_subdir(s[3]):
            return True
    return False


def split_files(g: Gen, stmts: T.List[list]) -> T.Dict[str, T.List[list]]:
    """file-splitting metamorphosis: move runs of top-level statements (or a branch of a top-level if)
    behind subdir() calls; nested once"""
    files: T.Dict[str, T.List[list]] = {}
    nsplit = g.i(3)
    top = list(stmts)
    dcount = 0
    for _ in range(nsplit):
        if not top:
            break
        dcount += 1
        dname = f'd{dcount}'
        a = g.i(len(top))
        st_a = top[a]
        if st_a[0] == 'if' and g.chance(40):
            ci = g.i(len(st_a[1]))
            blk = st_a[1][ci][1]
            if contains_subdir(blk):
                continue
            files[dname + '/meson.build'] = blk
            st_a[1][ci][1] = [['expr', ['call', 'subdir', [[None, ['str', dname, 's']]]]]]
            continue
        b = a + 1 + g.i(len(top) - a)
        seg = top[a:b]
        if contains_subdir(seg):
            continue
        inner_path = dname + '/meson.build'
        if len(seg) >= 2 and g.chance(35):
            # nested: a run inside the moved run goes one level deeper
            x = g.i(len(seg))
            y = x + 1 + g.i(len(seg) - x)
            files[dname + '/in/meson.build'] = seg[x:y]
            seg = seg[:x] + [['expr', ['call', 'subdir', [[None, ['str', 'in', 's']]]]]] + seg[y:]
        files[inner_path] = seg
        top = top[:a] + [['expr', ['call', 'subdir', [[None, ['str', dname, 's']]]]]] + top[b:]
    files['meson.build'] = top
    return files


def gen_program(draw: T.Any, mode: str) -> dict:
    """mode: 'ok' (no fault), 'fault' (one injected fault), 'sub' (with a subproject)"""
    fault_at = draw(st.integers(0, 50)) if mode == 'fault' else None
    g = Gen(draw, fault_at)
    files: T.Dict[str, T.List[list]] = {}
    head: T.List[list] = []
    want_sub = mode == 'sub' or g.chance(12)
    if want_sub:
        sg = Gen(draw, None, prefix='w')
        sg.max_nodes = 50
        sstm = sg.block(1 + sg.i(4), 2, 1)
        subfault = None
        if mode == 'fault' and g.chance(15):
            # the subproject cannot see the parent's variables
            pre = g.block(1, 1, 0)
            head += pre
            names = list(g.env)
            if names:
                sstm.append(['expr', ['call', 'message', [[None, ['id', names[0]]]]]])
                subfault = 'subproject_reads_parent'
        files['subprojects/sp0/meson.build'] = [project_stmt('sp0')] + sstm
        head += g.block(g.i(2), 1, 0)
        head.append(['assign', 'sp0', ['call', 'subproject', [[None, ['str', 'sp0', 's']]]]])
        g.subs['sp0'] = {k: v for k, v in sg.env.items()}
        if subfault:
            g.fault = subfault
        elif mode == 'fault' and g.chance(15) and sg.env:
            # the parent cannot see the subproject's variables directly
            g.fault = 'parent_reads_subproject_var'
            head.append(['expr', ['call', 'message', [[None, ['str', 'x', 's']], [None, ['id', list(sg.env)[0]]]]]])
    body = g.block(2 + g.i(7), 3, 2)
    stmts = head + body
    if g.chance(40):
        files.update(split_files(g, stmts))
        files['meson.build'] = [project_stmt('p')] + files['meson.build']
    else:
        files['meson.build'] = [project_stmt('p')] + stmts
    classes = ['fault:' + g.fault] if g.fault else []
    if want_sub:
        classes.append('subproject')
    if len(files) > (2 if want_sub else 1):
        classes.append('subdir-split')
    return {'files': files, 'fault': g.fault, 'classes': classes}


def style_strategy() -> T.Any:
    return st.one_of(st.just([]), st.lists(st.integers(0, 11), max_size=120))


@st.composite
def programs(draw: T.Any, mode: str) -> dict:
    p = gen_program(draw, mode)
    p['style'] = draw(style_strategy())
    return p


# ---------------------------------------------------------------------------------------------------
# dedicated shape families

ERRORING = [
    ['bin', '/', ['int', 1, 'd'], ['int', 0, 'd']],
    ['id', 'undefined_name'],
    ['idx', ['arr', [['int', 1, 'd']]], ['int', 5, 'd']],
    ['idx', ['dict', [[['str', 'a', 's'], ['int', 1, 'd']]]], ['str', 'b', 's']],
    ['meth', ['str', 'x', 's'], 'to_int', []],
    ['bin', '+', ['int', 1, 'd'], ['str', 'a', 's']],
    ['not', ['str', 'a', 's']],
    ['bin', '==', ['int', 1, 'd'], ['str', '1', 's']],
    ['call', 'get_variable', [[None, ['str', 'undefined_name', 's']]]],
    ['meth', ['arr', []], 'get', [[None, ['int', 0, 'd']]]],
    ['call', 'message', [[None, ['str', 'never', 's']]]],
]


def family_shortcircuit(draw: T.Any) -> dict:
    g = Gen(draw)
    stmts: T.List[list] = []
    fault = None
    n = 1 + g.i(4)
    for idx in range(n):
        bad = copy_ast(g.pick(ERRORING))
        kind = bad[0]
        # the erroring operand must be usable where a boolean / value is expected syntactically; its type never matters
        # because it is never evaluated
        form = g.i(9)
        reached = g.chance(15) and fault is None
        v = g.fresh()
        tval, fval = ['bool', True], ['bool', False]
        guard_t = g.e(BOOL, 1) if g.chance(30) else None
        if form == 0:
            e = ['bin', 'and', fval if not reached else tval, bad]
        elif form == 1:
            e = ['bin', 'or', tval if not reached else fval, bad]
        elif form == 2:
            e = ['tern', tval if not reached else fval, ['int', 1, 'd'], bad]
        elif form == 3:
            e = ['tern', fval if not reached else tval, bad, ['int', 2, 'd']]
        elif form == 4:
            e = ['bin', 'or', ['bin', 'and', fval if not reached else tval, bad], g.e(BOOL, 1)]
        elif form == 5:
            e = ['bin', 'and', ['not', tval if not reached else fval], ['paren', ['bin', 'or', bad, tval]]]
        elif form == 6:
            e = ['bin', 'and', ['bin', 'in', ['int', 3, 'd'], ['arr', [['int', 1, 'd'], ['int', 2, 'd']] + ([['int', 3, 'd']] if reached else [])]], bad]
        elif form == 7:
            stmts.append(['if', [[tval if not reached else fval, [g.msg(['str', 'taken', 's'])]], [bad, [g.msg(['str', 'elif', 's'])]]], [g.msg(['str', 'else', 's'])]])
            if reached:
                fault = 'shortcircuit_reached'
            continue
        else:
            stmts.append(['if', [[['bin', 'and', fval if not reached else tval, bad], [g.msg(['str', 'body', 's'])]]], None])
            stmts.append(g.msg(['str', 'after', 's'], ['int', idx, 'd']))
            if reached:
                fault = 'shortcircuit_reached'
            continue
        if reached:
            fault = 'shortcircuit_reached'
        stmts.append(g.msg(['str', 'before', 's'], ['int', idx, 'd']))
        stmts.append(['assign', v, e])
        stmts.append(g.msg(['str', 'after', 's'], ['int', idx, 'd']))
        del kind, guard_t
    return {'files': {'meson.build': [project_stmt('p')] + stmts}, 'fault': fault, 'classes': [], 'family': 'shortcircuit'}


def copy_ast(x: T.Any) -> T.Any:
    if isinstance(x, list):
        return [copy_ast(y) for y in x]
    return x


def family_alias(draw: T.Any) -> dict:
    g = Gen(draw)
    stmts: T.List[list] = []
    t = g.pick([ARR(INT, None), ARR(STR, None), DICT(INT, None), ARR(ARR(INT, None), None), DICT(ARR(INT, None), None), STR, INT,
                ARR(None, None), DICT(None, None)])
    a = g.fresh('a')
    e, ta = g.expr(t, 2)
    stmts.append(['assign', a, e])
    g.env[a] = ta
    aliases = [a]
    script: T.List[int] = []
    focus: T.Optional[str] = None
    for _ in range(2 + g.i(6)):
        if not script:
            focus = None
        k = script.pop(0) if script else g.i(15)
        src = focus or g.pick(aliases)
        if k >= 12:
            # burst: "mutate", take an alias in one of the five ways, "mutate" again - with nothing else in between
            # (an implementation that updates a value in place when it believes nobody else holds it is caught here)
            script = [5, g.pick([0, 1, 2, 3, 4]), 5, 5][:3 + g.i(2)]
            focus = src
            continue
        if k == 0:
            b = g.fresh('b')
            stmts.append(['assign', b, ['id', src]])
            g.env[b] = base(g.env[src])
            aliases.append(b)
        elif k == 1:
            b = g.fresh('c')
            stmts.append(['assign', b, ['arr', [['id', src], ['id', src]]]])
            g.env[b] = ARR(base(g.env[src]), 2)
        elif k == 2:
            b = g.fresh('d')
            stmts.append(['assign', b, ['dict', [[['str', 'k', 's'], ['id', src]]]]])
            g.env[b] = DICT(base(g.env[src]), ('k',))
        elif k == 3:
            b = g.fresh('s')
            stmts.append(['expr', ['call', 'set_variable', [[None, ['str', b, 's']], [None, ['id', src]]]]])
            g.env[b] = base(g.env[src])
            aliases.append(b)
        elif k == 4:
            b = g.fresh('g')
            stmts.append(['assign', b, ['call', 'get_variable', [[None, ['str', src, 's']]]]])
            g.env[b] = base(g.env[src])
            aliases.append(b)
        elif k <= 8:
            # "mutation" through one alias
            tgt = focus or g.pick(aliases)
            tt = g.env[tgt]
            if tt[0] == 'arr':
                add = g.e(ARR(tt[1], None), 1) if g.chance(50) or tt[1] is None else g.e(tt[1], 1)
                if tt[1] is not None and tt[1][0] == 'arr' and add[0] != 'arr':
                    add = ['arr', [add]]
            elif tt[0] == 'dict':
                add = ['dict', [[['str', g.pick(['zz', 'k', 'new']), 's'], g.e(tt[1] or INT, 1)]]]
            elif tt[0] == 'str':
                add = g.e(STR, 1)
            else:
                add = g.e(INT, 1)
            if focus is not None or g.chance(70):
                stmts.append(['plusassign', tgt, add])
            else:
                stmts.append(['assign', tgt, ['bin', '+', ['id', tgt], add if tt[0] != 'arr' or add[0] == 'arr' else ['arr', [add]]]])
            g.env[tgt] = base(tt)
        elif k == 9 and g.env[src][0] in ('arr', 'dict'):
            # loop over one alias while "mutating" it and another one
            other = g.pick(aliases)
            names = [g.fresh('e')] if g.env[src][0] == 'arr' else [g.fresh('k'), g.fresh('e')]
            body: T.List[list] = []
            to = g.env[other]
            if to[0] == 'arr':
                body.append(['plusassign', other, ['arr', []] if to[1] is None else ['arr', [g.e(to[1], 0)]]])
            elif to[0] == 'dict':
                body.append(['plusassign', other, ['dict', [[['str', 'loop', 's'], g.e(to[1] or INT, 0)]]]])
            ts = g.env[src]
            if ts[0] == 'arr':
                body.append(['plusassign', src, ['arr', []] if ts[1] is None else ['arr', [g.e(ts[1], 0)]]])
            else:
                body.append(['plusassign', src, ['dict', [[['str', 'seen', 's'], g.e(ts[1] or INT, 0)]]]])
            body.append(g.msg(['str', 'it', 's'], ['meth', ['id', src], 'length', []] if ts[0] == 'arr' else ['meth', ['meth', ['id', src], 'keys', []], 'length', []]))
            stmts.append(['foreach', names, ['id', src], body])
            g.env[src] = base(ts)
            g.env[other] = base(to)
        elif k == 10:
            # the loop variable is a copy: changing it does not change the container
            if g.env[src][0] == 'arr' and g.env[src][1] is not None and g.env[src][1][0] in ('int', 'str', 'arr'):
                ev_ = g.fresh('e')
                el = g.env[src][1]
                add = ['int', 1, 'd'] if el[0] == 'int' else ['str', 'x', 's'] if el[0] == 'str' else ['arr', []]
                stmts.append(['foreach', [ev_], ['id', src], [['plusassign', ev_, add], g.msg(['str', 'e', 's'], ['id', ev_])] if el[0] != 'arr'
                              else [['plusassign', ev_, ['arr', [g.e(el[1] or INT, 0)]]], g.msg(['meth', ['id', ev_], 'length', []])]])
        else:
            x = g.fresh('x')
            e2, t2 = g.expr(base(g.env[src]), 1)
            stmts.append(['assign', x, e2])
            g.env[x] = t2
    return {'files': {'meson.build': [project_stmt('p')] + stmts}, 'fault': None, 'classes': [], 'family': 'alias'}


def family_precedence(draw: T.Any) -> dict:
    g = Gen(draw)

    def ilit() -> list:
        v = draw(st.integers(-9, 9))
        return R.lit_of(v)

    def itree(d: int) -> list:
        if d <= 0 or g.i(6) == 0:
            return ilit()
        k = g.i(12)
        if k < 6:
            return ['bin', g.pick(['+', '-', '*']), itree(d - 1), itree(d - 1)]
        if k < 9:
            dv = draw(st.integers(1, 7)) * g.pick([1, -1])
            return ['bin', g.pick(['/', '%']), itree(d - 1), R.lit_of(dv)]
        if k == 9:
            return ['neg', itree(d - 1)]
        if k == 10:
            return ['meth', ['meth', itree(d - 1), 'to_string', []], 'to_int', []]
        return ['idx', ['arr', [itree(d - 1), itree(d - 1)]], R.lit_of(g.pick([0, 1, -1, -2]))]

    def btree(d: int) -> list:
        if d <= 0 or g.i(7) == 0:
            return ['bool', bool(g.i(2))]
        k = g.i(12)
        if k < 5:
            return ['bin', g.pick(['and', 'or']), btree(d - 1), btree(d - 1)]
        if k < 7:
            return ['not', btree(d - 1)]
        if k < 10:
            return ['bin', g.pick(['<', '<=', '>', '>=', '==', '!=']), itree(d - 1), itree(d - 1)]
        if k == 10:
            return ['bin', g.pick(['==', '!=']), btree(d - 1), btree(d - 1)]
        return ['bin', g.pick(['in', 'not in']), itree(d - 1), ['arr', [itree(d - 2), itree(d - 2)]]]

    stmts: T.List[list] = []
    for _ in range(1 + g.i(4)):
        v = g.fresh()
        k = g.i(5)
        if k < 2:
            stmts.append(['assign', v, itree(4)])
        elif k < 4:
            stmts.append(['assign', v, btree(4)])
        else:
            stmts.append(['assign', v, ['tern', btree(3), itree(3), itree(3)]])
        stmts.append(g.msg(['id', v]))
    return {'files': {'meson.build': [project_stmt('p')] + stmts}, 'fault': None, 'classes': [], 'family': 'precedence'}


def family_escapes(draw: T.Any) -> dict:
    g = Gen(draw)
    stmts: T.List[list] = []
    for _ in range(1 + g.i(4)):
        n = 1 + g.i(6)
        raw = ''
        for _ in range(n):
            c = g.i(10)
            if c < 3:
                raw += g.pick(PLAIN)
            elif c < 8:
                raw += g.pick(ESCAPES)
            else:
                raw += g.pick(NONESC)
        nb = len(raw) - len(raw.rstrip('\\'))
        if nb % 2 == 1:
            raw += 'n'
        rawm = raw
        while "'''" in rawm:
            rawm = rawm.replace("'''", "''")
        while rawm.endswith("'") or rawm.endswith('\\'):
            rawm = rawm[:-1]
        a, b = g.fresh('s'), g.fresh('m')
        stmts.append(['assign', a, ['str', raw, 's']])
        stmts.append(['assign', b, ['str', rawm, 'm']])
        k = g.i(4)
        if k == 0:
            stmts.append(g.msg(['id', a]))
        elif k == 1:
            stmts.append(g.msg(['id', b]))
        elif k == 2:
            stmts.append(g.msg(['bin', '==', ['id', a], ['id', b]]))
        else:
            stmts.append(['assign', g.fresh('f'), ['str', '<@' + a + '@|' + raw.replace('@', '') + '>', 'fs']])
    return {'files': {'meson.build': [project_stmt('p')] + stmts}, 'fault': None, 'classes': [], 'family': 'escapes'}


def family_floordiv(draw: T.Any) -> dict:
    g = Gen(draw)
    stmts: T.List[list] = []
    for _ in range(1 + g.i(5)):
        big = g.chance(20)
        a = draw(st.integers(-2 ** 66, 2 ** 66)) if big else draw(st.integers(-40, 40))
        b = draw(st.integers(-2 ** 40, 2 ** 40)) if big and g.chance(50) else draw(st.integers(-9, 9))
        if b == 0:
            b = -3
        q, r = g.fresh('q'), g.fresh('r')
        la, lb = R.lit_of(a), R.lit_of(b)
        stmts.append(['assign', q, ['bin', '/', la, lb]])
        stmts.append(['assign', r, ['bin', '%', la, lb]])
        if g.chance(50):
            stmts.append(g.msg(['id', q], ['id', r], ['bin', '==', ['bin', '+', ['bin', '*', ['id', q], lb], ['id', r]], la]))
        if g.chance(30):
            stmts.append(['assign', g.fresh('c'), ['bin', g.pick(['/', '%']), ['bin', g.pick(['/', '%', '*']), la, lb], R.lit_of(draw(st.integers(1, 5)) * g.pick([1, -1]))]])
    return {'files': {'meson.build': [project_stmt('p')] + stmts}, 'fault': None, 'classes': [], 'family': 'floordiv'}


def family_sortedkeys(draw: T.Any) -> dict:
    g = Gen(draw)
    stmts: T.List[list] = []
    pool = KEYS + ['b10', 'b9', 'B', 'aB', 'Ab', 'zeta', 'alpha', 'Alpha', '~', '!', 'é', 'ü', 'z ', ' z', '日', '😀', 'ａ']
    keys: T.List[str] = []
    for _ in range(1 + g.i(7)):
        k = g.pick(pool)
        if k not in keys:
            keys.append(k)
    d = g.fresh('d')
    stmts.append(['assign', d, ['dict', [[R.lit_of(k), R.lit_of(i)] for i, k in enumerate(keys)]]])
    more = [k for k in [g.pick(pool) for _ in range(g.i(4))] if k not in keys]
    more = list(dict.fromkeys(more))
    if more:
        stmts.append(['plusassign', d, ['dict', [[R.lit_of(k), R.lit_of(100 + i)] for i, k in enumerate(more)]]])
    stmts.append(['assign', g.fresh('ks'), ['meth', ['id', d], 'keys', []]])
    stmts.append(['assign', g.fresh('vs'), ['meth', ['id', d], 'values', []]])
    kk, vv = g.fresh('k'), g.fresh('e')
    acc = g.fresh('order')
    stmts.append(['assign', acc, ['arr', []]])
    stmts.append(['foreach', [kk, vv], ['id', d], [['plusassign', acc, ['id', kk]], g.msg(['id', kk], ['id', vv])]])
    k2 = g.fresh('k')
    stmts.append(['foreach', [k2], ['meth', ['id', d], 'keys', []], [g.msg(['id', k2], ['idx', ['id', d], ['id', k2]])]])
    return {'files': {'meson.build': [project_stmt('p')] + stmts}, 'fault': None, 'classes': [], 'family': 'sortedkeys'}


FAMILIES = {'shortcircuit': family_shortcircuit, 'alias': family_alias, 'precedence': family_precedence,
            'escapes': family_escapes, 'floordiv': family_floordiv, 'sortedkeys': family_sortedkeys}


@st.composite
def family(draw: T.Any, name: str) -> dict:
    p = FAMILIES[name](draw)
    p['style'] = draw(style_strategy())
    return p
