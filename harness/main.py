"""./vcheck Cxx [--tier quick|thorough] [--replay FILE]"""
from __future__ import annotations

import argparse
import glob
import importlib
import json
import os
import sys
import traceback

sys.path.insert(0, os.path.dirname(os.path.dirname(os.path.abspath(__file__))))

from harness import core  # noqa: E402


def find_module(prop: str) -> str:
    pat = os.path.join(core.VERIF, 'checks', prop.lower() + '_*.py')
    hits = sorted(glob.glob(pat))
    if not hits:
        raise core.HarnessError(f'no check module for {prop}')
    return 'checks.' + os.path.basename(hits[0])[:-3]


def main() -> int:
    try:   # debugging aid: `kill -USR1 <pid>` dumps the Python stack of a (worker) process to stderr
        import faulthandler
        import signal
        faulthandler.register(signal.SIGUSR1, all_threads=True)
    except Exception:
        pass
    ap = argparse.ArgumentParser()
    ap.add_argument('prop')
    ap.add_argument('--tier', default=os.environ.get('VERIF_TIER', 'quick'), choices=['quick', 'thorough'])
    ap.add_argument('--replay', default=None)
    ap.add_argument('--seed', type=int, default=None)
    a = ap.parse_args()
    seed = a.seed if a.seed is not None else int(os.environ.get('VERIF_SEED', '1') or '1')
    prop = a.prop.upper()
    ctx = core.Ctx(prop, a.tier, seed)
    try:
        core.repo_on_path()
        mod = importlib.import_module(find_module(prop))
        ctx.level = getattr(mod, 'LEVEL', 'exploration')
        ctx.rule = getattr(mod, 'RULE', '')
        ctx.assumptions = list(getattr(mod, 'ASSUMPTIONS', []))
        if a.replay:
            with open(a.replay, encoding='utf-8') as fh:
                doc = json.load(fh)
            f = mod.replay(ctx, doc['case'], doc)
            if f is None:
                print(f'replay: property held on {a.replay}')
                return 0
            known, _ = core.load_known()
            if (prop, f.sig) in known:
                print(f'KNOWN-FINDING: property={prop} {f.sig}: {known[(prop, f.sig)].get("what", "")}')
                return 0
            print(f'VIOLATION property={prop} replay={a.replay}')
            print(f'  signature: {f.sig}')
            print('  ' + f.msg.replace('\n', '\n  ')[:3000])
            return 1
        if hasattr(mod, 'selftest'):
            mod.selftest(ctx)
        # saved regression cases first
        regress = sorted(glob.glob(os.path.join(core.VERIF, 'replays', 'regress', prop + '-*.json')))
        for path in regress:
            with open(path, encoding='utf-8') as fh:
                doc = json.load(fh)
            f = mod.replay(ctx, doc['case'], doc)
            ctx.ev.event('regress_replayed')
            ctx.fail(f)
        mod.run(ctx)
        return core.finish(ctx)
    except core.HarnessError as e:
        print(f'HARNESS-ERROR property={prop}: {e}', file=sys.stderr)
        return 2
    except SystemExit:
        raise
    except BaseException:
        print(f'HARNESS-ERROR property={prop}: unexpected exception in the check machinery', file=sys.stderr)
        traceback.print_exc()
        return 2


if __name__ == '__main__':
    sys.exit(main())
