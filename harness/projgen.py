"""Project-model generator: a Hypothesis strategy producing a JSON-able *model* of a meson project
(target graph with generated headers/sources, custom-target chains, generators, configure_file,
subdirs, subproject, tests, run/alias targets, odd names) and a writer that materialises it.

The model is acyclic by construction (a target only refers to earlier targets) and carries what
the checks need as expectations: which targets are build_by_default / installed, which targets a
test runs or depends on, and which output paths are *certain* to collide.

Everything is plain data so cases can be replayed from JSON.
"""
from __future__ import annotations

import os
import typing as T

from hypothesis import strategies as st

ODD_NAMES = ['a', 'b', 'foo', 'bar', 'foo bar', 'x+y', 'a.b', 'ünï', 'lib', 'libfoo', 'foo-1', 'Foo', 'z_z', 'q@q', '1st', 'c:d', 'p$q']
SAFE_NAMES = ['alpha', 'beta', 'gamma', 'delta', 'eps', 'zeta', 'eta', 'theta', 'iota', 'kappa', 'lam', 'mu']
FORBIDDEN = ['all', 'clean', 'test', 'install', 'benchmark', 'dist', 'uninstall', 'reconfigure', 'phony', 'PHONY',
             'build.ninja', 'meson-foo', 'meson-internal__x', 'clean-ctlist', 'coverage']
BUILD_KINDS = ['exe', 'static', 'shared', 'both', 'library']
LIB_KINDS = ['static', 'shared', 'both', 'library']

GEN_PY = r'''#!/usr/bin/env python3
# deterministic generator tool: gen.py --out O.. --in I.. [--read R..] [--tag T]
# every --in / --read file is really opened (so a missing dependency edge makes the step fail).
import sys, os, hashlib, re
args = sys.argv[1:]
mode = None
outs, ins, reads, tag = [], [], [], ''
for a in args:
    if a in ('--out', '--in', '--read', '--tag', '--depfile'):
        mode = a
        continue
    if mode == '--out': outs.append(a)
    elif mode == '--in': ins.append(a)
    elif mode == '--read': reads.append(a)
    elif mode == '--tag': tag = a
    elif mode == '--depfile': depfile = a
h = hashlib.sha1(tag.encode())
for p in ins + reads:
    with open(p, 'rb') as f:
        h.update(f.read())
n = int(h.hexdigest()[:6], 16)
for o in outs:
    base = os.path.basename(o)
    sym = re.sub(r'[^A-Za-z0-9_]', '_', base.rsplit('.', 1)[0])
    if sym[:1].isdigit() or not sym: sym = '_' + sym
    d = os.path.dirname(o)
    if d: os.makedirs(d, exist_ok=True)
    with open(o, 'w') as f:
        if base.endswith('.h'):
            f.write('#pragma once\n#define GEN_%s %d\n' % (sym, n))
        elif base.endswith('.c'):
            f.write('int gen_%s(void) { return %d; }\n' % (sym, n))
        else:
            f.write('%s %d\n' % (base, n))
'''


def _sym(s: str) -> str:
    out = ''.join(c if (c.isascii() and c.isalnum()) or c == '_' else '_' for c in s)
    if not out or out[0].isdigit():
        out = '_' + out
    return out


@st.composite
def project_models(draw: T.Any, profile: str = 'graph', max_targets: int = 10, odd_names: bool = True,
                   allow_collisions: bool = True, allow_subproject: bool = True) -> dict:
    """profile: 'graph' (C04: many kinds, odd names, collisions), 'deps' (C05: every project has generated inputs),
    'determinism' (C06), 'intro' (C15)."""
    names_pool = (ODD_NAMES if odd_names else []) + SAFE_NAMES
    ndirs = draw(st.integers(0, 2))
    dirs = [''] + [['sub1'], ['sub1', 'sub1/deep'], ['sub1', 'sub2']][draw(st.integers(0, 2))][:ndirs] if ndirs else ['']
    n = draw(st.integers(1, max_targets))
    targets: T.List[dict] = []
    used: T.Set[T.Tuple[str, str]] = set()     # (dir, name) pairs already used (any kind)
    collision: T.Optional[str] = None
    want_collision = allow_collisions and draw(st.integers(0, 9)) == 0
    options = {
        'layout': draw(st.sampled_from(['mirror', 'mirror', 'flat'])),
        'default_library': draw(st.sampled_from(['shared', 'static', 'both'])),
        'unity': draw(st.sampled_from(['off', 'off', 'on', 'subprojects'])),
        'b_staticpic': draw(st.booleans()),
    }

    def fresh_name(d: str) -> str:
        for _ in range(30):
            nm = draw(st.sampled_from(names_pool))
            if all((dd, nm) not in used for dd in dirs):   # unique across all dirs (flat layout safe)
                return nm
        i = len(used)
        return f'tgt{i}'

    def outputs_of(t: dict) -> T.List[str]:
        k, nm = t['kind'], t['name']
        if k == 'exe':
            return [nm]
        if k == 'static':
            return [f'lib{nm}.a']
        if k == 'shared':
            return [f'lib{nm}.so']
        if k in ('both', 'library'):
            return [f'lib{nm}.a', f'lib{nm}.so']
        if k == 'ct':
            return list(t['outputs'])
        if k in ('run', 'alias'):
            return [nm]
        return []

    out_names: T.Set[str] = set()   # output basenames used anywhere (so flat layout never collides by accident)

    for i in range(n):
        d = draw(st.sampled_from(dirs))
        earlier_build = [t for t in targets if t['kind'] in BUILD_KINDS]
        earlier_libs = [t for t in targets if t['kind'] in LIB_KINDS]
        earlier_ct = [t for t in targets if t['kind'] == 'ct']
        earlier_exe = [t for t in targets if t['kind'] == 'exe']
        kinds = ['exe', 'exe', 'static', 'shared', 'ct', 'ct', 'library', 'both']
        if profile in ('graph', 'intro', 'determinism'):
            kinds += ['cfg', 'run', 'alias']
        if profile == 'deps':
            kinds += ['ct', 'cfg']
        kind = draw(st.sampled_from(kinds))
        if kind in ('run', 'alias') and not earlier_build:
            kind = 'exe'
        t: dict = {'id': f't{i}', 'kind': kind, 'dir': d}
        if kind in BUILD_KINDS:
            t['name'] = fresh_name(d)
            t['nsrc'] = draw(st.integers(1, 2))
            t['link_with'] = [x['id'] for x in draw(st.lists(st.sampled_from(earlier_libs), max_size=2, unique_by=lambda x: x['id']))] if earlier_libs else []
            t['link_whole'] = []
            stat = [x for x in earlier_libs if x['kind'] == 'static' and x['id'] not in t['link_with']]
            if stat and draw(st.integers(0, 3)) == 0:
                t['link_whole'] = [draw(st.sampled_from(stat))['id']]
            # generated inputs
            t['gen_headers'] = []     # [ct id, output index] listed in sources, -include'd
            t['gen_sources'] = []     # [ct id, output index] of .c outputs compiled in
            t['dep_headers'] = []     # via declare_dependency(sources: ...)
            heads = [(c['id'], j) for c in earlier_ct for j, o in enumerate(c['outputs']) if o.endswith('.h')]
            srcs = [(c['id'], j) for c in earlier_ct for j, o in enumerate(c['outputs']) if o.endswith('.c')]
            if heads and draw(st.booleans()):
                hh = draw(st.sampled_from(heads))
                (t['dep_headers'] if draw(st.integers(0, 2)) == 0 else t['gen_headers']).append(list(hh))
            if srcs and draw(st.booleans()):
                t['gen_sources'].append(list(draw(st.sampled_from(srcs))))
            # a generated .c compiled here and again in a library pulled in whole defines its symbol twice
            # (ld: multiple definition): such a project does not build whatever meson does
            byid = {x['id']: x for x in targets}
            whole, todo = [], list(t['link_whole'])
            while todo:
                w = byid[todo.pop()]
                whole.append(w)
                todo += w.get('link_whole', [])
            if any(gs in w.get('gen_sources', []) for w in whole for gs in t['gen_sources']):
                t['link_whole'] = []
            t['generator'] = draw(st.integers(0, 3)) == 0
            cfgs = [x for x in targets if x['kind'] == 'cfg']
            t['cfg_headers'] = [draw(st.sampled_from(cfgs))['id']] if cfgs and draw(st.booleans()) else []
            t['build_by_default'] = draw(st.sampled_from([True, True, True, False]))
            t['install'] = draw(st.sampled_from([False, False, True]))
            if kind != 'exe' and draw(st.integers(0, 4)) == 0 and kind in ('shared', 'library', 'both'):
                t['version'] = '1.2.3'
        elif kind == 'ct':
            t['name'] = fresh_name(d)
            nout = draw(st.integers(1, 3))
            outs = []
            for j in range(nout):
                ext = draw(st.sampled_from(['.h', '.c', '.txt', '.h']))
                base = t['name'] + f'_{i}_{j}'
                outs.append(base + ext)
            t['outputs'] = outs
            t['inputs'] = []          # refs: ['src'] own source file or [ct id, idx]
            t['depends'] = []         # ct ids read via --read but declared only through depends:
            t['depend_files'] = draw(st.booleans())
            t['src_input'] = draw(st.booleans())
            if earlier_ct and draw(st.booleans()):
                c = draw(st.sampled_from(earlier_ct))
                t['inputs'].append([c['id'], draw(st.integers(0, len(c['outputs']) - 1))])
            if earlier_ct and draw(st.integers(0, 2)) == 0:
                c = draw(st.sampled_from(earlier_ct))
                t['depends'].append(c['id'])
            t['tool_exe'] = None      # exe id used as the command (built tool)
            if earlier_exe and draw(st.integers(0, 3)) == 0:
                t['tool_exe'] = draw(st.sampled_from(earlier_exe))['id']
            t['build_by_default'] = draw(st.sampled_from([False, True, False]))
            t['install'] = draw(st.integers(0, 4)) == 0
            t['capture'] = False
            t['depfile'] = draw(st.integers(0, 4)) == 0
        elif kind == 'cfg':
            t['name'] = f'conf_{i}.h'
            t['mode'] = draw(st.sampled_from(['configuration', 'copy']))
        elif kind == 'run':
            t['name'] = fresh_name('')
            t['dir'] = d
            t['exe'] = draw(st.sampled_from(earlier_build))['id'] if any(x['kind'] == 'exe' for x in earlier_build) and False else None
            ex = [x for x in earlier_build if x['kind'] == 'exe']
            t['exe'] = draw(st.sampled_from(ex))['id'] if ex and draw(st.booleans()) else None
            t['depends'] = [draw(st.sampled_from(earlier_build + earlier_ct))['id']] if draw(st.booleans()) else []
        elif kind == 'alias':
            t['name'] = fresh_name('')
            t['deps'] = [x['id'] for x in draw(st.lists(st.sampled_from(earlier_build + earlier_ct), min_size=1, max_size=3, unique_by=lambda x: x['id']))]
        if not _dir_allowed(targets, t, d):
            t['dir'] = d = ''
        used.add((d, t['name']))
        for dd in dirs:
            used.add((dd, t['name']))
        targets.append(t)

    # -- deliberate, certain collisions / forbidden names ---------------------
    if want_collision and targets:
        mode = draw(st.sampled_from(['dup_ct_output', 'ct_vs_exe', 'forbidden', 'dup_name', 'run_vs_exe']))
        i = len(targets)
        if mode == 'dup_ct_output':
            cts = [t for t in targets if t['kind'] == 'ct']
            if cts:
                c = draw(st.sampled_from(cts))
                targets.append({'id': f't{i}', 'kind': 'ct', 'dir': c['dir'], 'name': f'dupct{i}', 'outputs': [c['outputs'][0]],
                                'inputs': [], 'depends': [], 'depend_files': False, 'src_input': True, 'tool_exe': None,
                                'build_by_default': False, 'install': False, 'capture': False, 'depfile': False})
                collision = f'two custom targets produce {c["outputs"][0]!r} in dir {c["dir"]!r}'
        elif mode == 'ct_vs_exe':
            exes = [t for t in targets if t['kind'] == 'exe']
            if exes:
                e = draw(st.sampled_from(exes))
                targets.append({'id': f't{i}', 'kind': 'ct', 'dir': e['dir'], 'name': f'clash{i}', 'outputs': [e['name']],
                                'inputs': [], 'depends': [], 'depend_files': False, 'src_input': True, 'tool_exe': None,
                                'build_by_default': False, 'install': False, 'capture': False, 'depfile': False})
                collision = f'custom target output {e["name"]!r} equals executable output in dir {e["dir"]!r}'
        elif mode == 'forbidden':
            nm = draw(st.sampled_from(FORBIDDEN))
            kind = draw(st.sampled_from(['exe', 'ct', 'run', 'static']))
            if nm in ('meson-foo', 'meson-internal__x') or True:
                t = {'id': f't{i}', 'kind': kind, 'dir': '', 'name': nm}
                if kind in BUILD_KINDS:
                    t.update({'nsrc': 1, 'link_with': [], 'link_whole': [], 'gen_headers': [], 'gen_sources': [], 'dep_headers': [],
                              'generator': False, 'cfg_headers': [], 'build_by_default': True, 'install': False})
                elif kind == 'ct':
                    t.update({'outputs': [f'forb_{i}.txt'], 'inputs': [], 'depends': [], 'depend_files': False, 'src_input': True,
                              'tool_exe': None, 'build_by_default': False, 'install': False, 'capture': False, 'depfile': False})
                else:
                    t.update({'exe': None, 'depends': []})
                targets.append(t)
                collision = f'reserved target name {nm!r} ({kind}) in the root directory'
        elif mode == 'dup_name':
            bts = [t for t in targets if t['kind'] in BUILD_KINDS or t['kind'] == 'ct']
            if bts:
                b = draw(st.sampled_from(bts))
                t = dict(b)
                t['id'] = f't{i}'
                if t['kind'] == 'ct':
                    t['outputs'] = [f'dupname_{i}.txt']
                    t['inputs'] = []
                    t['depends'] = []
                    t['tool_exe'] = None
                targets.append(t)
                collision = f'second {b["kind"]} named {b["name"]!r} in dir {b["dir"]!r}'
        elif mode == 'run_vs_exe':
            exes = [t for t in targets if t['kind'] == 'exe' and t['dir'] == '']
            if exes and options['layout'] == 'mirror':
                e = draw(st.sampled_from(exes))
                targets.append({'id': f't{i}', 'kind': 'run', 'dir': '', 'name': e['name'], 'exe': None, 'depends': []})
                collision = f'run_target named like the root executable {e["name"]!r}'

    # -- tests -------------------------------------------------------------
    tests: T.List[dict] = []
    exes = [t for t in targets if t['kind'] == 'exe' and t['name'] not in FORBIDDEN]
    deps_pool = [t for t in targets if t['kind'] in BUILD_KINDS + ['ct'] and t['name'] not in FORBIDDEN]
    if exes:
        for k in range(draw(st.integers(0, 3))):
            e = draw(st.sampled_from(exes))
            tests.append({'name': f'test{k}', 'exe': e['id'], 'benchmark': draw(st.integers(0, 4)) == 0,
                          'depends': [x['id'] for x in draw(st.lists(st.sampled_from(deps_pool), max_size=2, unique_by=lambda x: x['id']))],
                          'arg_targets': [x['id'] for x in draw(st.lists(st.sampled_from(deps_pool), max_size=1))] if draw(st.integers(0, 2)) == 0 else []})
    if any(t['kind'] in LIB_KINDS and (t.get('link_with') or t.get('link_whole')) for t in targets):
        options['b_staticpic'] = True
    sub = None
    if allow_subproject and draw(st.integers(0, 3)) == 0:
        sub = {'name': 'sp', 'lib': draw(st.sampled_from(['static', 'library'])), 'exe': draw(st.booleans()),
               'used_by': [t['id'] for t in targets if t['kind'] in BUILD_KINDS and t['name'] not in FORBIDDEN][:1]}
    if sub and sub['used_by']:
        options['b_staticpic'] = True
    return {'profile': profile, 'dirs': dirs, 'targets': targets, 'tests': tests, 'options': options, 'subproject': sub,
            'collision': collision}


# ---------------------------------------------------------------------------
# writer

def q(s: str) -> str:
    return "'" + s.replace('\\', '\\\\').replace("'", "\\'") + "'"


def materialise(model: dict) -> T.Dict[str, str]:
    """Returns {relative path: content}. gen.py must be chmod +x by the caller (write_project does it)."""
    files: T.Dict[str, str] = {}
    by_id = {t['id']: t for t in model['targets']}
    lines: T.Dict[str, T.List[str]] = {d: [] for d in model['dirs']}
    root = lines['']
    root.append("project('gen proj', 'c', version: '1.0', default_options: ['warning_level=0'])")
    root.append("gen_py = find_program('gen.py')")
    files['gen.py'] = GEN_PY
    sub = model.get('subproject')
    if sub:
        root.append("sp = subproject('sp')")
        root.append("sp_dep = sp.get_variable('sp_dep')")
        spl = ["project('sp', 'c', version: '0.1')",
               f"sp_lib = {'static_library' if sub['lib'] == 'static' else 'library'}('splib', 'splib.c', install: false)",
               "sp_dep = declare_dependency(link_with: sp_lib, include_directories: include_directories('.'))"]
        if sub['exe']:
            spl.append("executable('spexe', 'spexe.c', link_with: sp_lib)")
            files['subprojects/sp/spexe.c'] = 'int sp_func(void);\nint main(void) { return sp_func() - 7; }\n'
        files['subprojects/sp/splib.c'] = 'int sp_func(void) { return 7; }\n'
        files['subprojects/sp/sp.h'] = 'int sp_func(void);\n'
        files['subprojects/sp/meson.build'] = '\n'.join(spl) + '\n'
    # Every dir file is evaluated exactly once, at the subdir() call, which the parent makes when the first
    # target of that dir is reached in model order.  The generator (see _dir_allowed) only places a target in an
    # already-visited dir when everything it refers to was defined before that visit or lives in the same file.
    visited: T.List[str] = ['']
    for t in model['targets']:
        d = t['dir']
        if d not in visited:
            parent = os.path.dirname(d)
            if parent not in visited:
                visited.append(parent)
                lines[os.path.dirname(parent)].append(f"subdir({q(os.path.basename(parent))})")
            visited.append(d)
            lines[parent].append(f"subdir({q(os.path.basename(d))})")
        out = lines[d]
        k = t['kind']
        v = t['id']
        if k in BUILD_KINDS:
            func = {'exe': 'executable', 'static': 'static_library', 'shared': 'shared_library', 'both': 'both_libraries',
                    'library': 'library'}[k]
            srcs = []
            calls = []
            incl = []
            for j in range(t['nsrc']):
                fn = f'{v}_src{j}.c'
                srcs.append(q(fn))
            for ref in t['link_with'] + t['link_whole']:
                calls.append(f'{ref}_func')
            body0 = []
            for cid, idx in t['gen_headers'] + t['dep_headers']:
                o = by_id[cid]['outputs'][idx]
                sym = _sym(o.rsplit('.', 1)[0])
                body0.append(f'#ifndef GEN_{sym}\n#error generated header {o} not seen\n#endif')
                incl.append(f"{cid}[{idx}].full_path()")
            for cid, idx in t['gen_sources']:
                o = by_id[cid]['outputs'][idx]
                calls.append('gen_' + _sym(o.rsplit('.', 1)[0]))
            for cid in t['cfg_headers']:
                body0.append(f'#ifndef CONF_{cid}\n#error configure_file header not seen\n#endif')
                incl.append(f"{cid}.full_path()")
            if t['generator']:
                files[os.path.join(d, f'gin_{v}.txt')] = f'generator input {v}\n'
                calls.append(f'gen_gin_{v}')
            decl = ''.join(f'int {c}(void);\n' for c in calls)
            summ = ' + '.join(f'{c}()' for c in calls) or '0'
            if sub and v in sub['used_by']:
                decl += 'int sp_func(void);\n'
                summ += ' + sp_func()'
            entry = 'main' if k == 'exe' else f'{v}_func'
            files[os.path.join(d, f'{v}_src0.c')] = '\n'.join(body0) + '\n' + decl + f'int {v}_aux(void);\nint {entry}(void) {{ return ({summ}) * 0 + {v}_aux(); }}\n' \
                if t['nsrc'] > 1 else '\n'.join(body0) + '\n' + decl + f'int {entry}(void) {{ return ({summ}) * 0; }}\n'
            if t['nsrc'] > 1:
                files[os.path.join(d, f'{v}_src1.c')] = f'int {v}_aux(void) {{ return 0; }}\n'
            src_items = list(srcs)
            for cid, idx in t['gen_headers']:
                src_items.append(f'{cid}[{idx}]')
            for cid, idx in t['gen_sources']:
                src_items.append(f'{cid}[{idx}]')
            for cid in t['cfg_headers']:
                src_items.append(cid)
            if t['generator']:
                out.append(f"{v}_g = generator(gen_py, output: '@BASENAME@.c', arguments: ['--out', '@OUTPUT@', '--in', '@INPUT@'])")
                src_items.append(f"{v}_g.process('gin_{v}.txt')")
            kw = []
            if t['link_with']:
                kw.append('link_with: [' + ', '.join(t['link_with']) + ']')
            if t['link_whole']:
                kw.append('link_whole: [' + ', '.join(t['link_whole']) + ']')
            deps = []
            for cid, idx in t['dep_headers']:
                out.append(f"{v}_dep{idx} = declare_dependency(sources: {cid}[{idx}])")
                deps.append(f'{v}_dep{idx}')
            if sub and v in sub['used_by']:
                deps.append('sp_dep')
            if deps:
                kw.append('dependencies: [' + ', '.join(deps) + ']')
            if incl:
                kw.append('c_args: [' + ', '.join(f"'-include', {x}" for x in incl) + ']')
            if not t['build_by_default']:
                kw.append('build_by_default: false')
            if t['install']:
                kw.append('install: true')
            if t.get('version'):
                kw.append(f"version: {q(t['version'])}")
            out.append(f"{v} = {func}({q(t['name'])}, {', '.join(src_items)}{''.join(', ' + x for x in kw)})")
        elif k == 'ct':
            inputs = []
            cmd = ['gen_py' if not t['tool_exe'] else 'gen_py', "'--tag'", q(v), "'--out'", "'@OUTPUT@'"]
            if t['tool_exe']:
                # a built executable must exist before the step; it is run first (exit status ignored via gen.py wrapper arg)
                cmd = ['gen_py', "'--tag'", q(v), "'--out'", "'@OUTPUT@'", "'--read'", t['tool_exe']]
            if t['src_input'] or t['inputs']:
                cmd += ["'--in'", "'@INPUT@'"]
            if t['src_input']:
                fn = f'{v}_in.txt'
                files[os.path.join(d, fn)] = f'input of {v}\n'
                inputs.append(q(fn))
            for cid, idx in t['inputs']:
                inputs.append(f'{cid}[{idx}]')
            kw = []
            if t['depends']:
                cmd += ["'--read'"] + [f'{cid}[0].full_path()' for cid in t['depends']]
                kw.append('depends: [' + ', '.join(t['depends']) + ']')
            if t['depend_files']:
                fn = f'{v}_depfile.txt'
                files[os.path.join(d, fn)] = f'depend file of {v}\n'
                cmd += ["'--read'", f"meson.current_source_dir() / {q(fn)}"]
                kw.append(f'depend_files: files({q(fn)})')
            if t['build_by_default']:
                kw.append('build_by_default: true')
            if t['install']:
                kw.append("install: true, install_dir: 'share/gen'")
            out.append(f"{v} = custom_target({q(t['name'])}, output: [{', '.join(q(o) for o in t['outputs'])}]"
                       + (f", input: [{', '.join(inputs)}]" if inputs else '')
                       + f", command: [{', '.join(cmd)}]{''.join(', ' + x for x in kw)})")
        elif k == 'cfg':
            if t['mode'] == 'configuration':
                out.append(f"{v} = configure_file(output: {q(t['name'])}, configuration: {{'CONF_{v}': 1}})")
            else:
                fn = f'{v}_in.h'
                files[os.path.join(d, fn)] = f'#define CONF_{v} 1\n'
                out.append(f"{v} = configure_file(input: {q(fn)}, output: {q(t['name'])}, copy: true)")
        elif k == 'run':
            cmd = [t['exe'] if t['exe'] else 'gen_py', "'--tag'", "'x y'"]
            kw = f", depends: [{', '.join(t['depends'])}]" if t['depends'] else ''
            out.append(f"{v} = run_target({q(t['name'])}, command: [{', '.join(cmd)}]{kw})")
        elif k == 'alias':
            out.append(f"{v} = alias_target({q(t['name'])}, {', '.join(t['deps'])})")
    for ts in model['tests']:
        kw = []
        if ts['depends']:
            kw.append('depends: [' + ', '.join(ts['depends']) + ']')
        if ts.get('arg_targets'):
            kw.append("args: ['--arg', " + ', '.join(ts['arg_targets']) + ']')
        fn = 'benchmark' if ts['benchmark'] else 'test'
        root.append(f"{fn}({q(ts['name'])}, {ts['exe']}{''.join(', ' + x for x in kw)})")
    for d, ls in lines.items():
        if d == '' or ls or d in visited:
            files[os.path.join(d, 'meson.build')] = '\n'.join(ls) + '\n'
    return files


def _refs(t: dict) -> T.Set[str]:
    r: T.Set[str] = set()
    for key in ('link_with', 'link_whole', 'depends', 'deps', 'cfg_headers'):
        for x in t.get(key, []) or []:
            r.add(x)
    for key in ('gen_headers', 'gen_sources', 'dep_headers', 'inputs'):
        for x in t.get(key, []) or []:
            r.add(x[0])
    for key in ('tool_exe', 'exe'):
        if t.get(key):
            r.add(t[key])
    return r


def _top(d: str) -> str:
    return d.split('/')[0]


def _dir_allowed(targets: T.List[dict], t: dict, d: str) -> bool:
    """May target t (referring only to earlier targets) be written into dir d's meson.build?  A whole top-level
    tree (sub1, sub1/deep) is evaluated at the position of its first target; a target placed there later may only
    refer to what had been evaluated by then, or to earlier statements of its own file."""
    if d == '':
        return True
    refs = _refs(t)
    top = _top(d)
    visit_at: T.Dict[str, int] = {}
    for i, x in enumerate(targets):
        if x['dir']:
            visit_at.setdefault(_top(x['dir']), i)
    pos = {x['id']: i for i, x in enumerate(targets)}
    dirof = {x['id']: x['dir'] for x in targets}
    at = visit_at.get(top)
    if at is not None and not any(x['dir'] == d for x in targets):
        return False     # a nested dir first entered after its tree was already evaluated: keep it simple, use root
    for r in refs:
        rd = dirof[r]
        if rd == d:
            continue
        if rd and _top(rd) == top:
            return False
        if at is None:
            continue
        if rd == '':
            if pos[r] < at:
                continue
            return False
        if visit_at[_top(rd)] < at:
            continue
        return False
    return True


def setup_args(model: dict) -> T.List[str]:
    o = model['options']
    return [f'-Dlayout={o["layout"]}', f'-Ddefault_library={o["default_library"]}', f'-Dunity={o["unity"]}',
            f'-Db_staticpic={"true" if o["b_staticpic"] else "false"}']


def write_project(model: dict, root: str) -> T.Dict[str, str]:
    from harness.mesondrv import write_tree
    files = materialise(model)
    write_tree(root, files)
    os.chmod(os.path.join(root, 'gen.py'), 0o755)
    return files
