"""Reference model for C10: (A) the documented dependency() fallback policy as a small state machine,
(B) which wrap archives are *verified* (may legitimately end up unpacked under subprojects/).

Written from the property statement and the user documentation only:
  [P]   /verif/properties.jsonl C10 statement
  [DY]  docs/yaml/functions/dependency.yaml      (line numbers of the pinned tree)
  [SP]  docs/markdown/Subprojects.md
  [WM]  docs/markdown/Wrap-dependency-system-manual.md
  [BO]  docs/markdown/Build-options.md
  [MY]  docs/yaml/builtins/meson.yaml
No code is shared with mesonbuild (versions are compared by a private dotted-integer comparator).

(A) vocabulary
    cfg   = {sys: None|'1.0'|'2.0', cons: None|'>=1.5'|..., wrap: 'none'|'var'|'names', sp_ovr: bool, spver: str,
             wm: wrap_mode, fff: [names]}
    steps = [['sub'] | ['ovr', ver] | ['dep', required, allow_fallback, fallback]]
            required in true|default|false|auto|enabled|disabled ; allow_fallback in unset|true|false ;
            fallback in none|var|novar
    result tokens per dep step: ['sys', ver] (pkg-config), ['int', ver] (internal: subproject variable or
    override), ['nf'].
Where the documentation is silent the model has *knobs*; the set of acceptable behaviours is the set of
simulations over all knob values (each knob is global to one configuration, so weak choices must still be
made consistently inside one run).
"""
from __future__ import annotations

import hashlib
import itertools
import typing as T

REQUIRED_TRUE = ('true', 'default', 'enabled')

# k1: an already configured subproject makes a wrap [provide] entry usable for an optional lookup with
#     allow_fallback unset (docs: [WM] 212-237 say optional lookups "will not fallback"; silent about a subproject
#     that is already part of the build)
# k2: an already configured (non-overriding) fallback subproject is preferred to the system, also under nofallback
#     ([SP] 227-233 "will only look for them in the system" vs. the subproject being in the build anyway)
# k3: an explicit override whose version fails the constraint is returned anyway ([DY] 25-30 "returned
#     unconditionally") instead of not-found
KNOBS = [dict(k1=a, k2=b, k3=c) for a, b, c in itertools.product((True, False), repeat=3)]


def _vt(v: str) -> T.Tuple[int, ...]:
    return tuple(int(x) for x in v.split('.'))


def sat(ver: str, cons: T.Optional[str]) -> bool:
    if not cons:
        return True
    for op in ('>=', '<=', '==', '!=', '>', '<', '='):
        if cons.startswith(op):
            a, b = _vt(ver), _vt(cons[len(op):].strip())
            n = max(len(a), len(b))
            # generator only uses versions with equal component counts; pad defensively
            a, b = a + (0,) * (n - len(a)), b + (0,) * (n - len(b))
            return {'>=': a >= b, '<=': a <= b, '==': a == b, '=': a == b, '!=': a != b, '>': a > b, '<': a < b}[op]
    raise ValueError(cons)


class Sim:
    """Outcome of simulating one configuration under one knob assignment."""
    def __init__(self) -> None:
        self.results: T.List[T.Optional[list]] = []   # one entry per step (None for non-dep steps / not reached)
        self.paths: T.List[T.Optional[str]] = []      # which policy clause decided each dep step
        self.error_at: T.Optional[int] = None
        self.consulted = False                        # the system (pkg-config) had to be asked for 'foo'
        self.spconf = False                           # the subproject got configured
        self.invalid: T.Optional[str] = None          # generator precondition broken (not a test case)
        self.argerr_at: T.Optional[int] = None        # fallback + allow_fallback given together (undocumented)

    def key(self) -> tuple:
        return (tuple(tuple(r) if r else None for r in self.results), self.error_at, self.argerr_at)


def simulate(cfg: dict, steps: T.Sequence[list], knobs: dict) -> Sim:
    s = Sim()
    override: T.Optional[str] = None      # version of the dependency registered by meson.override_dependency
    resolved: T.Optional[list] = None     # first found result: later lookups return the same   [P] [DY 13-15]
    cons = cfg['cons']
    fff = cfg['fff']
    wm = cfg['wm']
    forced_opt = wm == 'forcefallback' or 'foo' in fff or 'sp' in fff      # [SP 238-254] [P]

    def configure_sp() -> bool:
        nonlocal override
        if not s.spconf:
            s.spconf = True
            if cfg['sp_ovr']:
                if override is not None or resolved is not None:
                    s.invalid = 'subproject would override an already resolved/overridden dependency'
                    return False
                override = cfg['spver']
        return True

    for i, st in enumerate(steps):
        s.results.append(None)
        s.paths.append(None)
        kind = st[0]
        if kind == 'sub':
            # unconditional subproject(): not affected by wrap_mode=nofallback  [SP 230-233]
            if not configure_sp():
                return s
            continue
        if kind == 'ovr':
            if override is not None or resolved is not None:
                s.invalid = 'override after the dependency was resolved/overridden'
                return s
            override = st[1]
            continue
        _, req, af, fb = st
        required = req in REQUIRED_TRUE                                      # [BO 89-90]
        res: list
        if req == 'disabled':
            # "disabled: do not look for the dependency and always return 'not-found'"  [BO 91]
            s.results[i] = ['nf']
            s.paths[i] = 'disabled'
            continue
        if fb != 'none' and af != 'unset':
            s.argerr_at = i            # undocumented combination: only "no crash" is demanded
            s.paths[i] = 'fallback+allow_fallback'
            return s
        if resolved is not None:
            s.results[i] = resolved
            s.paths[i] = 'sticky'
            continue
        if override is not None:
            # "the overriding dependency will be returned unconditionally ... independent of whether an external
            # dependency is installed in the system" [DY 25-30]; "should not look it up on the system" [MY 408-410]
            s.paths[i] = 'override'
            if sat(override, cons):
                res = ['int', override]
                resolved = res
            elif knobs['k3']:
                res = ['int', override]
            else:
                res = ['nf']
        else:
            link = False
            if fb != 'none':
                link = True                                                  # explicit fallback [DY 105-124]
            elif cfg['wrap'] != 'none' and af != 'false':                    # [DY 95-103] false: never
                if af == 'true' or required or forced_opt:                   # [DY 97-103] [WM 238-240] [P]
                    link = True
                elif s.spconf and knobs['k1']:
                    link = True
            forced = link and forced_opt

            def use_sp() -> list:
                if not configure_sp():
                    return ['nf']
                if override is not None:
                    v = override
                else:
                    v = cfg['spver']
                return ['int', v] if sat(v, cons) else ['nf']                # [DY 116-118] version obeyed, no re-lookup

            if forced:
                # "will not look at the system ... will only use subprojects"; beats nofallback  [SP 238-254]
                s.paths[i] = 'forced'
                res = use_sp()
            elif link and s.spconf and knobs['k2']:
                s.paths[i] = 'existing-sp'
                res = use_sp()
            else:
                s.consulted = True
                if cfg['sys'] is not None and sat(cfg['sys'], cons):
                    s.paths[i] = 'system'
                    res = ['sys', cfg['sys']]                                # [P] [DY 96-98, 108-109]
                elif link and wm != 'nofallback':
                    s.paths[i] = 'fallback'
                    res = use_sp()                                           # [P] [SP 227-233]
                else:
                    s.paths[i] = 'nofallback-block' if link else 'no-provider'
                    res = ['nf']
            if s.invalid:
                return s
            if res[0] != 'nf':
                resolved = res
        s.results[i] = res
        if res[0] == 'nf' and required:
            s.error_at = i                                                   # [P] required lookup -> error
            return s
    return s


def alternatives(cfg: dict, steps: T.Sequence[list]) -> T.List[Sim]:
    """Distinct acceptable behaviours (deduplicated on the observable key); [] if the case is invalid."""
    out: T.Dict[tuple, Sim] = {}
    for kn in KNOBS:
        s = simulate(cfg, steps, kn)
        if s.invalid:
            return []
        k = s.key() + (s.consulted, s.spconf)
        out.setdefault(k, s)
    return list(out.values())


def nontrivial_a(cfg: dict, steps: T.Sequence[list]) -> bool:
    """>= 2 of {system present, provider present, force flag, nofallback}."""
    provider = cfg['wrap'] != 'none' or any(st[0] == 'dep' and st[3] != 'none' for st in steps) \
        or any(st[0] in ('sub', 'ovr') for st in steps)
    force = cfg['wm'] == 'forcefallback' or bool(set(cfg['fff']) & {'foo', 'sp'})
    return sum([cfg['sys'] is not None, provider, force, cfg['wm'] == 'nofallback']) >= 2


# ---------------------------------------------------------------------------------------------------------
# (B) wrap integrity

def sha256(b: bytes) -> str:
    return hashlib.sha256(b).hexdigest()


def verified_variants(spec: T.Optional[dict], variants: T.Dict[str, bytes], nodownload: bool) -> T.Set[str]:
    """Variant ids of one role ('source' or 'patch') that may legitimately be unpacked.

    spec = {'mode': 'url'|'files', 'primary': vid|None, 'fallback': vid|None|'-' (no fallback key),
            'cache': vid|None, 'files': vid|None, 'hash': hex|None}
    [P] "A wrap source or patch archive whose SHA-256 differs from the recorded hash is never unpacked or used -
    from a URL, fallback URL, the package cache or packagefiles - nothing is fetched under wrap_mode=nodownload";
    [WM 104-110] the *_hash entries are optional for packagefiles; [WM 112-115] the cache is used even under
    nodownload, "The file's hash will be checked".
    """
    if spec is None:
        return set()
    reach: T.List[str] = []
    if spec['mode'] == 'url':
        if spec.get('cache'):
            reach.append(spec['cache'])
        if not nodownload:
            for k in ('primary', 'fallback'):
                v = spec.get(k)
                if v and v != '-':
                    reach.append(v)
    else:
        if spec.get('files'):
            reach.append(spec['files'])
    rec = spec.get('hash')
    ok: T.Set[str] = set()
    for v in reach:
        if v not in variants:
            continue
        if rec is None:
            if spec['mode'] == 'files':
                ok.add(v)
            continue
        if sha256(variants[v]) == rec.lower():
            ok.add(v)
    return ok
