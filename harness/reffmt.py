"""Small independent reference reader for Meson build files, used by C16 (`meson format`).

Written from docs/markdown/Syntax.md (string section, "Grammar" section) - no
code, regexes or tables shared with mesonbuild.mparser.  It produces a
*normalised tree* of nested tuples in which whitespace, comments, trailing
commas and parentheses do not appear (grouping is encoded by the tree shape):

  ('block', (stmt, ...))
  ('assign', name, expr) | ('plusassign', name, expr)
  ('if', ((cond, block), ...), else_block_or_None)
  ('foreach', (var, ...), items, block)
  ('continue',) | ('break',)
  ('id', name) | ('num', int) | ('bool', b) | ('str', effective_fstring, denoted_text)
  ('array', (expr, ...)) | ('dict', ((key, value), ...))
  ('call', name, (posarg, ...), ((kwname, value), ...))
  ('method', obj, name, (posarg, ...), ((kwname, value), ...))
  ('index', obj, idx) | ('not', e) | ('neg', e) | ('bin', op, l, r) | ('ternary', c, t, f)

String literals are compared by *denotation*: the text the literal stands for
(escape sequences of the documented list decoded for '...' strings, nothing
decoded for '''...''' strings) and whether it is an f-string that really
contains an @identifier@ substitution.

The accepted language is the strict one: every operand must be present, no
positional argument after a keyword argument, comparison operators do not
chain, unary operators apply to a postfix expression, ternaries do not nest.
Files that the tool's own parser accepts but this reader rejects are outside
the documented grammar (the check counts them separately).

(harness/refmeson.py is the evaluator-grade model owned by C01/C02; this module is
deliberately separate and much smaller: it also yields comments and token depths,
which the formatter check needs.)
"""
from __future__ import annotations

import typing as T
import unicodedata

KEYWORDS = frozenset(['true', 'false', 'if', 'else', 'elif', 'endif', 'and', 'or', 'not', 'foreach',
                      'endforeach', 'in', 'continue', 'break'])
TWO_CHAR = ('+=', '==', '!=', '<=', '>=')
ONE_CHAR = '()[]{},.+-*%/:=<>?'
ID_START = 'abcdefghijklmnopqrstuvwxyzABCDEFGHIJKLMNOPQRSTUVWXYZ_'
ID_CONT = ID_START + '0123456789'
HEX = '0123456789abcdefABCDEF'
OCT = '01234567'
SIMPLE_ESC = {'\\': '\\', "'": "'", 'a': '\a', 'b': '\b', 'f': '\f', 'n': '\n', 'r': '\r', 't': '\t', 'v': '\v'}


class RefError(Exception):
    """text is not in the documented (strict) language"""


class Tok(T.NamedTuple):
    kind: str      # id kw num str op nl comment cont eof
    text: str      # exact source text of the token
    pos: int
    depth: int     # bracket depth *outside* the token
    val: T.Any = None   # str: (is_f, is_multiline, body); comment/cont: comment text or None


# ---------------------------------------------------------------------------
# denotation of string literals

def decode_escapes(body: str) -> str:
    """Docs (Syntax.md 'Strings'): the full list of escape sequences; unrecognised
    sequences are left unchanged."""
    out: T.List[str] = []
    i, n = 0, len(body)
    while i < n:
        c = body[i]
        if c != '\\' or i + 1 >= n:
            out.append(c)
            i += 1
            continue
        d = body[i + 1]
        if d in SIMPLE_ESC:
            out.append(SIMPLE_ESC[d])
            i += 2
        elif d in OCT:
            j = i + 1
            while j < n and j < i + 4 and body[j] in OCT:
                j += 1
            out.append(chr(int(body[i + 1:j], 8)))
            i = j
        elif d in 'xuU':
            width = {'x': 2, 'u': 4, 'U': 8}[d]
            digs = body[i + 2:i + 2 + width]
            if len(digs) == width and all(ch in HEX for ch in digs):
                v = int(digs, 16)
                if v > 0x10FFFF:
                    raise RefError('\\U escape beyond the Unicode range')
                out.append(chr(v))
                i += 2 + width
            else:
                out.append(c)
                i += 1
        elif d == 'N' and body[i + 2:i + 3] == '{':
            k = body.find('}', i + 3)
            if k > i + 3:
                try:
                    out.append(unicodedata.lookup(body[i + 3:k]))
                except KeyError:
                    raise RefError('unknown character name in \\N{...}')
                i = k + 1
            else:
                out.append(c)
                i += 1
        else:
            out.append(c)
            i += 1
    return ''.join(out)


def has_substitution(text: str) -> bool:
    """an '@identifier@' placeholder occurs in text (what makes an f-string differ from a plain one)"""
    n = len(text)
    i = text.find('@')
    while i != -1:
        j = i + 1
        if j < n and text[j] in ID_START:
            j += 1
            while j < n and text[j] in ID_CONT:
                j += 1
            if j < n and text[j] == '@':
                return True
        i = text.find('@', i + 1)
    return False


def denote(is_f: bool, is_multiline: bool, body: str) -> T.Tuple[str, bool, str]:
    text = body if is_multiline else decode_escapes(body)
    return ('str', bool(is_f and has_substitution(text)), text)


# ---------------------------------------------------------------------------
# lexer

def lex(src: str) -> T.List[Tok]:
    toks: T.List[Tok] = []
    i, n = 0, len(src)
    depth = 0
    while i < n:
        c = src[i]
        if c == ' ' or c == '\t':
            i += 1
            continue
        if c == '\n':
            toks.append(Tok('nl', c, i, depth))
            i += 1
            continue
        if c == '#':
            j = src.find('\n', i)
            if j == -1:
                j = n
            toks.append(Tok('comment', src[i:j], i, depth, src[i:j]))
            i = j
            continue
        if c == '\\':
            j = i + 1
            while j < n and src[j] in ' \t':
                j += 1
            com = None
            if j < n and src[j] == '#':
                k = src.find('\n', j)
                if k == -1:
                    raise RefError('continuation without newline')
                com = src[j:k]
                j = k
            if j < n and src[j] == '\n':
                toks.append(Tok('cont', src[i:j + 1], i, depth, com))
                i = j + 1
                continue
            raise RefError(f'stray backslash at {i}')
        is_f = c == 'f' and src.startswith("'", i + 1)
        if c == "'" or is_f:
            q = i + 1 if is_f else i
            if src.startswith("'''", q):
                e = src.find("'''", q + 3)
                if e == -1:
                    raise RefError('unterminated multi-line string')
                body = src[q + 3:e]
                toks.append(Tok('str', src[i:e + 3], i, depth, (is_f, True, body)))
                i = e + 3
                continue
            j = q + 1
            while True:
                if j >= n:
                    raise RefError('unterminated string')
                ch = src[j]
                if ch == '\n':
                    raise RefError('newline in single-quoted string')
                if ch == '\\':
                    if j + 1 >= n or src[j + 1] == '\n':
                        raise RefError('unterminated string')
                    j += 2
                    continue
                if ch == "'":
                    break
                j += 1
            toks.append(Tok('str', src[i:j + 1], i, depth, (is_f, False, src[q + 1:j])))
            i = j + 1
            continue
        if c in ID_START:
            j = i + 1
            while j < n and src[j] in ID_CONT:
                j += 1
            w = src[i:j]
            toks.append(Tok('kw' if w in KEYWORDS else 'id', w, i, depth))
            i = j
            continue
        if c in '0123456789':
            j = i + 1
            if c == '0' and j < n and src[j] in 'bBoOxX':
                digits = {'b': '01', 'o': OCT, 'x': HEX}[src[j].lower()]
                k = j + 1
                while k < n and src[k] in digits:
                    k += 1
                j = k if k > j + 1 else i + 1
            elif c != '0':
                while j < n and src[j] in '0123456789':
                    j += 1
            if j < n and src[j] in ID_CONT:
                raise RefError(f'malformed number at {i}')
            toks.append(Tok('num', src[i:j], i, depth))
            i = j
            continue
        two = src[i:i + 2]
        if two in TWO_CHAR:
            toks.append(Tok('op', two, i, depth))
            i += 2
            continue
        if c in ONE_CHAR:
            if c in ')]}':
                depth -= 1
                if depth < 0:
                    raise RefError('unbalanced closing bracket')
            toks.append(Tok('op', c, i, depth))
            if c in '([{':
                depth += 1
            i += 1
            continue
        raise RefError(f'unexpected character {c!r} at {i}')
    if depth != 0:
        raise RefError('unbalanced brackets')
    toks.append(Tok('eof', '', n, 0))
    return toks


def comments_of(src: str) -> T.List[str]:
    """the comments of a file, in order, right-stripped"""
    return [t.val.rstrip() for t in lex(src) if t.kind in ('comment', 'cont') and t.val is not None]


# ---------------------------------------------------------------------------
# parser (strict), builds the normalised tree directly

class _Parser:
    def __init__(self, src: str):
        # newlines inside brackets, comments and continuations are trivia
        self.toks = [t for t in lex(src) if t.kind not in ('comment', 'cont') and not (t.kind == 'nl' and t.depth > 0)]
        self.i = 0
        self.in_ternary = False

    # -- helpers
    @property
    def cur(self) -> Tok:
        return self.toks[self.i]

    def at(self, kind: str) -> bool:
        return self.toks[self.i].kind == kind

    def at_op(self, *texts: str) -> bool:
        t = self.toks[self.i]
        return t.kind == 'op' and t.text in texts

    def at_kw(self, *texts: str) -> bool:
        t = self.toks[self.i]
        return t.kind == 'kw' and t.text in texts

    def next_is_op(self, *texts: str) -> bool:
        t = self.toks[self.i + 1] if self.i + 1 < len(self.toks) else self.toks[-1]
        return t.kind == 'op' and t.text in texts

    def take(self) -> Tok:
        t = self.toks[self.i]
        self.i += 1
        return t

    def expect_op(self, text: str) -> None:
        if not self.at_op(text):
            raise RefError(f'expected {text!r} at {self.cur.pos}, got {self.cur.text!r}')
        self.i += 1

    def expect_kw(self, text: str) -> None:
        if not self.at_kw(text):
            raise RefError(f'expected {text!r} at {self.cur.pos}, got {self.cur.text!r}')
        self.i += 1

    def expect_nl(self) -> None:
        if not self.at('nl'):
            raise RefError(f'expected end of line at {self.cur.pos}, got {self.cur.text!r}')
        self.i += 1

    # -- statements
    def file(self) -> tuple:
        b = self.block()
        if not self.at('eof'):
            raise RefError(f'unexpected {self.cur.text!r} at {self.cur.pos}')
        return b

    def block(self) -> tuple:
        """statements up to (not including) a block keyword or the end of the file; the caller
        checks which keyword it is.  Every statement ends with a newline (or EOF)."""
        stmts = []
        while True:
            while self.at('nl'):
                self.i += 1
            if self.at('eof') or self.at_kw('elif', 'else', 'endif', 'endforeach'):
                break
            stmts.append(self.statement())
            if self.at('eof'):
                break
            self.expect_nl()
        return ('block', tuple(stmts))

    def statement(self) -> tuple:
        if self.at_kw('if'):
            self.i += 1
            clauses = []
            cond = self.expression()
            self.expect_nl()
            clauses.append((cond, self.block()))
            els = None
            while self.at_kw('elif'):
                self.i += 1
                cond = self.expression()
                self.expect_nl()
                clauses.append((cond, self.block()))
            if self.at_kw('else'):
                self.i += 1
                self.expect_nl()
                els = self.block()
            self.expect_kw('endif')
            return ('if', tuple(clauses), els)
        if self.at_kw('foreach'):
            self.i += 1
            names = [self.ident()]
            if self.at_op(','):
                self.i += 1
                names.append(self.ident())
            self.expect_op(':')
            items = self.expression()
            self.expect_nl()
            body = self.block()
            self.expect_kw('endforeach')
            return ('foreach', tuple(names), items, body)
        if self.at_kw('continue'):
            self.i += 1
            return ('continue',)
        if self.at_kw('break'):
            self.i += 1
            return ('break',)
        return self.full_statement()

    def ident(self) -> str:
        if not self.at('id'):
            raise RefError(f'expected identifier at {self.cur.pos}')
        return self.take().text

    def full_statement(self) -> tuple:
        """assignment or expression (this is also what may appear between brackets / as an argument)"""
        if self.at('id') and self.next_is_op('=', '+='):
            name = self.take().text
            op = self.take().text
            return ('assign' if op == '=' else 'plusassign', name, self.full_statement())
        return self.expression()

    # -- expressions
    def expression(self) -> tuple:
        left = self.or_expr()
        if self.at_op('?'):
            if self.in_ternary:
                raise RefError('nested ternary')
            self.i += 1
            self.in_ternary = True
            t = self.full_statement()
            self.expect_op(':')
            f = self.full_statement()
            self.in_ternary = False
            return ('ternary', left, t, f)
        return left

    def or_expr(self) -> tuple:
        left = self.and_expr()
        while self.at_kw('or'):
            self.i += 1
            left = ('bin', 'or', left, self.and_expr())
        return left

    def and_expr(self) -> tuple:
        left = self.cmp_expr()
        while self.at_kw('and'):
            self.i += 1
            left = ('bin', 'and', left, self.cmp_expr())
        return left

    def cmp_expr(self) -> tuple:
        left = self.add_expr()
        if self.at_op('==', '!=', '<', '<=', '>', '>='):
            op = self.take().text
            return ('bin', op, left, self.add_expr())
        if self.at_kw('in'):
            self.i += 1
            return ('bin', 'in', left, self.add_expr())
        if self.at_kw('not') and self.toks[self.i + 1].kind == 'kw' and self.toks[self.i + 1].text == 'in':
            self.i += 2
            return ('bin', 'not in', left, self.add_expr())
        return left

    def add_expr(self) -> tuple:
        left = self.mul_expr()
        while self.at_op('+', '-'):
            op = self.take().text
            left = ('bin', op, left, self.mul_expr())
        return left

    def mul_expr(self) -> tuple:
        left = self.unary()
        while self.at_op('*', '/', '%'):
            op = self.take().text
            left = ('bin', op, left, self.unary())
        return left

    def unary(self) -> tuple:
        if self.at_kw('not'):
            self.i += 1
            return ('not', self.postfix())
        if self.at_op('-'):
            self.i += 1
            return ('neg', self.postfix())
        return self.postfix()

    def postfix(self) -> tuple:
        if self.at('id') and self.next_is_op('('):
            name = self.take().text
            self.i += 1
            pos, kw = self.arguments(')')
            left: tuple = ('call', name, pos, kw)
        else:
            left = self.primary()
        while True:
            if self.at_op('.'):
                self.i += 1
                name = self.ident()
                self.expect_op('(')
                pos, kw = self.arguments(')')
                left = ('method', left, name, pos, kw)
            elif self.at_op('['):
                self.i += 1
                idx = self.full_statement()
                self.expect_op(']')
                left = ('index', left, idx)
            else:
                return left

    def arguments(self, closer: str) -> T.Tuple[tuple, tuple]:
        pos: T.List[tuple] = []
        kw: T.List[T.Tuple[str, tuple]] = []
        while not self.at_op(closer):
            if self.at('id') and self.next_is_op(':'):
                name = self.take().text
                self.i += 1
                kw.append((name, self.full_statement()))
            else:
                if kw:
                    raise RefError('positional argument after keyword argument')
                pos.append(self.full_statement())
            if self.at_op(','):
                self.i += 1
            elif not self.at_op(closer):
                raise RefError(f'expected , or {closer} at {self.cur.pos}')
        self.i += 1
        return tuple(pos), tuple(kw)

    def primary(self) -> tuple:
        t = self.cur
        if t.kind == 'op':
            if t.text == '(':
                self.i += 1
                e = self.full_statement()
                self.expect_op(')')
                return e          # parentheses only group; the tree shape keeps the grouping
            if t.text == '[':
                self.i += 1
                pos, kw = self.arguments(']')
                if kw:
                    raise RefError('keyword item in array literal')
                return ('array', pos)
            if t.text == '{':
                self.i += 1
                items = []
                while not self.at_op('}'):
                    k = self.full_statement()
                    self.expect_op(':')
                    v = self.full_statement()
                    items.append((k, v))
                    if self.at_op(','):
                        self.i += 1
                    elif not self.at_op('}'):
                        raise RefError(f'expected , or }} at {self.cur.pos}')
                self.i += 1
                return ('dict', tuple(items))
            raise RefError(f'unexpected {t.text!r} at {t.pos}')
        if t.kind == 'id':
            self.i += 1
            return ('id', t.text)
        if t.kind == 'num':
            self.i += 1
            return ('num', int(t.text, 0))
        if t.kind == 'str':
            self.i += 1
            return denote(*t.val)
        if t.kind == 'kw' and t.text in ('true', 'false'):
            self.i += 1
            return ('bool', t.text == 'true')
        raise RefError(f'unexpected {t.text!r} at {t.pos}')


def parse(src: str) -> tuple:
    return _Parser(src).file()


# ---------------------------------------------------------------------------
# the documented literal simplifications, applied to a tree

def simplify(tree: T.Any, sort_files: bool) -> T.Any:
    """files([a, b]) == files(a, b); with sort_files the positional arguments of
    files() are a multiset.  Nothing else is identified."""
    if not isinstance(tree, tuple):
        return tree
    if len(tree) == 3 and tree[0] == 'str' and isinstance(tree[1], bool) and isinstance(tree[2], str):
        return tree
    t = tuple(simplify(x, sort_files) for x in tree)
    if len(t) == 4 and t[0] == 'call' and t[1] == 'files':
        pos, kw = t[2], t[3]
        if len(pos) == 1 and not kw and isinstance(pos[0], tuple) and pos[0] and pos[0][0] == 'array':
            pos = pos[0][1]
        if sort_files:
            pos = tuple(sorted(pos, key=repr))
        return ('call', 'files', pos, kw)
    return t


def parse_to_norm(text: str, sort_files: bool = False) -> tuple:
    """the plug-in point: text -> normalised tree with the documented identifications applied"""
    return simplify(parse(text), sort_files)


def first_diff(a: T.Any, b: T.Any, path: str = '') -> str:
    """human-readable location of the first difference between two trees"""
    if a == b:
        return ''
    if isinstance(a, tuple) and isinstance(b, tuple) and len(a) == len(b) and (not a or not isinstance(a[0], str) or a[0] == b[0]):
        for k, (x, y) in enumerate(zip(a, b)):
            if x != y:
                tag = a[0] if a and isinstance(a[0], str) else ''
                return first_diff(x, y, f'{path}/{tag}[{k}]')
    ra, rb = repr(a), repr(b)
    return f'at {path or "/"}: {ra[:300]}  !=  {rb[:300]}'
