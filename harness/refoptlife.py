"""Reference model for C08: option state across the build-directory lifecycle.

Written from the C08 property statement and the anchored user docs only
(docs/markdown/Build-options.md, Builtin-options.md, Configuring-a-build-directory.md,
Commands.md / `meson setup --help`).  It shares no code with mesonbuild.

Vocabulary
----------
* declaration (``decl``): JSON-able dict ``{'type', 'value'(default), 'choices'?, 'min'?, 'max'?, 'yield'?}``
  with type in string|boolean|integer|combo|array|feature  (Build-options.md "Build option types").
* key: ``name`` = option of the top project, ``sp:name`` = option of subproject ``sp``
  (Build-options.md "To change values in subprojects prepend the name of the subproject and a colon").
  Builtins use the same spelling; ``sp:werror`` is a per-subproject override
  (Configuring-a-build-directory.md "Per project subproject options rewrite").
* value: canonical Python value as shown by ``meson introspect --buildoptions``
  (str / bool / int / list of str).

The model is deliberately literal:

* an option keeps its value (last user value, else the default it was created with) until the
  user changes it or it disappears                                   [property sentence 1]
* new option -> its default; removed -> gone; changed choices -> old value if still valid else the
  new default                                                        [property sentence 1]
* dropping an override (-U) -> subproject goes back to the inherited value  [property sentence 1,
  Configuring-a-build-directory.md "Subproject specific values can be removed with -U"]
* --wipe -> fresh resolution of (recorded command lines, current declarations)  [property sentence 2]
* a failing configure/reconfigure changes nothing                    [property sentence 2]
"""
from __future__ import annotations

import copy
import typing as T

SP = 'sp'

# Builtin-options.md "Core options" table (default column) -- only the handful the check uses.
BUILTIN: T.Dict[str, dict] = {
    'werror': {'type': 'boolean', 'value': False},
    'warning_level': {'type': 'combo', 'choices': ['0', '1', '2', '3', 'everything'], 'value': '1'},
    'default_library': {'type': 'combo', 'choices': ['shared', 'static', 'both'], 'value': 'shared'},
    'buildtype': {'type': 'combo', 'choices': ['plain', 'debug', 'debugoptimized', 'release', 'minsize', 'custom'],
                  'value': 'debug'},
    # "Details for buildtype": buildtype "sets" these two; both can also be given on their own, and an explicit value
    # given together with buildtype wins (the expansion of buildtype only provides their defaults)
    'debug': {'type': 'boolean', 'value': True},
    'optimization': {'type': 'combo', 'choices': ['plain', '0', 'g', '1', '2', '3', 's'], 'value': '0'},
}
# "Per subproject (since)" column of the same table
PER_SUBPROJECT = ('werror', 'warning_level', 'default_library')
# Builtin-options.md "Details for buildtype": buildtype -> (debug, optimization)
BUILDTYPE_TABLE = {
    'plain': (False, 'plain'),
    'debug': (True, '0'),
    'debugoptimized': (True, '2'),
    'release': (False, '3'),
    'minsize': (True, 's'),
}
FEATURE_STATES = ['enabled', 'disabled', 'auto']

ANY = '<any>'   # marker: the property does not fix this observable


class Invalid(Exception):
    """The command line is not acceptable (unknown option / value not valid for the declaration)."""

    def __init__(self, why: str, key: str):
        super().__init__(f'{why}: {key}')
        self.why = why
        self.key = key


class Undefined(Exception):
    """The property / docs do not define the outcome of this operation in this state."""


# ---------------------------------------------------------------------------
# values

def parse_value(decl: dict, s: str, key: str = '?') -> T.Any:
    """Command line string -> canonical value, per Build-options.md."""
    t = decl['type']
    if t == 'string':
        return s
    if t == 'boolean':
        if s == 'true':
            return True
        if s == 'false':
            return False
        raise Invalid('badvalue', key)
    if t == 'integer':
        try:
            v = int(s)
        except ValueError:
            raise Invalid('badvalue', key)
        if not is_valid(decl, v):
            raise Invalid('badvalue', key)
        return v
    if t == 'combo':
        if s not in decl['choices']:
            raise Invalid('badvalue', key)
        return s
    if t == 'feature':
        if s not in FEATURE_STATES:
            raise Invalid('badvalue', key)
        return s
    if t == 'array':
        # "-Dopt= and -Dopt=[] both pass an empty list"; "all values separated by commas"
        v = [] if s in ('', '[]') else s.split(',')
        if not is_valid(decl, v):
            raise Invalid('badvalue', key)
        return v
    raise AssertionError(t)


def is_valid(decl: dict, v: T.Any) -> bool:
    t = decl['type']
    if t == 'string':
        return isinstance(v, str)
    if t == 'boolean':
        return isinstance(v, bool)
    if t == 'integer':
        if isinstance(v, bool) or not isinstance(v, int):
            return False
        if decl.get('min') is not None and v < decl['min']:
            return False
        if decl.get('max') is not None and v > decl['max']:
            return False
        return True
    if t == 'combo':
        return isinstance(v, str) and v in decl['choices']
    if t == 'feature':
        return isinstance(v, str) and v in FEATURE_STATES
    if t == 'array':
        if not isinstance(v, list) or not all(isinstance(x, str) for x in v):
            return False
        ch = decl.get('choices')
        return ch is None or all(x in ch for x in v)
    raise AssertionError(t)


def to_cmdline(v: T.Any) -> str:
    if isinstance(v, bool):
        return 'true' if v else 'false'
    if isinstance(v, list):
        return ','.join(v)
    return str(v)


def to_message(v: T.Any) -> str:
    """How '@0@'.format(get_option(..)) renders the value in a message()."""
    if isinstance(v, bool):
        return 'true' if v else 'false'
    if isinstance(v, list):
        return '[' + ', '.join("'" + x + "'" for x in v) + ']'
    return str(v)


def same_constraints(a: dict, b: dict) -> bool:
    return a.get('choices') == b.get('choices') and a.get('min') == b.get('min') and a.get('max') == b.get('max')


# ---------------------------------------------------------------------------

class LifeModel:
    def __init__(self, init: dict):
        self.file: T.Dict[str, T.Dict[str, dict]] = {'top': copy.deepcopy(init['top']), SP: copy.deepcopy(init[SP])}
        self.projdef: T.Dict[str, str] = dict(init.get('projdef', {}))   # project(default_options:) of the top project (builtins only)
        self.state = 'fresh'            # fresh | configured | wiped
        self.applied: T.Optional[T.Dict[str, T.Dict[str, dict]]] = None
        self.val: T.Dict[str, T.Any] = {}        # own value of every project option
        self.inherit: T.Set[str] = set()         # sp keys currently taking the superproject's value
        self.ambig: T.Set[str] = set()           # sp keys whose `yield` was toggled since the last fresh resolution
        self.anyvalid: T.Set[str] = set()        # keys whose type changed: only "valid for the new declaration"
        self.bval: T.Dict[str, T.Any] = {}
        self.over: T.Dict[str, T.Any] = {}
        self.recorded: T.Dict[str, str] = {}
        self.last: T.Dict[str, str] = {}         # key -> last model event (for failure signatures)
        self.user_assignments = 0

    def clone(self) -> 'LifeModel':
        return copy.deepcopy(self)

    def note(self, key: str, event: str) -> None:
        """remember the last two model events of a key (used only to name failure buckets)"""
        prev = self.last.get(key)
        self.last[key] = (prev.split('>')[-1] + '>' + event) if prev else event

    # -- declarations ------------------------------------------------------
    @staticmethod
    def flat(decls: T.Dict[str, T.Dict[str, dict]]) -> T.Dict[str, dict]:
        out = dict(decls['top'])
        for n, d in decls[SP].items():
            out[SP + ':' + n] = d
        return out

    @staticmethod
    def lookup(key: str, flat: T.Dict[str, dict]) -> T.Optional[dict]:
        if key in flat:
            return flat[key]
        if key in BUILTIN:
            return BUILTIN[key]
        if key.startswith(SP + ':') and key[len(SP) + 1:] in PER_SUBPROJECT:
            return BUILTIN[key[len(SP) + 1:]]
        return None

    @staticmethod
    def yields(name: str, decls: T.Dict[str, T.Dict[str, dict]]) -> bool:
        """Build-options.md "Yielding to superproject option": the subproject option declared with
        yield:true takes the value of the superproject's option *of the same name* (we only ever pair
        options of the same type)."""
        d = decls[SP].get(name)
        p = decls['top'].get(name)
        return bool(d and d.get('yield') and p is not None and p['type'] == d['type'])

    def pending_edits(self) -> bool:
        return self.applied is not None and self.applied != self.file

    def pending_keys(self) -> T.Set[str]:
        """keys whose declaration in the files differs from the one meson last processed"""
        if self.applied is None:
            return set()
        a, f = self.flat(self.applied), self.flat(self.file)
        return {k for k in set(a) | set(f) if a.get(k) != f.get(k)}

    # -- fresh resolution (first setup, --wipe) ------------------------------
    def fresh(self, cmd: T.Dict[str, str], how: str = 'setup') -> None:
        flat = self.flat(self.file)
        parsed: T.Dict[str, T.Any] = {}
        for k, s in cmd.items():
            d = self.lookup(k, flat)
            if d is None:
                raise Invalid('unknown', k)
            parsed[k] = parse_value(d, s, k)
        val: T.Dict[str, T.Any] = {}
        inherit: T.Set[str] = set()
        last: T.Dict[str, str] = {}
        old_last = self.last

        def ev(k: str, src: str) -> str:
            if how == 'wipe':
                prev = old_last.get(k, 'undeclared')
                return prev if prev.startswith('wipe(') else 'wipe(' + prev.split('>')[-1] + ')'
            if how != 'setup':
                return how
            return 'setup-' + src
        for k, d in flat.items():
            if k in parsed:
                val[k] = parsed[k]
                last[k] = ev(k, 'cmdline')
            else:
                val[k] = copy.deepcopy(d['value'])
                last[k] = ev(k, 'default')
                if k.startswith(SP + ':') and self.yields(k[len(SP) + 1:], self.file):
                    inherit.add(k)
        bval = {}
        for n, d in BUILTIN.items():
            if n in parsed:
                bval[n] = parsed[n]
                last[n] = ev(n, 'cmdline')
            elif n in self.projdef:
                bval[n] = parse_value(d, self.projdef[n], n)    # Builtin-options.md: project default_options < command line
                last[n] = ev(n, 'projdefault')
            else:
                bval[n] = d['value']
                last[n] = ev(n, 'default')
        if bval['buildtype'] != BUILTIN['buildtype']['value'] and bval['buildtype'] in BUILDTYPE_TABLE:
            dbg, opt = BUILDTYPE_TABLE[bval['buildtype']]
            if 'debug' not in parsed:
                bval['debug'] = dbg
            if 'optimization' not in parsed:
                bval['optimization'] = opt
        over = {}
        for n in PER_SUBPROJECT:
            k = SP + ':' + n
            if k in parsed:
                over[k] = parsed[k]
                last[k] = ev(k, 'cmdline')
        self.val, self.inherit, self.bval, self.over, self.last = val, inherit, bval, over, last
        self.ambig = set()
        self.anyvalid = set()
        self.applied = copy.deepcopy(self.file)
        self.recorded = dict(cmd)
        self.state = 'configured'

    # -- option file edits take effect ----------------------------------------
    def apply_edits(self) -> None:
        assert self.applied is not None
        old, new = self.flat(self.applied), self.flat(self.file)
        for k, d in new.items():
            o = old.get(k)
            if o is None:
                self.val[k] = copy.deepcopy(d['value'])          # "a new option gets its default"
                self.note(k, 'added')
                if k.startswith(SP + ':') and self.yields(k[len(SP) + 1:], self.file):
                    self.inherit.add(k)
                continue
            if o == d:
                continue
            if o['type'] != d['type']:
                # DESIGN "Limits": only "valid for the new declaration" is asserted
                self.val[k] = copy.deepcopy(d['value'])
                self.anyvalid.add(k)
                self.note(k, 'type-changed')
                continue
            if not same_constraints(o, d):
                if is_valid(d, self.val[k]):                     # "keeps the old value when still valid"
                    self.note(k, 'choices-changed-kept')
                else:                                            # "otherwise falls back to the new default"
                    self.val[k] = copy.deepcopy(d['value'])
                    self.note(k, 'choices-changed-reset')
            elif o['value'] != d['value']:
                self.note(k, 'default-changed')                 # value untouched: "the default it was created with"
            if bool(o.get('yield')) != bool(d.get('yield')) and k.startswith(SP + ':'):
                self.ambig.add(k)
                self.note(k, 'yield-toggled')
        for k in old:
            if k not in new:                                     # "a removed one vanishes"
                self.val.pop(k, None)
                self.inherit.discard(k)
                self.ambig.discard(k)
                self.anyvalid.discard(k)
                self.note(k, 'removed')
        # a parent whose child is declared yielding appears/disappears: not generated (see check's exclusions)
        self.applied = copy.deepcopy(self.file)

    # -- assignments ------------------------------------------------------------
    def _check_cmd(self, D: T.Dict[str, str], U: T.Sequence[str]) -> T.Dict[str, T.Any]:
        flat = self.flat(self.file)
        parsed = {}
        for k, s in D.items():
            d = self.lookup(k, flat)
            if d is None:
                raise Invalid('unknown', k)
            parsed[k] = parse_value(d, s, k)
        for k in U:
            if not self.is_override(k) and not self.is_noop_U(k):
                raise Undefined(f'-U{k} without an override')
        return parsed

    def is_noop_U(self, k: str) -> bool:
        """-U of a subproject's own project option that has no same-named option in the superproject (nothing it could
        inherit from, now or after pending edits): there is no override to drop, the command changes nothing for it"""
        if not k.startswith(SP + ':') or k in self.ambig:
            return False
        n = k[len(SP) + 1:]
        if n not in self.file[SP] or n in self.file['top']:
            return False
        if self.applied is not None and (n not in self.applied[SP] or n in self.applied['top']):
            return False
        return True

    def is_override(self, k: str) -> bool:
        """a per-subproject override the user put in place with -Dsp:k=v"""
        if k in self.over:
            return True
        if k.startswith(SP + ':') and k in self.val and k not in self.inherit and k not in self.ambig:
            n = k[len(SP) + 1:]
            return self.applied is not None and self.yields(n, self.applied) and self.yields(n, self.file)
        return False

    def same_as_hidden(self, k: str, v: T.Any) -> str:
        """bucket-name detail: the user pins a subproject option to a value that equals the one it would have
        anyway (the global builtin value) or the one stored underneath an inheriting option"""
        if not k.startswith(SP + ':'):
            return ''
        n = k[len(SP) + 1:]
        if n in PER_SUBPROJECT and k not in self.over and self.bval.get(n) == v:
            return '(=global)'
        if k in self.inherit and self.val.get(k) == v:
            return '(=stored)'
        return ''

    def assign(self, D: T.Dict[str, str], U: T.Sequence[str]) -> None:
        """configure / reconfigure semantics; raises Invalid without touching the state."""
        parsed = self._check_cmd(D, U)
        self.apply_edits()
        if 'buildtype' in parsed:
            # one command line: buildtype is applied first, explicit debug / optimization of the same command override
            # what it expands to; a buildtype that does not change expands to nothing ("keeps the last value the user gave")
            parsed = {'buildtype': parsed['buildtype'], **{k: v for k, v in parsed.items() if k != 'buildtype'}}
            bt = parsed['buildtype']
            if bt != self.bval['buildtype'] and bt in BUILDTYPE_TABLE:
                self.bval['debug'], self.bval['optimization'] = BUILDTYPE_TABLE[bt]
        for k, v in parsed.items():
            self.user_assignments += 1
            self.note(k, 'user-set' + self.same_as_hidden(k, v))
            if k in self.val:
                self.val[k] = v
                self.inherit.discard(k)      # Build-options.md: -Dsub:opt on a yielding option "sets the value separately"
                self.anyvalid.discard(k)
            elif k in BUILTIN:
                self.bval[k] = v
            else:
                self.over[k] = v
            self.recorded[k] = D[k]
        for k in U:
            if not self.is_override(k) and self.is_noop_U(k):
                # nothing to drop.  What the command does to the option's own record is not defined by the docs (the tool
                # keeps the stored value but forgets the recorded -D, so a later --wipe falls back to the default): from
                # here on the option is only required to hold a value that is valid for its declaration.
                self.note(k, 'U-noop')
                self.anyvalid.add(k)
                self.recorded.pop(k, None)
                continue
            self.note(k, 'U-dropped')
            if k in self.over:
                del self.over[k]
            else:
                self.inherit.add(k)          # "dropping an override returns the subproject to the inherited value"
            self.recorded.pop(k, None)

    # -- observables -------------------------------------------------------------
    def eff(self, key: str) -> T.Any:
        """effective value as get_option() sees it; a set() of admissible values for ambiguous keys"""
        if key in self.val:
            if key.startswith(SP + ':'):
                n = key[len(SP) + 1:]
                if key in self.ambig:
                    c = [self.val[key]]
                    if n in self.val:
                        c.append(self.val[n])
                    return ('oneof', c)
                if key in self.inherit:
                    return self.val[n]
            return self.val[key]
        if key in self.bval:
            return self.bval[key]
        if key.startswith(SP + ':'):
            n = key[len(SP) + 1:]
            if n in PER_SUBPROJECT:
                return self.over.get(key, self.bval[n])
            if n in BUILTIN or n in ('debug', 'optimization'):
                return self.eff(n)
        raise KeyError(key)

    def intro_expect(self) -> T.Dict[str, dict]:
        """what `meson introspect --buildoptions` must show: {name: {'value', 'type', 'choices'}} for project
        options (value ANY where the stored value of an inheriting option is not defined by the property)
        plus the global builtins."""
        assert self.applied is not None
        out: T.Dict[str, dict] = {}
        for k, d in self.flat(self.applied).items():
            e: T.Dict[str, T.Any] = {'type': d['type'], 'choices': d.get('choices'), 'decl': d}
            if k in self.inherit or k in self.ambig:
                e['value'] = ANY
            elif k in self.anyvalid:
                e['value'] = ('valid', d)
            else:
                e['value'] = self.val[k]
            out[k] = e
        for n in BUILTIN:
            out[n] = {'type': BUILTIN[n]['type'], 'value': self.bval[n], 'builtin': True}
        return out

    def category(self, key: str) -> str:
        if key in BUILTIN or key in ('debug', 'optimization'):
            return 'builtin'
        if key.startswith(SP + ':'):
            n = key[len(SP) + 1:]
            if n in BUILTIN or n in ('debug', 'optimization'):
                return 'sp-builtin'
            d = self.file[SP].get(n) or (self.applied or {}).get(SP, {}).get(n)
            if d is not None and d.get('yield'):
                return 'sp-yield'
            return 'sp-proj'
        if key in self.file[SP] and self.file[SP][key].get('yield'):
            return 'top-parent'
        return 'top-proj'


# ---------------------------------------------------------------------------
# self-test against the documentation's own statements / pinned fixtures

def selftest() -> T.List[str]:
    """returns a list of problems (empty = fine)"""
    bad: T.List[str] = []

    def expect(what: str, got: T.Any, want: T.Any) -> None:
        if got != want:
            bad.append(f'{what}: got {got!r}, want {want!r}')

    # Build-options.md examples
    combo = {'type': 'combo', 'choices': ['one', 'two', 'three'], 'value': 'three'}
    arr = {'type': 'array', 'choices': ['one', 'two', 'three'], 'value': ['one', 'two']}
    expect('array foo,bar', parse_value({'type': 'array', 'value': []}, 'foo,bar'), ['foo', 'bar'])
    expect('array empty', parse_value(arr, ''), [])
    expect('array []', parse_value(arr, '[]'), [])
    try:
        parse_value(combo, 'four')
        bad.append('combo accepts a value outside choices')
    except Invalid:
        pass
    try:
        parse_value({'type': 'integer', 'min': 0, 'max': 5, 'value': 3}, '6')
        bad.append('integer accepts a value above max')
    except Invalid:
        pass
    # yielding (Build-options.md) + -U (Configuring-a-build-directory.md)
    init = {'top': {'some_option': {'type': 'string', 'value': 'topval'}},
            SP: {'some_option': {'type': 'string', 'value': 'value', 'yield': True},
                 'other': {'type': 'string', 'value': 'o'}}}
    m = LifeModel(init)
    m.fresh({})
    expect('yield: get_option returns the value of the superproject', m.eff('sp:some_option'), 'topval')
    m.assign({'sp:some_option': 'anothervalue'}, [])
    expect('1.8.0: -Dsub:some_option sets the value separately', (m.eff('sp:some_option'), m.eff('some_option')), ('anothervalue', 'topval'))
    m.assign({'some_option': 'new'}, [])
    expect('override survives a change of the parent', m.eff('sp:some_option'), 'anothervalue')
    m.assign({}, ['sp:some_option'])
    expect('-U returns to the inherited value', m.eff('sp:some_option'), 'new')
    m.assign({'werror': 'true', 'sp:werror': 'false'}, [])
    expect('-Dwerror=true -Dnaughty:werror=false', (m.eff('werror'), m.eff('sp:werror')), (True, False))
    m.assign({}, ['sp:werror'])
    expect('-Usubproject:werror', m.eff('sp:werror'), True)
    m.assign({'buildtype': 'debugoptimized'}, [])
    expect('buildtype table', (m.eff('debug'), m.eff('optimization')), (True, '2'))
    # wipe = recorded command lines + current defaults
    m.file['top']['some_option']['value'] = 'topval2'
    m.file[SP]['other']['value'] = 'o2'
    m.assign({}, [])
    expect('changed default does not change an existing value', m.eff('sp:other'), 'o')
    m.fresh(dict(m.recorded))
    expect('wipe replays recorded options', (m.eff('some_option'), m.eff('werror'), m.eff('buildtype')), ('new', True, 'debugoptimized'))
    expect('wipe uses current defaults', m.eff('sp:other'), 'o2')
    expect('wipe: dropped override stays dropped', m.eff('sp:some_option'), 'new')
    # pinned fixture "test cases/unit/83 change option choices" + unittests/allplatformstests.py test_options_with_choices_changing
    o1 = {'combo': {'type': 'combo', 'choices': ['a', 'b', 'c'], 'value': 'a'},
          'array': {'type': 'array', 'choices': ['a', 'b', 'c'], 'value': ['a']}}
    o2 = {'combo': {'type': 'combo', 'choices': ['b', 'c', 'd'], 'value': 'b'},
          'array': {'type': 'array', 'choices': ['b', 'c', 'd'], 'value': ['b']}}
    m = LifeModel({'top': o1, SP: {}})
    m.fresh({})
    m.file['top'] = copy.deepcopy(o2)
    m.assign({}, [])
    expect('fixture 83: invalid old values -> new defaults', (m.eff('combo'), m.eff('array')), ('b', ['b']))
    m = LifeModel({'top': o1, SP: {}})
    m.fresh({'combo': 'c', 'array': 'b,c'})
    m.file['top'] = copy.deepcopy(o2)
    m.assign({}, [])
    expect('fixture 83: still valid old values remain', (m.eff('combo'), m.eff('array')), ('c', ['b', 'c']))
    # added / removed
    m.file['top']['new_option'] = {'type': 'boolean', 'value': False}
    del m.file['top']['array']
    m.assign({}, [])
    expect('new option gets its default', m.eff('new_option'), False)
    expect('removed option vanishes', 'array' in m.intro_expect(), False)
    # failing command leaves everything as it was
    before = (copy.deepcopy(m.val), dict(m.recorded))
    try:
        m.assign({'new_option': 'true', 'combo': 'zzz'}, [])
        bad.append('invalid value accepted')
    except Invalid:
        pass
    expect('failed configure changes nothing', (m.val, m.recorded), before)
    return bad
