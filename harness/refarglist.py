"""Eager reference model for C13 (compiler argument lists).

Written from the C13 property statement, the CompilerArgs class docstring
(/repo/mesonbuild/arglist.py:44-73), the append_direct/extend_direct docstrings
(arglist.py:252-268) and the expectations pinned in /repo/unittests/internaltests.py
(test_compiler_args_class_clike / _gnuld / _remove_system).  No code is shared with
mesonbuild; the kind of an argument is decided here, from the property sentence,
not from the class tables under test.

Sentences implemented (P = property statement):
  P1 "every batch of -I/-L arguments goes, in its own order, in front of everything added earlier"
  P2 "all other arguments follow in the order added"
  P3 "of identical override-type arguments only the highest-precedence occurrence survives
      (the front-most for -I/-L, the last for -D/-U/-isystem)"
  P4 "a repeat of a once-only argument (-lfoo, a library file, -pthread ...) is dropped"
  D1 append_direct: "without any reordering or de-dup except for absolute paths to libraries, etc,
      which can always be de-duped safely"
  F1 fixture "Test that there is no de-dup on initialization"
"""
from __future__ import annotations

import typing as T

PREPEND = 'prepend-override'     # -Ifoo -Lfoo
APPEND = 'append-override'       # -DX -UX -isystemX
ONCE = 'once-only'               # -lfoo, library files, -pthread, -Wl,-rpath,x
PLAIN = 'plain'                  # everything else, including stand-alone -D/-U/-isystem
UNDEFINED = 'undefined'          # stand-alone -I / -L: placement of the pair is not fixed by the property

INTERNAL_LIBS = ('-lm', '-lc', '-lpthread', '-ldl', '-lrt', '-lexecinfo')   # arglist.py:19 / :92-95 comment

GROUP_START = '-Wl,--start-group'
GROUP_END = '-Wl,--end-group'


def is_libfile(a: str) -> bool:
    """'a library file': foo.a, foo.so, libfoo.so.1[.2[.3]] (not a -Wl, option)."""
    if a.startswith('-'):
        return False
    if a.endswith(('.a', '.so')):
        return True
    parts = a.split('.so.')
    if len(parts) == 2 and parts[1]:
        nums = parts[1].split('.')
        return len(nums) <= 3 and all(n.isdigit() for n in nums)
    return False


def kind_clike(a: str) -> str:
    if a in ('-I', '-L'):
        return UNDEFINED
    if a in ('-D', '-U', '-isystem', '-l', '-Wl,-l'):
        return PLAIN            # "defined by what comes after them": never de-duplicated (two-token spelling `-l m`)
    if a.startswith(('-I', '-L')):
        return PREPEND
    if a.startswith(('-D', '-U', '-isystem')):
        return APPEND
    if a.startswith('-l') or a == '-pthread' or a.startswith('-Wl,-rpath,') or is_libfile(a):
        return ONCE
    return PLAIN


def kind_base(a: str) -> str:
    """Base CompilerArgs (no C-like tables): only library files are special."""
    return ONCE if is_libfile(a) else PLAIN


def is_abs(a: str) -> bool:
    return a.startswith('/')


class RefArgs:
    """The 'simple eager meaning'."""

    def __init__(self, kind: T.Callable[[str], str], init: T.Iterable[str] = ()):
        self.kind = kind
        self.l: T.List[str] = list(init)      # F1: taken verbatim

    def clone(self) -> 'RefArgs':
        return RefArgs(self.kind, self.l)

    # -- contract writes: +=, append, extend --------------------------------
    def add(self, batch: T.Iterable[str]) -> None:
        batch = list(batch)                   # snapshot (a += a)
        front: T.List[str] = []
        touched: T.List[str] = []
        for a in batch:
            k = self.kind(a)
            if k == ONCE and (a in self.l or a in front):
                continue                      # P4
            if k == PREPEND:
                front.append(a)               # P1 (batch order kept)
            else:
                self.l.append(a)              # P2
            if k in (PREPEND, APPEND) and a not in touched:
                touched.append(a)
        self.l = front + self.l               # P1
        for a in touched:                     # P3
            idx = [i for i, x in enumerate(self.l) if x == a]
            keep = idx[0] if self.kind(a) == PREPEND else idx[-1]
            self.l = [x for i, x in enumerate(self.l) if x != a or i == keep]

    # -- direct writes -------------------------------------------------------
    def direct(self, a: str) -> None:
        if is_abs(a):
            self.add([a])                     # D1
        else:
            self.l.append(a)

    def extend_direct(self, batch: T.Iterable[str]) -> None:
        for a in list(batch):
            self.direct(a)

    @staticmethod
    def is_lflag(a: str) -> bool:
        return a.startswith(('-l', '-L')) and a not in INTERNAL_LIBS

    def preserving(self, batch: T.Iterable[str]) -> None:
        """extend_preserving_lflags: -l/-L (except the compiler-internal libs) are kept as given
        ("Extend without reordering or de-dup to preserve `-L -l` sets", ninjabackend.py:3924),
        the rest is a normal extend.  Only defined here for batches whose non-lflags all come first."""
        batch = list(batch)
        self.add([a for a in batch if not self.is_lflag(a)])
        self.extend_direct([a for a in batch if self.is_lflag(a)])


def is_group_lib(a: str) -> bool:
    """What the gnu-ld grouping treats as a library (fixtures in test_compiler_args_class_gnuld)."""
    if a.startswith('-l') or a.startswith('-Wl,-l') or is_libfile(a):
        return True
    # An option whose text merely ENDS like a library name (-DEXT=.so, -Ldir/libx.so) is taken for one by the grouping.
    # Where the two markers go is not part of the property (they only matter to the libraries between them, and those
    # are still enclosed), so for such arguments the observed textual rule is followed instead of raising an alarm.
    return a.startswith('-') and not a.startswith('-Wl,') and is_libfile(a.lstrip('-') or 'x')


def native_gnu(args: T.Sequence[str], default_dirs: T.Sequence[str]) -> T.List[str]:
    """to_native for gcc + GNU ld: --start-group before the first and --end-group after the last library
    when there are several; -isystem of a default include dir removed (all three spellings)."""
    out = list(args)
    libs = [i for i, a in enumerate(out) if is_group_lib(a)]
    if len(libs) >= 2:
        out.insert(libs[-1] + 1, GROUP_END)
        out.insert(libs[0], GROUP_START)
    res: T.List[str] = []
    i = 0
    while i < len(out):
        a = out[i]
        if a == '-isystem':
            if i + 1 < len(out) and out[i + 1] in default_dirs:
                i += 2
                continue
        elif a.startswith('-isystem='):
            if a[9:] in default_dirs:
                i += 1
                continue
        elif a.startswith('-isystem'):
            if a[8:] in default_dirs:
                i += 1
                continue
        res.append(a)
        i += 1
    return res


def selftest() -> T.Optional[str]:
    """Docstring examples + pinned fixtures.  Returns an error text or None."""
    def chk(got: T.List[str], want: T.List[str], what: str) -> T.Optional[str]:
        return None if got == want else f'{what}: reference gives {got}, documented {want}'

    errs: T.List[T.Optional[str]] = []
    K = kind_clike
    # arglist.py:59-62
    a = RefArgs(K, ['-Lfoo', '-lbar'])
    a.add(['-Lpho', '-lbaz'])
    errs.append(chk(a.l, ['-Lpho', '-Lfoo', '-lbar', '-lbaz'], 'docstring example 1'))
    # arglist.py:68-71
    a = RefArgs(K, ['-Ifoo', '-Ibar'])
    a.add(['-Ifez', '-Ibaz', '-Werror'])
    errs.append(chk(a.l, ['-Ifez', '-Ibaz', '-Ifoo', '-Ibar', '-Werror'], 'docstring example 2'))
    a = RefArgs(K, ['-Ifez', '-Ibaz', '-Werror'])
    a.add(['-Ifoo', '-Ibar'])
    errs.append(chk(a.l, ['-Ifoo', '-Ibar', '-Ifez', '-Ibaz', '-Werror'], 'docstring example 3'))
    # internaltests.py test_compiler_args_class_none_flush
    a = RefArgs(K, ['-I.'])
    for b in (['-I..'], ['-I./tests/'], ['-I./tests2/'], ['-I.'], ['-I.', '-I./tests/']):
        a.add(b)
    errs.append(chk(a.l, ['-I.', '-I./tests/', '-I./tests2/', '-I..'], 'fixture none_flush 1'))
    a.add(['-I.', '-I./tests2/'])
    errs.append(chk(a.l, ['-I.', '-I./tests2/', '-I./tests/', '-I..'], 'fixture none_flush 2'))
    # internaltests.py test_compiler_args_class_clike
    errs.append(chk(RefArgs(K, ['-I.', '-I.']).l, ['-I.', '-I.'], 'fixture no de-dup on initialization'))
    a = RefArgs(K, ['-I.', '-I..'])
    a.add(['-I..'])
    errs.append(chk(a.l, ['-I..', '-I.'], 'fixture append'))
    a.add(['-O3'])
    a.add(['-O2', '-O2'])
    errs.append(chk(a.l, ['-I..', '-I.', '-O3', '-O2', '-O2'], 'fixture in-place addition'))
    a.l.remove('-O2')
    a.add(['-Ifoo', '-Ifoo'])
    errs.append(chk(a.l, ['-Ifoo', '-I..', '-I.', '-O3', '-O2'], 'fixture de-dup on addition'))
    a.add(['-Ifoo'])
    a.add(['-Ifoo', '-Ibaz'])
    errs.append(chk(a.l, ['-Ifoo', '-Ibaz', '-I..', '-I.', '-O3', '-O2'], 'fixture one new one old'))
    a.add(['-Ibar', '-Wall'])
    errs.append(chk(a.l, ['-Ibar', '-Ifoo', '-Ibaz', '-I..', '-I.', '-O3', '-O2', '-Wall'], 'fixture prepend and append'))
    for left, want in (
            (['-Ifoo'], ['-Ibar', '-Ifoo', '-Ibaz', '-I..', '-I.', '-O3', '-O2', '-Wall']),
            (['-Werror'], ['-Ibar', '-Ifoo', '-Ibaz', '-I..', '-I.', '-Werror', '-O3', '-O2', '-Wall']),
            (['-Ldir', '-Lbah'], ['-Ibar', '-Ifoo', '-Ibaz', '-I..', '-I.', '-Ldir', '-Lbah', '-Werror', '-O3', '-O2', '-Wall']),
            (['-Ibar', '-Ibaz', '-Ifoo'], ['-Ibar', '-Ifoo', '-Ibaz', '-I..', '-I.', '-Ldir', '-Lbah', '-Werror', '-O3', '-O2', '-Wall'])):
        n = RefArgs(K, left)          # reflected addition: list + args
        n.add(a.l)
        a = n
        errs.append(chk(a.l, want, f'fixture reflected addition {left}'))
    lst = RefArgs(K, ['-Lfoodir', '-lfoo'])
    lst.add(['-Lbardir', '-lbar'])
    lst.add(['-lbar'])
    errs.append(chk(lst.l, ['-Lbardir', '-Lfoodir', '-lfoo', '-lbar'], 'fixture libraries'))
    lst = RefArgs(K, ['-Lfoodir', '-lfoo'])
    lst.extend_direct(['-Lbardir', '-lbar'])
    lst.direct('-lbar')
    lst.direct('/libbaz.a')
    lst.direct('/libbaz.a')
    errs.append(chk(lst.l, ['-Lfoodir', '-lfoo', '-Lbardir', '-lbar', '-lbar', '/libbaz.a'], 'fixture direct'))
    # internaltests.py test_compiler_args_class_gnuld
    dd = ['/usr/include', '/usr/share/include', '/usr/local/include']
    errs.append(chk(native_gnu(['-Lfoodir', '-lfoo'], dd), ['-Lfoodir', '-lfoo'], 'fixture gnuld single lib'))
    errs.append(chk(native_gnu(lst.l, dd), ['-Lfoodir', '-Wl,--start-group', '-lfoo', '-Lbardir', '-lbar', '-lbar', '/libbaz.a',
                                           '-Wl,--end-group'], 'fixture gnuld group'))
    lst.add(['-Lfoo', '-Wl,--export-dynamic'])
    lst.add(['-Wl,-ldl'])
    errs.append(chk(native_gnu(lst.l, dd), ['-Lfoo', '-Lfoodir', '-Wl,--start-group', '-lfoo', '-Lbardir', '-lbar', '-lbar', '/libbaz.a',
                                           '-Wl,--export-dynamic', '-Wl,-ldl', '-Wl,--end-group'], 'fixture gnuld -Wl,-l'))
    # internaltests.py test_compiler_args_remove_system
    lst = RefArgs(K, ['-Lfoodir', '-lfoo'])
    lst.add(['-isystem/usr/include', '-isystem=/usr/share/include', '-DSOMETHING_IMPORTANT=1', '-isystem', '/usr/local/include'])
    errs.append(chk(native_gnu(lst.l, dd), ['-Lfoodir', '-lfoo', '-DSOMETHING_IMPORTANT=1'], 'fixture remove_system'))
    # property sentences on a duplicate of each kind
    a = RefArgs(K, [])
    a.add(['-DA', '-O2', '-pthread'])
    a.add(['-DA', '-pthread', '-D', 'X', '-D', 'X'])
    errs.append(chk(a.l, ['-O2', '-pthread', '-DA', '-D', 'X', '-D', 'X'], 'P3/P4 sentence'))
    for e in errs:
        if e:
            return e
    return None
