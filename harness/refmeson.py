"""refmeson - an independent model of the Meson build-definition language.

Written from docs/markdown/Syntax.md, docs/yaml/elementary/*.yml, docs/yaml/functions/{message,assert,
get_variable,set_variable,is_variable,unset_variable,range,subdir,subproject}.yaml, docs/yaml/objects/
{range,subproject}.yaml and the sentence of property C01.  It shares no code with mesonbuild.

Parts
-----
* AST      plain JSON-able nested lists (see below) so that generated cases are replayable.
* Printer  `print_program(prog, style)`: minimal parentheses per the documented precedence/associativity;
           redundant parentheses only where the AST carries a ['paren', e] node; legal whitespace variation
           driven by a `style` list of ints (all zeros / empty = plain style).
* Evaluator `evaluate(prog)` -> Outcome(kind = 'ok' | 'error' | 'undefined', ...).  'undefined' means the
           program enters a region the documentation leaves open (or calls broken); such programs must be
           excluded, never judged.
* Lexer + Parser `parse(text)` -> statement list in the same AST (grammar section of Syntax.md, with the
           three restrictions stated by property C01: comparisons do not chain, unary operators do not stack,
           no ternary inside a ternary).  Raises ParseError.

AST
---
expressions
  ['int', n, form]            n >= 0, form in 'd' 'x' 'X' 'o' 'b'  (literal spelling)
  ['bool', b]
  ['str', raw, kind]          raw = source text between the quotes; kind 's' '...'; 'm' '''...''';
                              'fs' f'...'; 'fm' f'''...'''
  ['id', name]
  ['arr', [e, ...]]
  ['dict', [[k, v], ...]]
  ['not', e]  ['neg', e]
  ['bin', op, l, r]           op in + - * / % == != < <= > >= in 'not in' and or
  ['tern', c, a, b]
  ['idx', obj, index]
  ['call', fname, args]       args = [[kwname_or_None, e], ...] in source order
  ['meth', obj, name, args]
  ['paren', e]                explicit (redundant or not) parentheses in the source
  ['bare', e]                 print e WITHOUT the parentheses the printer would add - only used to spell the
                              three rejected shapes (a < b < c, not not a, c ? (d ? ..) : ..) and an assignment
                              inside an argument list.  Always a syntax-class fault for the evaluator.
  ['assign', name, e] / ['plusassign', name, e]  as expression only under 'bare' (fault)
statements
  ['expr', e]  ['assign', name, e]  ['plusassign', name, e]
  ['if', [[cond, block], ...], elseblock_or_None]
  ['foreach', [names], iterable, block]
  ['break']  ['continue']
program
  {'files': {'meson.build': [stmts], 'sub/meson.build': [...], 'subprojects/sp/meson.build': [...]}}
"""
from __future__ import annotations

import typing as T
import unicodedata

KEYWORDS = {'true', 'false', 'if', 'else', 'elif', 'endif', 'and', 'or', 'not', 'foreach', 'endforeach',
            'in', 'continue', 'break'}
BUILTIN_NAMES = {'meson', 'host_machine', 'build_machine', 'target_machine'}
CMP_OPS = ('==', '!=', '<', '<=', '>', '>=', 'in', 'not in')


# ---------------------------------------------------------------------------------------------
# outcomes

class Undefined(Exception):
    """the documentation does not define what happens here"""

    def __init__(self, reason: str):
        super().__init__(reason)
        self.reason = reason


class MesonError(Exception):
    """the documentation says this program must be rejected.  kind: 'runtime' (the fault is only detectable
    when the construct is evaluated) or 'syntax' (the grammar already excludes it - detection when the file is
    loaded or when the construct is reached are both acceptable)."""

    def __init__(self, why: str, kind: str = 'runtime'):
        super().__init__(why)
        self.why = why
        self.kind = kind


class _Break(Exception):
    pass


class _Continue(Exception):
    pass


class Void:
    def __repr__(self) -> str:
        return 'VOID'


VOID = Void()


class RangeVal:
    def __init__(self, start: int, stop: int, step: int):
        self.start, self.stop, self.step = start, stop, step

    def items(self) -> T.List[int]:
        return list(range(self.start, self.stop, self.step))


class SubprojectVal:
    def __init__(self, name: str, env: T.Dict[str, T.Any], unspec: T.Set[str]):
        self.name = name
        self.env = env
        self.unspec = unspec


class Outcome:
    def __init__(self) -> None:
        self.kind = 'ok'
        self.trace: T.List[T.Tuple[str, str]] = []      # (scope, text); scope '' = main project
        self.prefix_lens: T.List[int] = []              # error: acceptable numbers of messages before the fault
        self.reason = ''
        self.error_kind = ''
        self.error_file = ''
        self.error_files: T.List[str] = []
        self.env: T.Dict[str, T.Any] = {}
        self.unspec: T.Set[str] = set()
        self.subenvs: T.Dict[str, T.Tuple[T.Dict[str, T.Any], T.Set[str]]] = {}
        self.steps = 0
        self.flags: T.Set[str] = set()    # documented behaviours met on the way that are known to be broken in the tool

    def __repr__(self) -> str:
        return f'Outcome({self.kind}, reason={self.reason!r}, trace={self.trace!r}, prefix_lens={self.prefix_lens})'


def tname(v: T.Any) -> str:
    if isinstance(v, bool):
        return 'bool'
    if isinstance(v, int):
        return 'int'
    if isinstance(v, str):
        return 'str'
    if isinstance(v, list):
        return 'arr'
    if isinstance(v, dict):
        return 'dict'
    if isinstance(v, RangeVal):
        return 'range'
    if isinstance(v, SubprojectVal):
        return 'subproject'
    if v is VOID:
        return 'void'
    raise AssertionError(f'not a meson value: {v!r}')


# ---------------------------------------------------------------------------------------------
# string literal decoding (Syntax.md "Strings": escape list, "Unrecognized escape sequences are left in the
# string unchanged", "''' ... raw strings that do not support the escape sequences")

_SIMPLE_ESC = {'\\': '\\', "'": "'", 'a': '\a', 'b': '\b', 'f': '\f', 'n': '\n', 'r': '\r', 't': '\t', 'v': '\v'}
_HEX = set('0123456789abcdefABCDEF')
_OCT = set('01234567')


def decode_escapes(raw: str) -> str:
    out: T.List[str] = []
    i, n = 0, len(raw)
    while i < n:
        c = raw[i]
        if c != '\\' or i + 1 >= n:
            out.append(c)
            i += 1
            continue
        d = raw[i + 1]
        if d in _SIMPLE_ESC:
            out.append(_SIMPLE_ESC[d])
            i += 2
        elif d in _OCT:
            j = i + 1
            while j < n and j < i + 4 and raw[j] in _OCT:
                j += 1
            out.append(chr(int(raw[i + 1:j], 8)))
            i = j
        elif d in 'xuU':
            width = {'x': 2, 'u': 4, 'U': 8}[d]
            digs = raw[i + 2:i + 2 + width]
            if len(digs) == width and all(ch in _HEX for ch in digs):
                cp = int(digs, 16)
                if cp > 0x10FFFF:
                    raise Undefined('escape \\U beyond the Unicode range')
                if 0xD800 <= cp <= 0xDFFF:
                    raise Undefined('escape denotes a lone surrogate')
                out.append(chr(cp))
                i += 2 + width
            else:
                out.append(c)      # unrecognised: left unchanged
                i += 1
        elif d == 'N' and i + 2 < n and raw[i + 2] == '{':
            j = raw.find('}', i + 3)
            if j <= i + 3:
                out.append(c)
                i += 1
                continue
            name = raw[i + 3:j]
            try:
                ch = unicodedata.lookup(name)
            except KeyError:
                raise Undefined('\\N{...} with a name that is not in the Unicode database')
            if len(ch) != 1 or unicodedata.name(ch, '') != name:
                raise Undefined('\\N{...} alias / named sequence / non canonical spelling')
            out.append(ch)
            i = j + 1
        else:
            out.append(c)
            i += 1
    return ''.join(out)


def string_value(raw: str, kind: str) -> str:
    if kind in ('s', 'fs'):
        if '\n' in raw:
            raise Undefined("newline inside a '...' literal")
        return decode_escapes(raw)
    return raw


def escape_single(s: str) -> str:
    """raw text for a '...' literal denoting s (inverse of decode_escapes; every backslash is doubled so no
    accidental escape can appear)."""
    out = []
    for ch in s:
        o = ord(ch)
        if ch == '\\':
            out.append('\\\\')
        elif ch == "'":
            out.append("\\'")
        elif ch == '\n':
            out.append('\\n')
        elif ch == '\r':
            out.append('\\r')
        elif ch == '\t':
            out.append('\\t')
        elif o < 0x20 or o == 0x7f:
            out.append('\\x%02x' % o)
        elif o in (0x85, 0x2028, 0x2029):
            out.append('\\u%04x' % o)
        else:
            out.append(ch)
    return ''.join(out)


def lit_of(v: T.Any) -> list:
    """AST of a literal expression whose value is v."""
    t = tname(v)
    if t == 'bool':
        return ['bool', v]
    if t == 'int':
        return ['int', v, 'd'] if v >= 0 else ['neg', ['int', -v, 'd']]
    if t == 'str':
        return ['str', escape_single(v), 's']
    if t == 'arr':
        return ['arr', [lit_of(x) for x in v]]
    if t == 'dict':
        return ['dict', [[lit_of(k), lit_of(x)] for k, x in v.items()]]
    raise ValueError(f'no literal for {t}')


# ---------------------------------------------------------------------------------------------
# printer

PREC = {'tern': 1, 'or': 2, 'and': 3, 'cmp': 4, 'add': 5, 'mul': 6, 'unary': 7, 'postfix': 8, 'primary': 9}


def _binlevel(op: str) -> str:
    if op == 'or':
        return 'or'
    if op == 'and':
        return 'and'
    if op in CMP_OPS:
        return 'cmp'
    if op in ('+', '-'):
        return 'add'
    if op in ('*', '/', '%'):
        return 'mul'
    raise ValueError(op)


def prec_of(e: list) -> int:
    k = e[0]
    if k == 'tern':
        return 1
    if k == 'bin':
        return PREC[_binlevel(e[1])]
    if k in ('not', 'neg'):
        return 7
    if k in ('idx', 'call', 'meth'):
        return 8
    if k in ('assign', 'plusassign'):
        return 0
    return 9


class Style:
    """entropy stream for layout choices; exhausted stream = 0 = plainest choice."""

    def __init__(self, data: T.Optional[T.Sequence[int]] = None):
        self.data = list(data or [])
        self.i = 0

    def next(self, n: int) -> int:
        if self.i >= len(self.data) or n <= 1:
            self.i += 1
            return 0
        v = self.data[self.i] % n
        self.i += 1
        return v


_SP = [' ', '', '  ', '\t', ' \\\n  ']     # around symbolic operators (last: line continuation)
_KWSP = [' ', '  ', '\t', ' \\\n ']        # around keyword operators (never empty)


class Printer:
    def __init__(self, style: T.Optional[T.Sequence[int]] = None):
        self.st = Style(style)
        self.depth = 0      # bracket nesting in which a newline is insignificant (arg lists / [] / {})

    # -- whitespace helpers
    def sp(self) -> str:
        v = self.st.next(9)
        if v < 5:
            return ' '
        s = _SP[v - 4]
        if s.endswith('  ') and '\n' in s and self.depth:
            return ' '
        return s

    def kwsp(self) -> str:
        v = self.st.next(8)
        if v < 5:
            return ' '
        s = _KWSP[v - 4]
        if '\n' in s and self.depth:
            return ' '
        return s

    def comma(self, allow_nl: bool) -> str:
        v = self.st.next(8)
        if v < 4 or not allow_nl:
            return ', ' if v % 2 == 0 else ','
        if v < 6:
            return ',\n' + '  ' * (self.depth + 1)
        if v == 6:
            return ', # c\n'
        return ' ,\n\n\t'

    def expr(self, e: list, minp: int = 1) -> str:
        p = prec_of(e)
        s = self._expr(e)
        if p < minp and e[0] != 'bare':
            return '(' + s + ')'
        return s

    def args(self, args: T.List[list], allow_nl: bool = True) -> str:
        self.depth += 1
        parts = []
        for kw, e in args:
            if kw is None:
                parts.append(self.expr(e, 1))
            else:
                parts.append(kw + (':' if self.st.next(4) == 1 else ': ' if self.st.next(3) < 2 else ' : ') + self.expr(e, 1))
        out = ''
        for i, ptxt in enumerate(parts):
            if i:
                out += self.comma(allow_nl)
            out += ptxt
        lead = ''
        if parts and allow_nl and self.st.next(10) == 9:
            lead = '\n    '
        self.depth -= 1
        return lead + out

    def _expr(self, e: list) -> str:
        k = e[0]
        if k == 'int':
            n, form = e[1], e[2]
            if form == 'x':
                return '0x%x' % n
            if form == 'X':
                return '0x%X' % n
            if form == 'o':
                return '0o%o' % n
            if form == 'b':
                return '0b' + bin(n)[2:]
            return str(n)
        if k == 'bool':
            return 'true' if e[1] else 'false'
        if k == 'str':
            raw, kind = e[1], e[2]
            if kind == 's':
                return "'" + raw + "'"
            if kind == 'm':
                return "'''" + raw + "'''"
            if kind == 'fs':
                return "f'" + raw + "'"
            if kind == 'fm':
                return "f'''" + raw + "'''"
            raise ValueError(kind)
        if k == 'id':
            return e[1]
        if k == 'arr':
            self.depth += 1
            items = [self.expr(x, 1) for x in e[1]]
            out = ''
            for i, s in enumerate(items):
                if i:
                    out += self.comma(True)
                out += s
            self.depth -= 1
            return '[' + out + ']'
        if k == 'dict':
            self.depth += 1
            out = ''
            for i, (kk, vv) in enumerate(e[1]):
                if i:
                    out += self.comma(True)
                out += self.expr(kk, 2) + (': ' if self.st.next(3) < 2 else ' : ') + self.expr(vv, 1)
            if e[1] and self.st.next(6) == 5:
                out += ','            # trailing comma (Syntax.md dictionary foreach example)
            self.depth -= 1
            return '{' + out + '}'
        if k == 'not':
            return 'not' + self.kwsp() + self.expr(e[1], 8)
        if k == 'neg':
            return '-' + ('' if self.st.next(4) < 3 else ' ') + self.expr(e[1], 8)
        if k == 'bin':
            op = e[1]
            lvl = PREC[_binlevel(op)]
            if lvl == 4:
                lp, rp = 5, 5
            else:
                lp, rp = lvl, lvl + 1
            l = self.expr(e[2], lp)
            r = self.expr(e[3], rp)
            if op in ('and', 'or', 'in'):
                return l + self.kwsp() + op + self.kwsp() + r
            if op == 'not in':
                return l + self.kwsp() + 'not' + self.kwsp() + 'in' + self.kwsp() + r
            a, b = self.sp(), self.sp()
            return l + a + op + b + r
        if k == 'tern':
            c = self.expr(e[1], 2)
            a = self.expr(e[2], 2)      # a nested ternary is parenthesised unless spelled through 'bare'
            b = self.expr(e[3], 2)
            return c + self.sp() + '?' + self.sp() + a + self.sp() + ':' + self.sp() + b
        if k == 'idx':
            o = self.expr(e[1], 8)
            self.depth += 1
            i = self.expr(e[2], 1)
            self.depth -= 1
            return o + '[' + i + ']'
        if k == 'call':
            return e[1] + ('(' if self.st.next(6) < 5 else ' (') + self.args(e[2]) + ')'
        if k == 'meth':
            o = self.expr(e[1], 8)
            return o + '.' + e[2] + '(' + self.args(e[3]) + ')'
        if k == 'paren':
            return '(' + self.expr(e[1], 1) + ')'
        if k == 'bare':
            return self._expr(e[1])
        if k == 'assign':
            return e[1] + self.sp() + '=' + self.sp() + self.expr(e[2], 1)
        if k == 'plusassign':
            return e[1] + self.sp() + '+=' + self.sp() + self.expr(e[2], 1)
        raise ValueError(f'unknown expression node {k!r}')

    # -- statements
    def eol(self) -> str:
        v = self.st.next(12)
        if v < 8:
            return '\n'
        if v == 8:
            return ' # comment\n'
        if v == 9:
            return '\n\n'
        if v == 10:
            return '\n# a comment line\n'
        return '  \n'

    def block(self, stmts: T.List[list], ind: str) -> str:
        out = ''
        for s in stmts:
            out += self.stmt(s, ind)
        return out

    def stmt(self, s: list, ind: str) -> str:
        k = s[0]
        pad = ind if self.st.next(5) < 4 else ind + ' '
        if k == 'expr':
            return pad + self.expr(s[1], 1) + self.eol()
        if k == 'assign':
            return pad + s[1] + self.sp() + '=' + self.sp() + self.expr(s[2], 1) + self.eol()
        if k == 'plusassign':
            return pad + s[1] + self.sp() + '+=' + self.sp() + self.expr(s[2], 1) + self.eol()
        if k == 'break' or k == 'continue':
            return pad + k + self.eol()
        if k == 'if':
            out = ''
            for i, (c, blk) in enumerate(s[1]):
                out += pad + ('if' if i == 0 else 'elif') + self.kwsp() + self.expr(c, 1) + self.eol()
                out += self.block(blk, ind + '  ')
            if s[2] is not None:
                out += pad + 'else' + self.eol()
                out += self.block(s[2], ind + '  ')
            out += pad + 'endif' + self.eol()
            return out
        if k == 'foreach':
            names = (',' + ('' if self.st.next(3) == 2 else ' ')).join(s[1])
            out = pad + 'foreach' + self.kwsp() + names + self.sp() + ':' + self.sp() + self.expr(s[2], 2) + self.eol()
            out += self.block(s[3], ind + '  ')
            out += pad + 'endforeach' + self.eol()
            return out
        raise ValueError(f'unknown statement node {k!r}')


def print_file(stmts: T.List[list], style: T.Optional[T.Sequence[int]] = None) -> str:
    return Printer(style).block(stmts, '')


def print_program(prog: dict, style: T.Optional[T.Sequence[int]] = None) -> T.Dict[str, str]:
    out = {}
    pr = Printer(style)
    for path in sorted(prog['files']):
        out[path] = pr.block(prog['files'][path], '')
    return out


# ---------------------------------------------------------------------------------------------
# reference evaluator

_ASCII_WS = ' \t\n\r\x0b\x0c'


def _is_ident(s: str) -> bool:
    if not s or not (s[0] == '_' or ('a' <= s[0] <= 'z') or ('A' <= s[0] <= 'Z')):
        return False
    return all(c == '_' or ('a' <= c <= 'z') or ('A' <= c <= 'Z') or ('0' <= c <= '9') for c in s)


def _scan_placeholders(tmpl: str, body_ok: T.Callable[[str], bool]) -> T.List[T.Union[str, T.Tuple[str]]]:
    """split a template into literal pieces (str) and placeholders ((body,)).  A placeholder is
    @body@ with body accepted by body_ok, scanned left to right.  Templates whose '@' characters do not
    pair up unambiguously are not defined by the documentation."""
    parts: T.List[T.Union[str, T.Tuple[str]]] = []
    i, n = 0, len(tmpl)
    lit = ''
    nph = 0
    while i < n:
        c = tmpl[i]
        if c == '@':
            j = tmpl.find('@', i + 1)
            if j > i + 1 and body_ok(tmpl[i + 1:j]):
                if lit:
                    parts.append(lit)
                    lit = ''
                parts.append((tmpl[i + 1:j],))
                nph += 1
                i = j + 1
                continue
        lit += c
        i += 1
    if lit:
        parts.append(lit)
    ats = tmpl.count('@')
    if ats != 2 * nph and not (nph == 0 and ats <= 1):
        raise Undefined('template with stray @ characters (placeholder pairing ambiguous)')
    return parts


def _canon_decimal(s: str) -> bool:
    return s.isascii() and s.isdigit() and (s == '0' or s[0] != '0')


def _all_ascii_digits(s: str) -> bool:
    return bool(s) and all('0' <= c <= '9' for c in s)


def _vercmp_simple(a: str, b: str) -> int:
    pa = [int(x) for x in a.split('.')]
    pb = [int(x) for x in b.split('.')]
    for x, y in zip(pa, pb):
        if x != y:
            return 1 if x > y else -1
    return (len(pa) > len(pb)) - (len(pa) < len(pb))


def _simple_version(s: str) -> bool:
    parts = s.split('.')
    return all(_canon_decimal(p) for p in parts) and len(parts) <= 4


def _digits_ok(s: str, allowed: str) -> bool:
    """digits with optional single underscores between them (and one allowed right after a base prefix is
    handled by the caller)"""
    if not s:
        return False
    prev_us = True
    for c in s:
        if c == '_':
            if prev_us:
                return False
            prev_us = True
        elif c in allowed:
            prev_us = False
        else:
            return False
    return not prev_us


def str_to_int(s: str) -> int:
    """Syntax.md '.to_int()' + the pinned fixture test cases/common/286 (signs, 0x/0o/0b either case,
    underscores, leading zeros are decimal).  Anything else that might or might not be a number: Undefined."""
    body = s
    sign = 1
    if body[:1] in ('+', '-'):
        sign = -1 if body[0] == '-' else 1
        body = body[1:]
    low = body[:2].lower()
    if low in ('0x', '0o', '0b'):
        base, allowed = {'0x': (16, '0123456789abcdefABCDEF'), '0o': (8, '01234567'), '0b': (2, '01')}[low]
        rest = body[2:]
        if rest.startswith('_'):
            rest = rest[1:]
        if _digits_ok(rest, allowed):
            return sign * int(rest.replace('_', ''), base)
    elif _digits_ok(body, '0123456789'):
        return sign * int(body.replace('_', ''), 10)
    # clearly not a number: no ASCII digit at all, or an ASCII letter that no accepted spelling contains
    if s.isascii() and s == s.strip(_ASCII_WS):
        if not any('0' <= c <= '9' for c in s):
            raise MesonError('to_int of a string without digits')
        if any(c.isalpha() and c.lower() not in 'abcdefxo' for c in s):
            raise MesonError('to_int of a string with letters')
    raise Undefined('to_int on a spelling the documentation does not cover')


class Evaluator:
    MAX_STEPS = 20000

    def __init__(self, prog: dict):
        self.files: T.Dict[str, T.List[list]] = prog['files']
        self.out = Outcome()
        self.trace = self.out.trace
        self.scope = ''
        self.env: T.Dict[str, T.Any] = {}
        self.unspec: T.Set[str] = set()
        self.curdir = ''
        self.visited: T.Set[str] = set()
        self.loop_depth = 0
        self.in_expr_msgs = 0           # messages emitted from inside an expression in the current statement
        self.steps = 0
        self.syntax_load_prefix: T.List[T.Tuple[str, int]] = []   # (file, trace length when it was loaded)
        self.cur_file = 'meson.build'
        self.subprojects: T.Dict[str, SubprojectVal] = {}
        self.tern_arm_depth = 0

    # -- driver ------------------------------------------------------------------------------
    def run(self) -> Outcome:
        out = self.out
        try:
            self.load_and_run('meson.build', root=True)
            out.kind = 'ok'
            if self.syntax_load_prefix:
                # a syntax-class fault sits in code that was loaded but never evaluated: whether that
                # must be rejected depends on when the fault is detected -> not defined
                raise Undefined('syntax-class fault in code that is never evaluated')
        except Undefined as u:
            out.kind = 'undefined'
            out.reason = u.reason
        except MesonError as e:
            out.kind = 'error'
            out.reason = e.why
            out.error_kind = e.kind
            out.error_file = self.cur_file
            lens = {len(self.trace)}
            files = {self.cur_file}
            for f, n in self.syntax_load_prefix:
                lens.add(n)
                files.add(f)
            out.prefix_lens = sorted(lens)
            out.error_files = sorted(files)
        except (_Break, _Continue):
            raise AssertionError('break/continue escaped')
        except RecursionError:
            out.kind = 'undefined'
            out.reason = 'reference evaluator recursion limit'
        out.env = self.env
        out.unspec = self.unspec
        out.steps = self.steps
        for name, sp in self.subprojects.items():
            out.subenvs[name] = (sp.env, sp.unspec)
        return out

    def load_and_run(self, path: str, root: bool = False) -> None:
        stmts = self.files[path]
        prev_file = self.cur_file
        self.cur_file = path
        if file_has_syntax_fault(stmts):
            self.syntax_load_prefix.append((path, len(self.trace)))
        if root:
            # framing: the first statement of a project's top file is project(...)
            if not stmts or stmts[0][0] != 'expr' or stmts[0][1][0] != 'call' or stmts[0][1][1] != 'project':
                raise Undefined('top file does not start with project()')
            stmts = stmts[1:]
        self.block(stmts)
        self.cur_file = prev_file

    # -- statements --------------------------------------------------------------------------
    def tick(self) -> None:
        self.steps += 1
        if self.steps > self.MAX_STEPS:
            raise Undefined('step budget of the reference evaluator exceeded')

    def block(self, stmts: T.List[list]) -> None:
        for s in stmts:
            self.stmt(s)

    def stmt(self, s: list) -> None:
        try:
            self._stmt(s)
        except MesonError as e:
            k = s[0]
            heads: T.List[list] = []
            if k == 'expr':
                heads = [x for _, x in s[1][2]] if s[1][0] == 'call' else [s[1]]
            elif k in ('assign', 'plusassign'):
                heads = [s[2]]
            self._order_rule(e, heads)
            raise

    def _order_rule(self, e: 'MesonError', heads: T.List[list]) -> None:
        if any(_has_effect_call(h) for h in heads) and not (e.why == 'void used as a value' and self.in_expr_msgs == 1
                                                            and sum(_count_effect_calls(h) for h in heads) == 1):
            # an effectful call sits inside an expression next to another fault: which one is met
            # first depends on an evaluation order the documentation does not fix
            raise Undefined('evaluation order inside one expression would be observable')

    def eval_head(self, e: list) -> T.Any:
        """The condition of an if / the iterable of a foreach: one expression like the right side of an assignment."""
        try:
            return self.eval(e)
        except MesonError as ex:
            self._order_rule(ex, [e])
            raise

    def _stmt(self, s: list) -> None:
        self.tick()
        self.in_expr_msgs = 0
        k = s[0]
        if k == 'expr':
            e = s[1]
            # a call in statement position may be void
            self.eval(e, allow_void=True, stmt_level=True)
        elif k == 'assign':
            self.assign(s[1], self.eval(s[2]))
        elif k == 'plusassign':
            self.plusassign(s[1], s[2])
        elif k == 'if':
            for cond, blk in s[1]:
                self.in_expr_msgs = 0
                c = self.eval_head(cond)
                if tname(c) != 'bool':
                    raise MesonError('if condition is not a boolean')
                if c:
                    self.block(blk)
                    return
            if s[2] is not None:
                self.block(s[2])
        elif k == 'foreach':
            self.foreach(s)
        elif k == 'break':
            if self.loop_depth == 0:
                raise MesonError('break outside of a loop', 'syntax')
            raise _Break()
        elif k == 'continue':
            if self.loop_depth == 0:
                raise MesonError('continue outside of a loop', 'syntax')
            raise _Continue()
        else:
            raise AssertionError(f'unknown statement {k}')

    def assign(self, name: str, v: T.Any) -> None:
        if name in BUILTIN_NAMES:
            raise Undefined('assignment to a builtin object name')
        if tname(v) == 'void':
            raise MesonError('void assigned')
        self.env[name] = v
        self.unspec.discard(name)

    def plusassign(self, name: str, e: list) -> None:
        # both the old value and the addend are needed; either order of evaluation ends in the same state
        # or in an error, and expressions have no observable effects (see in_expr_msgs)
        add = self.eval(e)
        old = self.lookup(name)
        t = tname(old)
        if t == 'arr':
            if tname(add) == 'arr':
                new = old + add
            else:
                new = old + [add]         # Syntax.md "When adding a single item, you do not need to enclose it"
        else:
            new = self.binop('+', old, add, plusassign=True)
        self.env[name] = new
        self.unspec.discard(name)

    def foreach(self, s: list) -> None:
        names, it, blk = s[1], s[2], s[3]
        v = self.eval_head(it)
        t = tname(v)
        if t == 'arr':
            items: T.List[T.Any] = [(x,) for x in v]
            need = 1
        elif t == 'dict':
            items = list(v.items())
            need = 2
        elif t == 'range':
            items = [(x,) for x in v.items()]
            need = 1
        else:
            raise MesonError('foreach over something that is not iterable')
        if len(names) != need:
            raise MesonError('foreach with the wrong number of loop variables')
        for n in names:
            if n in BUILTIN_NAMES:
                raise Undefined('loop variable named like a builtin object')
        self.loop_depth += 1
        try:
            for tup in items:
                for n, x in zip(names, tup):
                    self.env[n] = x
                    self.unspec.discard(n)
                try:
                    self.block(blk)
                except _Continue:
                    continue
                except _Break:
                    break
        finally:
            self.loop_depth -= 1
        if items:
            # the documentation does not say what a loop variable holds after the loop
            for n in names:
                if n in self.env:
                    self.unspec.add(n)

    # -- expressions -------------------------------------------------------------------------
    def lookup(self, name: str) -> T.Any:
        if name in BUILTIN_NAMES:
            raise Undefined('use of a builtin object')
        if name in self.env:
            if name in self.unspec:
                raise Undefined('loop variable read after its loop')
            return self.env[name]
        raise MesonError('unknown variable')

    def eval(self, e: list, allow_void: bool = False, stmt_level: bool = False) -> T.Any:
        self.tick()
        v = self._eval(e, stmt_level)
        if v is VOID and not allow_void:
            raise MesonError('void used as a value')
        return v

    def _eval(self, e: list, stmt_level: bool = False) -> T.Any:
        k = e[0]
        if k == 'int':
            return e[1]
        if k == 'bool':
            return e[1]
        if k == 'str':
            s = string_value(e[1], e[2])
            if e[2] in ('fs', 'fm'):
                return self.fstring(s)
            return s
        if k == 'id':
            return self.lookup(e[1])
        if k == 'paren':
            return self.eval(e[1])
        if k == 'arr':
            return [self.eval(x) for x in e[1]]
        if k == 'dict':
            d: T.Dict[str, T.Any] = {}
            for kk, vv in e[1]:
                key = self.eval(kk)
                if tname(key) != 'str':
                    raise MesonError('dictionary key is not a string')
                val = self.eval(vv)
                if key in d:
                    raise MesonError('duplicate dictionary key')
                d[key] = val
            return d
        if k == 'not':
            v = self.eval(e[1])
            if tname(v) != 'bool':
                raise MesonError('not applied to a non-boolean')
            return not v
        if k == 'neg':
            v = self.eval(e[1])
            if tname(v) == 'bool':
                raise MesonError('unary minus applied to a boolean')
            if tname(v) != 'int':
                raise MesonError('unary minus applied to a non-integer')
            return -v
        if k == 'bin':
            op = e[1]
            if op in ('and', 'or'):
                l = self.eval(e[2])
                if tname(l) != 'bool':
                    raise MesonError('logical operator applied to a non-boolean')
                if op == 'and' and not l:
                    return False
                if op == 'or' and l:
                    return True
                r = self.eval(e[3])
                if tname(r) != 'bool':
                    raise MesonError('logical operator applied to a non-boolean')
                return r
            l = self.eval(e[2])
            r = self.eval(e[3])
            return self.binop(op, l, r)
        if k == 'tern':
            if self.tern_arm_depth:
                raise MesonError('ternary inside a ternary', 'syntax')
            c = self.eval(e[1])
            if tname(c) != 'bool':
                raise MesonError('ternary condition is not a boolean')
            self.tern_arm_depth += 1
            try:
                return self.eval(e[2] if c else e[3])
            finally:
                self.tern_arm_depth -= 1
        if k == 'idx':
            o = self.eval(e[1])
            i = self.eval(e[2])
            return self.index(o, i)
        if k == 'call':
            return self.call(e[1], e[2], stmt_level)
        if k == 'meth':
            o = self.eval(e[1])
            pos, kw = self.evalargs(e[3])
            return self.method(o, e[2], pos, kw)
        if k == 'bare':
            raise MesonError('construct the grammar excludes: ' + e[1][0], 'syntax')
        if k in ('assign', 'plusassign'):
            raise MesonError('assignment used as an expression', 'syntax')
        raise AssertionError(f'unknown expression {k}')

    def evalargs(self, args: T.List[list]) -> T.Tuple[T.List[T.Any], T.Dict[str, T.Any]]:
        seen_kw = False
        for kw, _ in args:
            if kw is not None:
                seen_kw = True
            elif seen_kw:
                raise MesonError('positional argument after a keyword argument', 'syntax')
        pos: T.List[T.Any] = []
        kws: T.Dict[str, T.Any] = {}
        for kw, ex in args:
            v = self.eval(ex)
            if kw is None:
                pos.append(v)
            else:
                if kw in kws:
                    raise MesonError('keyword argument given twice')
                if kw == 'kwargs':
                    raise Undefined('kwargs: expansion')
                kws[kw] = v
        return pos, kws

    def fstring(self, tmpl: str) -> str:
        parts = _scan_placeholders(tmpl, _is_ident)
        out = ''
        for p in parts:
            if isinstance(p, str):
                out += p
            else:
                name = p[0]
                if name in KEYWORDS:
                    raise Undefined('f-string placeholder spelled like a keyword')
                out += self.render(self.lookup(name), 'f-string')
        return out

    def render(self, v: T.Any, where: str) -> str:
        t = tname(v)
        if t == 'str':
            return v
        if t == 'int':
            return str(v)
        if t == 'bool':
            return 'true' if v else 'false'
        if t in ('arr', 'dict'):
            raise Undefined(f'rendering of a container by {where}')
        raise Undefined(f'rendering of {t} by {where}')

    # -- operators
    def deep_eq(self, a: T.Any, b: T.Any) -> bool:
        ta, tb = tname(a), tname(b)
        if ta != tb:
            if {ta, tb} == {'int', 'bool'}:
                raise Undefined('int compared with bool')
            raise Undefined('equality that must compare nested values of different types')
        if ta == 'arr':
            res = len(a) == len(b)
            for x, y in zip(a, b):
                if not self.deep_eq(x, y):
                    res = False
            return res
        if ta == 'dict':
            res = set(a) == set(b)
            for kk in a:
                if kk in b and not self.deep_eq(a[kk], b[kk]):
                    res = False
            return res
        if ta in ('range', 'subproject'):
            raise Undefined('comparison of opaque objects')
        return a == b

    def member(self, x: T.Any, arr: T.List[T.Any]) -> bool:
        found = False
        tx = tname(x)
        for el in arr:
            te = tname(el)
            if te != tx:
                if {te, tx} == {'int', 'bool'}:
                    raise Undefined('int compared with bool')
                continue
            if self.deep_eq(x, el):
                found = True
        return found

    def binop(self, op: str, l: T.Any, r: T.Any, plusassign: bool = False) -> T.Any:
        tl, tr = tname(l), tname(r)
        for t in (tl, tr):
            if t in ('range', 'subproject'):
                raise Undefined('operator applied to an opaque object')
        if op in ('in', 'not in'):
            if tr == 'arr':
                res = self.member(l, r)
            elif tr == 'dict':
                if tl == 'str':
                    res = l in r
                elif tl == 'int':
                    self.out.flags.add('int-in-dict')
                    res = False       # Syntax.md Dictionaries: "if 42 in my_dict # This condition is false"
                else:
                    raise Undefined('non-string, non-integer needle searched in a dictionary')
            elif tr == 'str':
                raise Undefined('in on strings is not part of the anchored documentation')
            else:
                raise MesonError('in applied to something that is not a container')
            return res if op == 'in' else not res
        if {tl, tr} == {'int', 'bool'}:
            raise Undefined('int mixed with bool')
        if op in ('==', '!='):
            if tl != tr:
                raise MesonError('equality between different types')
            res = self.deep_eq(l, r)
            return res if op == '==' else not res
        if op in ('<', '<=', '>', '>='):
            if tl != tr:
                raise MesonError('ordering between different types')
            if tl != 'int':
                raise Undefined('ordering of non-integers')
            return {'<': l < r, '<=': l <= r, '>': l > r, '>=': l >= r}[op]
        # arithmetic
        if tl == 'arr' and op == '+':
            if tr == 'arr':
                return l + r
            raise Undefined('array + non-array outside +=')
        if tl != tr:
            raise MesonError('arithmetic between different types')
        if tl == 'int':
            if op == '+':
                return l + r
            if op == '-':
                return l - r
            if op == '*':
                return l * r
            if r == 0:
                raise MesonError('division by zero')
            if op == '/':
                return l // r
            if op == '%':
                return l % r
        if tl == 'str':
            if op == '+':
                return l + r
            if op == '/':
                return self.pathjoin(l, r)
        if tl == 'dict' and op == '+':
            return self.dictmerge(l, r)
        raise Undefined(f'operator {op} on two {tl} values')

    def pathjoin(self, l: str, r: str) -> str:
        for s in (l, r):
            if '\\' in s or (len(s) >= 2 and s[1] == ':'):
                raise Undefined('path join with backslashes / drive letters is platform specific')
        if l == '' or r == '' or l.endswith('/'):
            raise Undefined('path join with an empty segment or a trailing separator')
        if r.startswith('/'):
            return r          # "If any one of the individual segments is an absolute path, all segments before it are dropped"
        return l + '/' + r

    def dictmerge(self, l: T.Dict[str, T.Any], r: T.Dict[str, T.Any]) -> T.Dict[str, T.Any]:
        # "Values from the second dictionary overrides values from the first"; order: insertion order, and the
        # documentation does not say whether an overridden key keeps its place
        keep = dict(l)
        keep.update(r)
        moved = {k: v for k, v in l.items() if k not in r}
        moved.update(r)
        if list(keep) != list(moved):
            raise Undefined('dictionary merge where the position of an overridden key is observable')
        return keep

    def index(self, o: T.Any, i: T.Any) -> T.Any:
        to, ti = tname(o), tname(i)
        if to == 'arr':
            if ti == 'bool':
                raise Undefined('bool used as index')
            if ti != 'int':
                raise MesonError('array index is not an integer')
            if -len(o) <= i < len(o):
                return o[i]
            raise MesonError('array index out of bounds')
        if to == 'dict':
            if ti != 'str':
                raise MesonError('dictionary index is not a string')
            if i in o:
                return o[i]
            raise MesonError('key not in dictionary')
        if to == 'str':
            if ti == 'bool':
                raise Undefined('bool used as index')
            if ti != 'int':
                raise MesonError('string index is not an integer')
            if i < 0:
                raise Undefined('negative string index')
            if i < len(o):
                return o[i]
            raise MesonError('string index out of bounds')
        if to == 'range':
            if ti != 'int':
                raise Undefined('range index of another type')
            items = o.items()
            if 0 <= i < len(items):
                return items[i]
            raise Undefined('range index out of bounds / negative')
        if to in ('int', 'bool'):
            raise MesonError('indexing a scalar')
        raise Undefined('indexing an opaque object')

    # -- functions
    def emit(self, text: str) -> None:
        self.trace.append((self.scope, text))

    def call(self, fname: str, args: T.List[list], stmt_level: bool) -> T.Any:
        if fname in ('message', 'set_variable', 'unset_variable', 'subdir', 'assert') and not stmt_level:
            # an effect inside an expression: the result is void, so the surrounding expression is an error,
            # but whether sibling operands are evaluated before or after is not documented
            self.in_expr_msgs += 1
            if self.in_expr_msgs > 1:
                raise Undefined('several effectful calls inside one expression')
        pos, kw = self.evalargs(args)
        if fname == 'message':
            if kw:
                raise MesonError('message() takes no keyword arguments')
            if not pos:
                raise MesonError('message() needs an argument')
            self.emit(' '.join(self.render(v, 'message()') for v in pos))
            return VOID
        if fname == 'assert':
            if kw or not 1 <= len(pos) <= 2:
                raise MesonError('assert() arity')
            if tname(pos[0]) == 'int':
                raise Undefined('int passed where bool is expected')
            if tname(pos[0]) != 'bool':
                raise MesonError('assert condition is not a boolean')
            if len(pos) == 2 and tname(pos[1]) != 'str':
                raise MesonError('assert message is not a string')
            if not pos[0]:
                raise MesonError('assertion failed')
            return VOID
        if fname == 'get_variable':
            if kw or not 1 <= len(pos) <= 2:
                raise MesonError('get_variable() arity')
            if tname(pos[0]) != 'str':
                raise MesonError('get_variable name is not a string')
            name = pos[0]
            if name in BUILTIN_NAMES:
                raise Undefined('get_variable of a builtin object')
            if name in self.env:
                if name in self.unspec:
                    raise Undefined('loop variable read after its loop')
                return self.env[name]
            if len(pos) == 2:
                return pos[1]
            raise MesonError('get_variable of an unknown variable without fallback')
        if fname == 'set_variable':
            if kw or len(pos) != 2:
                raise MesonError('set_variable() arity')
            if tname(pos[0]) != 'str':
                raise MesonError('set_variable name is not a string')
            if not _is_ident(pos[0]) or pos[0] in KEYWORDS:
                raise Undefined('set_variable with a name that is not an identifier')
            self.assign(pos[0], pos[1])
            return VOID
        if fname == 'is_variable':
            if kw or len(pos) != 1:
                raise MesonError('is_variable() arity')
            if tname(pos[0]) != 'str':
                raise MesonError('is_variable name is not a string')
            if pos[0] in BUILTIN_NAMES:
                raise Undefined('is_variable of a builtin object')
            if pos[0] in self.unspec:
                raise Undefined('loop variable inspected after its loop')
            return pos[0] in self.env
        if fname == 'unset_variable':
            if kw or len(pos) != 1:
                raise MesonError('unset_variable() arity')
            if tname(pos[0]) != 'str':
                raise MesonError('unset_variable name is not a string')
            if pos[0] in BUILTIN_NAMES:
                raise Undefined('unset_variable of a builtin object')
            if pos[0] not in self.env:
                raise Undefined('unset_variable of a variable that does not exist')
            del self.env[pos[0]]
            self.unspec.discard(pos[0])
            return VOID
        if fname == 'range':
            if kw or not 1 <= len(pos) <= 3:
                raise MesonError('range() arity')
            for v in pos:
                if tname(v) == 'bool':
                    raise Undefined('bool passed where int is expected')
                if tname(v) != 'int':
                    raise MesonError('range() argument is not an integer')
            if len(pos) == 1:
                start, stop, step = 0, pos[0], 1
            elif len(pos) == 2:
                start, stop, step = pos[0], pos[1], 1
            else:
                start, stop, step = pos
            if start < 0 or stop < start or step < 1:
                raise MesonError('range() arguments outside the documented domain')
            return RangeVal(start, stop, step)
        if fname == 'subdir':
            if kw or len(pos) != 1 or tname(pos[0]) != 'str':
                raise Undefined('subdir() call shape outside the modelled one')
            if self.loop_depth:
                raise Undefined('subdir() inside a loop')
            d = pos[0]
            if not d or '/' in d or '.' in d or d.startswith('meson-') or d == 'subprojects':
                raise Undefined('subdir() name outside the modelled ones')
            path = (self.curdir + '/' if self.curdir else '') + d + '/meson.build'
            if path in self.visited:
                raise MesonError('subdir() entered twice')
            if path not in self.files:
                raise MesonError('subdir() without build file')
            self.visited.add(path)
            prevdir = self.curdir
            self.curdir = (self.curdir + '/' if self.curdir else '') + d
            self.load_and_run(path)
            self.curdir = prevdir
            return VOID
        if fname == 'subproject':
            if kw or len(pos) != 1 or tname(pos[0]) != 'str':
                raise Undefined('subproject() call shape outside the modelled one')
            if self.scope or self.loop_depth:
                raise Undefined('nested subproject / subproject in a loop')
            name = pos[0]
            path = 'subprojects/' + name + '/meson.build'
            if not _is_ident(name) or path not in self.files:
                raise Undefined('subproject() of something that does not exist')
            if name in self.subprojects:
                raise Undefined('subproject() called twice for one name')
            saved = (self.env, self.unspec, self.curdir, self.scope, self.cur_file)
            self.env, self.unspec, self.curdir, self.scope = {}, set(), 'subprojects/' + name, name
            sp = SubprojectVal(name, self.env, self.unspec)
            self.subprojects[name] = sp
            self.load_and_run(path, root=True)      # an error inside aborts everything (required: true)
            self.env, self.unspec, self.curdir, self.scope, self.cur_file = saved
            return sp
        if fname == 'project':
            raise Undefined('project() anywhere but first')
        if fname.startswith('zz'):
            raise MesonError('unknown function')
        raise Undefined(f'function {fname} is outside the modelled core')

    # -- methods
    def method(self, o: T.Any, name: str, pos: T.List[T.Any], kw: T.Dict[str, T.Any]) -> T.Any:
        t = tname(o)
        fn = getattr(self, f'm_{t}_{name}', None)
        if fn is None:
            if t in ('int', 'bool', 'str', 'arr', 'dict') and name.startswith('zz'):
                raise MesonError('unknown method')
            raise Undefined(f'method {t}.{name} is outside the modelled core')
        return fn(o, pos, kw)

    @staticmethod
    def _sig(pos: T.List[T.Any], kw: T.Dict[str, T.Any], types: T.Sequence[str], optional: int = 0,
             kwtypes: T.Optional[T.Dict[str, str]] = None) -> None:
        """argument check: `types` positional types ('any' accepts everything), the last `optional` may be
        missing.  int/bool confusion is not judged."""
        kwtypes = kwtypes or {}
        for k in kw:
            if k not in kwtypes:
                raise MesonError('unexpected keyword argument')
        if not len(types) - optional <= len(pos) <= len(types):
            raise MesonError('wrong number of arguments')
        for v, want in list(zip(pos, types)) + [(kw[k], kwtypes[k]) for k in kw]:
            if want == 'any':
                continue
            have = tname(v)
            if have != want:
                if {have, want} == {'int', 'bool'}:
                    raise Undefined('int/bool passed for the other')
                raise MesonError('argument of the wrong type')

    # str
    def m_str_format(self, s: str, pos: T.List[T.Any], kw: T.Dict[str, T.Any]) -> str:
        if kw:
            raise MesonError('unexpected keyword argument')
        parts = _scan_placeholders(s, _all_ascii_digits)
        out = ''
        for p in parts:
            if isinstance(p, str):
                out += p
                continue
            if not _canon_decimal(p[0]):
                raise Undefined('format placeholder with leading zeros')
            i = int(p[0])
            if i >= len(pos):
                raise Undefined('format placeholder without a corresponding argument')
            out += self.render(pos[i], '.format()')
        for v in pos:
            self.render(v, '.format()')      # unused arguments of unrenderable types: not judged
        if any(not c.isascii() and c.isdigit() for c in s):
            raise Undefined('template with non-ASCII digits')
        return out

    def m_str_replace(self, s: str, pos: T.List[T.Any], kw: T.Dict[str, T.Any]) -> str:
        self._sig(pos, kw, ['str', 'str'])
        if pos[0] == '':
            raise Undefined('replace of the empty string')
        return s.replace(pos[0], pos[1])

    def m_str_strip(self, s: str, pos: T.List[T.Any], kw: T.Dict[str, T.Any]) -> str:
        self._sig(pos, kw, ['str'], optional=1)
        if pos:
            chars = pos[0]
            a, b = 0, len(s)
            while a < b and s[a] in chars:
                a += 1
            while b > a and s[b - 1] in chars:
                b -= 1
            return s[a:b]
        # "By default the characters to remove are spaces and newlines"
        a, b = 0, len(s)
        while a < b and s[a] in ' \n':
            a += 1
        while b > a and s[b - 1] in ' \n':
            b -= 1
        res = s[a:b]
        if res != res.strip():
            raise Undefined('default strip() next to whitespace other than space/newline')
        return res

    def _ascii_only(self, s: str, what: str) -> None:
        if not s.isascii():
            raise Undefined(f'{what} of non-ASCII text')

    def m_str_to_lower(self, s: str, pos: T.List[T.Any], kw: T.Dict[str, T.Any]) -> str:
        self._sig(pos, kw, [])
        self._ascii_only(s, 'case conversion')
        return ''.join(chr(ord(c) + 32) if 'A' <= c <= 'Z' else c for c in s)

    def m_str_to_upper(self, s: str, pos: T.List[T.Any], kw: T.Dict[str, T.Any]) -> str:
        self._sig(pos, kw, [])
        self._ascii_only(s, 'case conversion')
        return ''.join(chr(ord(c) - 32) if 'a' <= c <= 'z' else c for c in s)

    def m_str_to_int(self, s: str, pos: T.List[T.Any], kw: T.Dict[str, T.Any]) -> int:
        self._sig(pos, kw, [])
        return str_to_int(s)

    def m_str_contains(self, s: str, pos: T.List[T.Any], kw: T.Dict[str, T.Any]) -> bool:
        self._sig(pos, kw, ['str'])
        return pos[0] in s

    def m_str_startswith(self, s: str, pos: T.List[T.Any], kw: T.Dict[str, T.Any]) -> bool:
        self._sig(pos, kw, ['str'])
        return s[:len(pos[0])] == pos[0]

    def m_str_endswith(self, s: str, pos: T.List[T.Any], kw: T.Dict[str, T.Any]) -> bool:
        self._sig(pos, kw, ['str'])
        return pos[0] == '' or s[-len(pos[0]):] == pos[0]

    def m_str_substring(self, s: str, pos: T.List[T.Any], kw: T.Dict[str, T.Any]) -> str:
        self._sig(pos, kw, ['int', 'int'], optional=2)
        n = len(s)

        def norm(i: int) -> int:
            if i < 0:
                i += n          # "negative start is relative to the end of string"
            return min(max(i, 0), n)   # "the position of the closest character will be used"
        start = norm(pos[0]) if len(pos) >= 1 else 0
        end = norm(pos[1]) if len(pos) >= 2 else n
        if start >= end:
            return ''
        return s[start:end]

    def m_str_split(self, s: str, pos: T.List[T.Any], kw: T.Dict[str, T.Any]) -> T.List[str]:
        self._sig(pos, kw, ['str'], optional=1)
        if pos:
            sep = pos[0]
            if sep == '':
                raise Undefined('split at the empty string')
            out = []
            i = 0
            while True:
                j = s.find(sep, i)
                if j < 0:
                    out.append(s[i:])
                    return out
                out.append(s[i:j])
                i = j + len(sep)
        for c in s:
            if c.isspace() and c not in ' \t\n\r\x0b\x0c' or c in '\x1c\x1d\x1e\x1f\x85':
                raise Undefined('split() at exotic whitespace')
        out, cur = [], ''
        for c in s:
            if c in ' \t\n\r\x0b\x0c':
                if cur:
                    out.append(cur)
                cur = ''
            else:
                cur += c
        if cur:
            out.append(cur)
        return out

    def m_str_splitlines(self, s: str, pos: T.List[T.Any], kw: T.Dict[str, T.Any]) -> T.List[str]:
        self._sig(pos, kw, [])
        if any(c in '\x0b\x0c\x1c\x1d\x1e\x85\u2028\u2029' for c in s):
            raise Undefined('splitlines() with separators other than \\n, \\r, \\r\\n')
        out, cur, i = [], '', 0
        while i < len(s):
            c = s[i]
            if c == '\r':
                out.append(cur)
                cur = ''
                if i + 1 < len(s) and s[i + 1] == '\n':
                    i += 1
            elif c == '\n':
                out.append(cur)
                cur = ''
            else:
                cur += c
            i += 1
        if cur:
            out.append(cur)
        return out

    def m_str_join(self, s: str, pos: T.List[T.Any], kw: T.Dict[str, T.Any]) -> str:
        if kw:
            raise MesonError('unexpected keyword argument')
        if len(pos) == 1 and tname(pos[0]) == 'arr':
            items = pos[0]
            if any(tname(x) == 'arr' for x in items):
                raise Undefined('join of a nested array')
        elif all(tname(x) != 'arr' for x in pos):
            items = pos
        else:
            raise Undefined('join with a mix of arrays and strings')
        for x in items:
            if tname(x) != 'str':
                raise MesonError('join of non-strings')
        return s.join(items)

    def m_str_underscorify(self, s: str, pos: T.List[T.Any], kw: T.Dict[str, T.Any]) -> str:
        self._sig(pos, kw, [])
        return ''.join(c if ('a' <= c <= 'z' or 'A' <= c <= 'Z' or '0' <= c <= '9') else '_' for c in s)

    def m_str_version_compare(self, s: str, pos: T.List[T.Any], kw: T.Dict[str, T.Any]) -> bool:
        if kw:
            raise MesonError('unexpected keyword argument')
        if not pos:
            raise MesonError('version_compare needs an argument')
        for v in pos:
            if tname(v) != 'str':
                raise MesonError('version_compare argument is not a string')
        res = True
        for c in pos:
            op = ''
            for cand in ('>=', '<=', '!=', '==', '=', '>', '<'):
                if c.startswith(cand):
                    op = cand
                    break
            if not op:
                raise Undefined('version_compare without operator')
            rhs = c[len(op):]
            if not _simple_version(s) or not _simple_version(rhs):
                raise Undefined('version_compare beyond plain dotted numbers (C19 owns that)')
            x = _vercmp_simple(s, rhs)
            ok = {'>=': x >= 0, '<=': x <= 0, '!=': x != 0, '==': x == 0, '=': x == 0, '>': x > 0, '<': x < 0}[op]
            res = res and ok
        return res

    # int
    def m_int_is_even(self, n: int, pos: T.List[T.Any], kw: T.Dict[str, T.Any]) -> bool:
        self._sig(pos, kw, [])
        return n % 2 == 0

    def m_int_is_odd(self, n: int, pos: T.List[T.Any], kw: T.Dict[str, T.Any]) -> bool:
        self._sig(pos, kw, [])
        return n % 2 == 1

    def m_int_to_string(self, n: int, pos: T.List[T.Any], kw: T.Dict[str, T.Any]) -> str:
        if pos:
            raise Undefined('int.to_string with positional arguments (yaml says optargs, fixtures use keywords)')
        self._sig(pos, kw, [], kwtypes={'fill': 'int', 'format': 'str'})
        fmt = kw.get('format', 'dec')
        if fmt not in ('dec', 'hex', 'oct', 'bin'):
            raise MesonError('unknown number format')
        sign = '-' if n < 0 else ''
        a = -n if n < 0 else n
        digs, prefix = '', ''
        if fmt == 'dec':
            digs = str(a)
        else:
            base, prefix, alphabet = {'hex': (16, '0x', '0123456789abcdef'), 'oct': (8, '0o', '01234567'),
                                      'bin': (2, '0b', '01')}[fmt]
            digs = ''
            while True:
                digs = alphabet[a % base] + digs
                a //= base
                if a == 0:
                    break
        fill = kw.get('fill', 0)
        pad = fill - len(sign) - len(prefix) - len(digs)
        return sign + prefix + ('0' * pad if pad > 0 else '') + digs

    # bool
    def m_bool_to_int(self, b: bool, pos: T.List[T.Any], kw: T.Dict[str, T.Any]) -> int:
        self._sig(pos, kw, [])
        return 1 if b else 0

    def m_bool_to_string(self, b: bool, pos: T.List[T.Any], kw: T.Dict[str, T.Any]) -> str:
        self._sig(pos, kw, ['str', 'str'], optional=2)
        if len(pos) == 1:
            raise MesonError('bool.to_string with exactly one argument')
        if len(pos) == 2:
            if pos[0] == '' or pos[1] == '':
                self.out.flags.add('bool-to_string-empty')
            return pos[0] if b else pos[1]
        return 'true' if b else 'false'

    # array
    def m_arr_length(self, a: T.List[T.Any], pos: T.List[T.Any], kw: T.Dict[str, T.Any]) -> int:
        self._sig(pos, kw, [])
        return len(a)

    def m_arr_contains(self, a: T.List[T.Any], pos: T.List[T.Any], kw: T.Dict[str, T.Any]) -> bool:
        self._sig(pos, kw, ['any'])
        shallow = self.member(pos[0], a)

        def deep(lst: T.List[T.Any]) -> bool:
            f = self.member(pos[0], lst)
            for el in lst:
                if tname(el) == 'arr' and deep(el):
                    f = True
            return f
        if deep(a) != shallow:
            raise Undefined('contains() where looking into nested arrays changes the answer')
        return shallow

    def m_arr_get(self, a: T.List[T.Any], pos: T.List[T.Any], kw: T.Dict[str, T.Any]) -> T.Any:
        self._sig(pos, kw, ['int', 'any'], optional=1)
        i = pos[0]
        if -len(a) <= i < len(a):
            return a[i]
        if len(pos) == 2:
            return pos[1]
        raise MesonError('array index out of bounds')

    def m_arr_flatten(self, a: T.List[T.Any], pos: T.List[T.Any], kw: T.Dict[str, T.Any]) -> T.List[T.Any]:
        self._sig(pos, kw, [])
        out: T.List[T.Any] = []

        def rec(x: T.Any) -> None:
            if tname(x) == 'arr':
                for y in x:
                    rec(y)
            else:
                out.append(x)
        rec(a)
        return out

    def m_arr_slice(self, a: T.List[T.Any], pos: T.List[T.Any], kw: T.Dict[str, T.Any]) -> T.List[T.Any]:
        self._sig(pos, kw, ['int', 'int'], optional=2, kwtypes={'step': 'int'})
        step = kw.get('step', 1)
        if len(pos) == 1:
            raise MesonError('slice with only one bound')
        if step == 0:
            raise MesonError('slice step zero')
        if pos:
            raise Undefined('slice with explicit bounds (inclusive/exclusive and clamping are not spelled out)')
        if step > 0:
            return [a[i] for i in range(0, len(a), step)]
        return [a[i] for i in range(len(a) - 1, -1, step)]

    # dict
    def m_dict_has_key(self, d: T.Dict[str, T.Any], pos: T.List[T.Any], kw: T.Dict[str, T.Any]) -> bool:
        self._sig(pos, kw, ['str'])
        return pos[0] in d

    def m_dict_get(self, d: T.Dict[str, T.Any], pos: T.List[T.Any], kw: T.Dict[str, T.Any]) -> T.Any:
        self._sig(pos, kw, ['str', 'any'], optional=1)
        if pos[0] in d:
            return d[pos[0]]
        if len(pos) == 2:
            return pos[1]
        raise MesonError('key not in dictionary')

    def m_dict_keys(self, d: T.Dict[str, T.Any], pos: T.List[T.Any], kw: T.Dict[str, T.Any]) -> T.List[str]:
        self._sig(pos, kw, [])
        ks = list(d)
        ks.sort(key=lambda s: [ord(c) for c in s])     # "sorted in ascending order"
        return ks

    def m_dict_values(self, d: T.Dict[str, T.Any], pos: T.List[T.Any], kw: T.Dict[str, T.Any]) -> T.List[T.Any]:
        self._sig(pos, kw, [])
        return [d[k] for k in self.m_dict_keys(d, [], {})]

    # subproject object
    def m_subproject_get_variable(self, sp: SubprojectVal, pos: T.List[T.Any], kw: T.Dict[str, T.Any]) -> T.Any:
        self._sig(pos, kw, ['str', 'any'], optional=1)
        name = pos[0]
        if name in BUILTIN_NAMES:
            raise Undefined('get_variable of a builtin object')
        if name in sp.env:
            if name in sp.unspec:
                raise Undefined('loop variable read after its loop')
            return sp.env[name]
        if len(pos) == 2:
            return pos[1]
        raise MesonError('subproject variable does not exist')

    def m_subproject_found(self, sp: SubprojectVal, pos: T.List[T.Any], kw: T.Dict[str, T.Any]) -> bool:
        self._sig(pos, kw, [])
        return True


# -- syntax-class faults (the grammar / property sentence excludes the shape itself) ---------------

def _expr_has_fault(e: list, in_tern_arm: bool) -> bool:
    k = e[0]
    if k in ('int', 'bool', 'str', 'id'):
        return False
    if k == 'bare' or k in ('assign', 'plusassign'):
        return True
    if k == 'tern':
        if in_tern_arm:
            return True
        return _expr_has_fault(e[1], False) or _expr_has_fault(e[2], True) or _expr_has_fault(e[3], True)
    if k in ('not', 'neg', 'paren'):
        return _expr_has_fault(e[1], in_tern_arm)
    if k == 'bin':
        return _expr_has_fault(e[2], in_tern_arm) or _expr_has_fault(e[3], in_tern_arm)
    if k == 'idx':
        return _expr_has_fault(e[1], in_tern_arm) or _expr_has_fault(e[2], in_tern_arm)
    if k == 'arr':
        return any(_expr_has_fault(x, in_tern_arm) for x in e[1])
    if k == 'dict':
        return any(_expr_has_fault(a, in_tern_arm) or _expr_has_fault(b, in_tern_arm) for a, b in e[1])
    if k in ('call', 'meth'):
        args = e[2] if k == 'call' else e[3]
        seen_kw = False
        for kw, x in args:
            if kw is not None:
                seen_kw = True
            elif seen_kw:
                return True
            if _expr_has_fault(x, in_tern_arm):
                return True
        return k == 'meth' and _expr_has_fault(e[1], in_tern_arm)
    raise AssertionError(k)


def _tern_in_cond(e: list, in_cond: bool = False) -> bool:
    """a ternary inside the *condition* of a ternary: 'nested ternary operators are forbidden' could be read
    either way for it -> such programs are not judged"""
    k = e[0]
    if k in ('int', 'bool', 'str', 'id'):
        return False
    if k == 'tern':
        if in_cond:
            return True
        return _tern_in_cond(e[1], True) or _tern_in_cond(e[2], in_cond) or _tern_in_cond(e[3], in_cond)
    subs: T.List[list] = []
    if k in ('not', 'neg', 'paren', 'bare'):
        subs = [e[1]]
    elif k == 'bin':
        subs = [e[2], e[3]]
    elif k == 'idx':
        subs = [e[1], e[2]]
    elif k == 'arr':
        subs = list(e[1])
    elif k == 'dict':
        subs = [x for kv in e[1] for x in kv]
    elif k == 'call':
        subs = [x for _, x in e[2]]
    elif k == 'meth':
        subs = [e[1]] + [x for _, x in e[3]]
    elif k in ('assign', 'plusassign'):
        subs = [e[2]]
    return any(_tern_in_cond(s, in_cond) for s in subs)


def _walk_stmts(stmts: T.List[list], fn: T.Callable[[list], bool], in_loop: bool = False) -> bool:
    for s in stmts:
        k = s[0]
        if k == 'expr':
            if fn(s[1]):
                return True
        elif k in ('assign', 'plusassign'):
            if fn(s[2]):
                return True
        elif k == 'if':
            for c, b in s[1]:
                if fn(c) or _walk_stmts(b, fn, in_loop):
                    return True
            if s[2] is not None and _walk_stmts(s[2], fn, in_loop):
                return True
        elif k == 'foreach':
            if fn(s[2]) or _walk_stmts(s[3], fn, True):
                return True
        elif k in ('break', 'continue'):
            if not in_loop and fn(['bare', ['id', k]]):
                return True
    return False


_EFFECT_CALLS = ('message', 'set_variable', 'unset_variable', 'subdir', 'assert', 'subproject')


def _has_effect_call(e: list) -> bool:
    k = e[0]
    if k in ('int', 'bool', 'str', 'id'):
        return False
    if k == 'call':
        return e[1] in _EFFECT_CALLS or any(_has_effect_call(x) for _, x in e[2])
    if k == 'meth':
        return _has_effect_call(e[1]) or any(_has_effect_call(x) for _, x in e[3])
    if k in ('not', 'neg', 'paren', 'bare'):
        return _has_effect_call(e[1])
    if k == 'bin':
        return _has_effect_call(e[2]) or _has_effect_call(e[3])
    if k == 'tern':
        return any(_has_effect_call(x) for x in e[1:4])
    if k == 'idx':
        return _has_effect_call(e[1]) or _has_effect_call(e[2])
    if k == 'arr':
        return any(_has_effect_call(x) for x in e[1])
    if k == 'dict':
        return any(_has_effect_call(a) or _has_effect_call(b) for a, b in e[1])
    if k in ('assign', 'plusassign'):
        return _has_effect_call(e[2])
    raise AssertionError(k)


def _count_effect_calls(e: T.Any) -> int:
    """Number of effectful calls written anywhere inside the expression (whether evaluated or not)."""
    if not isinstance(e, (list, tuple)):
        return 0
    n = 1 if (len(e) > 1 and e[0] == 'call' and e[1] in _EFFECT_CALLS) else 0
    return n + sum(_count_effect_calls(x) for x in e)


def file_has_syntax_fault(stmts: T.List[list]) -> bool:
    return _walk_stmts(stmts, lambda e: _expr_has_fault(e, False))


def program_has_tern_in_cond(prog: dict) -> bool:
    return any(_walk_stmts(st, _tern_in_cond) for st in prog['files'].values())


def evaluate(prog: dict) -> Outcome:
    if program_has_tern_in_cond(prog):
        o = Outcome()
        o.kind = 'undefined'
        o.reason = 'ternary inside the condition of a ternary'
        return o
    return Evaluator(prog).run()


# ---------------------------------------------------------------------------------------------
# independent lexer + parser (Syntax.md "Grammar")

class ParseError(Exception):
    def __init__(self, msg: str, pos: int = -1, lineno: int = -1):
        super().__init__(f'{msg} (line {lineno})')
        self.msg = msg
        self.pos = pos
        self.lineno = lineno


class Tok:
    __slots__ = ('kind', 'val', 'pos', 'line', 'extra')

    def __init__(self, kind: str, val: T.Any, pos: int, line: int, extra: T.Any = None):
        self.kind, self.val, self.pos, self.line, self.extra = kind, val, pos, line, extra

    def __repr__(self) -> str:
        return f'Tok({self.kind},{self.val!r})'


_TWO = {'+=': 'plusassign', '==': '==', '!=': '!=', '<=': '<=', '>=': '>='}
_ONE = {'(': '(', ')': ')', '[': '[', ']': ']', '{': '{', '}': '}', ',': ',', '.': '.', '+': '+', '-': '-',
        '*': '*', '%': '%', '/': '/', ':': ':', '=': 'assign', '<': '<', '>': '>', '?': '?'}


def lex(text: str) -> T.List[Tok]:
    toks: T.List[Tok] = []
    i, n = 0, len(text)
    line = 1
    depth = 0
    if text.startswith('\ufeff'):
        raise ParseError('byte order mark', 0, 1)
    while i < n:
        c = text[i]
        if c in ' \t':
            i += 1
            continue
        if c == '\n':
            if depth == 0:
                toks.append(Tok('eol', '\n', i, line))
            line += 1
            i += 1
            continue
        if c == '#':
            j = text.find('\n', i)
            i = n if j < 0 else j
            continue
        if c == '\\':
            j = i + 1
            while j < n and text[j] in ' \t':
                j += 1
            if j < n and text[j] == '#':
                k = text.find('\n', j)
                j = n if k < 0 else k
            if j < n and text[j] == '\n':
                line += 1
                i = j + 1
                continue
            raise ParseError('stray backslash', i, line)
        # strings (optionally f-prefixed)
        q = i + 1 if (c == 'f' and i + 1 < n and text[i + 1] == "'") else i
        if text[q] == "'":
            isf = q != i
            if text.startswith("'''", q):
                j = text.find("'''", q + 3)
                if j < 0:
                    raise ParseError('unterminated multiline string', i, line)
                raw = text[q + 3:j]
                toks.append(Tok('str', raw, i, line, 'fm' if isf else 'm'))
                line += raw.count('\n')
                i = j + 3
                continue
            j = q + 1
            while True:
                if j >= n:
                    raise ParseError('unterminated string', i, line)
                if text[j] == '\\':
                    if j + 1 < n and text[j + 1] != '\n':
                        j += 2
                        continue
                    raise ParseError('unterminated string', i, line)
                if text[j] == "'":
                    break
                j += 1
            raw = text[q + 1:j]
            toks.append(Tok('str', raw, i, line, 'fs' if isf else 's'))
            line += raw.count('\n')
            i = j + 1
            continue
        if c == '_' or ('a' <= c <= 'z') or ('A' <= c <= 'Z'):
            j = i + 1
            while j < n and (text[j] == '_' or ('a' <= text[j] <= 'z') or ('A' <= text[j] <= 'Z') or ('0' <= text[j] <= '9')):
                j += 1
            w = text[i:j]
            toks.append(Tok(w if w in KEYWORDS else 'id', w, i, line))
            i = j
            continue
        if '0' <= c <= '9':
            j = i
            form = 'd'
            if c == '0' and i + 1 < n and text[i + 1] in 'xXoObB':
                allowed = {'x': '0123456789abcdefABCDEF', 'o': '01234567', 'b': '01'}[text[i + 1].lower()]
                j = i + 2
                while j < n and text[j] in allowed:
                    j += 1
                if j > i + 2:
                    base = {'x': 16, 'o': 8, 'b': 2}[text[i + 1].lower()]
                    val = int(text[i + 2:j], base)
                    form = text[i + 1].lower()
                    if form == 'x' and any('A' <= ch <= 'F' for ch in text[i + 2:j]):
                        form = 'X'
                    toks.append(Tok('num', val, i, line, (form, text[i:j])))
                    i = j
                    continue
                j = i
            if c == '0':
                j = i + 1
            else:
                while j < n and '0' <= text[j] <= '9':
                    j += 1
            toks.append(Tok('num', int(text[i:j]), i, line, ('d', text[i:j])))
            i = j
            continue
        two = text[i:i + 2]
        if two in _TWO:
            toks.append(Tok(_TWO[two], two, i, line))
            i += 2
            continue
        if c in _ONE:
            if c in '([{':
                depth += 1
            elif c in ')]}':
                depth -= 1
            toks.append(Tok(_ONE[c], c, i, line))
            i += 1
            continue
        raise ParseError(f'unexpected character {c!r}', i, line)
    toks.append(Tok('eof', None, n, line))
    return toks


class Parser:
    """statement list -> AST.  `keep_parens=True` keeps ['paren', e] nodes."""

    def __init__(self, text: str, keep_parens: bool = True):
        self.toks = lex(text)
        self.i = 0
        self.keep_parens = keep_parens
        self.in_ternary = False

    @property
    def cur(self) -> Tok:
        return self.toks[self.i]

    def accept(self, kind: str) -> bool:
        if self.cur.kind == kind:
            self.i += 1
            return True
        return False

    def expect(self, kind: str) -> Tok:
        t = self.cur
        if t.kind != kind:
            raise ParseError(f'expected {kind}, got {t.kind}', t.pos, t.line)
        self.i += 1
        return t

    def parse(self) -> T.List[list]:
        blk = self.block(('eof',))
        self.expect('eof')
        return blk

    def block(self, enders: T.Tuple[str, ...]) -> T.List[list]:
        out: T.List[list] = []
        while True:
            while self.accept('eol'):
                pass
            if self.cur.kind in enders or self.cur.kind == 'eof':
                return out
            out.append(self.statement())
            if self.cur.kind in enders or self.cur.kind == 'eof':
                return out
            self.expect('eol')

    def statement(self) -> list:
        t = self.cur
        if self.accept('if'):
            clauses = []
            cond = self.expression()
            self.expect('eol')
            blk = self.block(('elif', 'else', 'endif'))
            clauses.append([cond, blk])
            els = None
            while True:
                if self.accept('elif'):
                    cond = self.expression()
                    self.expect('eol')
                    clauses.append([cond, self.block(('elif', 'else', 'endif'))])
                elif self.accept('else'):
                    self.expect('eol')
                    els = self.block(('endif',))
                    self.expect('endif')
                    break
                else:
                    self.expect('endif')
                    break
            return ['if', clauses, els]
        if self.accept('foreach'):
            names = [self.expect('id').val]
            if self.accept(','):
                names.append(self.expect('id').val)
            self.expect(':')
            it = self.expression()
            self.expect('eol')
            blk = self.block(('endforeach',))
            self.expect('endforeach')
            return ['foreach', names, it, blk]
        if self.accept('break'):
            return ['break']
        if self.accept('continue'):
            return ['continue']
        e = self.expression()
        if self.cur.kind in ('assign', 'plusassign'):
            op = self.cur.kind
            if e[0] != 'id':
                raise ParseError('assignment target must be a name', t.pos, t.line)
            self.i += 1
            rhs = self.expression()
            return [op, e[1], rhs]
        return ['expr', e]

    def expression(self) -> list:
        c = self.or_expr()
        if self.cur.kind == '?':
            if self.in_ternary:
                raise ParseError('nested ternary', self.cur.pos, self.cur.line)
            self.i += 1
            self.in_ternary = True
            a = self.expression()
            self.expect(':')
            b = self.expression()
            self.in_ternary = False
            return ['tern', c, a, b]
        return c

    def or_expr(self) -> list:
        l = self.and_expr()
        while self.accept('or'):
            l = ['bin', 'or', l, self.and_expr()]
        return l

    def and_expr(self) -> list:
        l = self.cmp_expr()
        while self.accept('and'):
            l = ['bin', 'and', l, self.cmp_expr()]
        return l

    def cmp_expr(self) -> list:
        l = self.add_expr()
        k = self.cur.kind
        op = None
        if k in ('==', '!=', '<', '<=', '>', '>=', 'in'):
            self.i += 1
            op = k
        elif k == 'not' and self.toks[self.i + 1].kind == 'in':
            self.i += 2
            op = 'not in'
        if op is None:
            return l
        r = self.add_expr()
        k = self.cur.kind
        if k in ('==', '!=', '<', '<=', '>', '>=', 'in') or (k == 'not' and self.toks[self.i + 1].kind == 'in'):
            raise ParseError('comparison operators do not chain', self.cur.pos, self.cur.line)
        return ['bin', op, l, r]

    def add_expr(self) -> list:
        l = self.mul_expr()
        while self.cur.kind in ('+', '-'):
            op = self.cur.kind
            self.i += 1
            l = ['bin', op, l, self.mul_expr()]
        return l

    def mul_expr(self) -> list:
        l = self.unary()
        while self.cur.kind in ('*', '/', '%'):
            op = self.cur.kind
            self.i += 1
            l = ['bin', op, l, self.unary()]
        return l

    def unary(self) -> list:
        t = self.cur
        if t.kind in ('not', '-'):
            self.i += 1
            if self.cur.kind in ('not', '-'):
                raise ParseError('unary operators do not stack', self.cur.pos, self.cur.line)
            return ['not' if t.kind == 'not' else 'neg', self.postfix()]
        return self.postfix()

    def postfix(self) -> list:
        t = self.cur
        e = self.primary()
        if self.cur.kind == '(':
            if e[0] != 'id':
                raise ParseError('call of something that is not a name', t.pos, t.line)
            self.i += 1
            args = self.arguments(')')
            self.expect(')')
            e = ['call', e[1], args]
        while True:
            if self.accept('.'):
                name = self.cur
                if name.kind != 'id':
                    raise ParseError('method name expected', name.pos, name.line)
                self.i += 1
                self.expect('(')
                args = self.arguments(')')
                self.expect(')')
                e = ['meth', e, name.val, args]
            elif self.accept('['):
                ix = self.expression()
                self.expect(']')
                e = ['idx', e, ix]
            else:
                return e

    def arguments(self, closer: str) -> T.List[list]:
        args: T.List[list] = []
        while self.cur.kind != closer:
            t = self.cur
            e = self.expression()
            if self.accept(':'):
                if e[0] != 'id':
                    raise ParseError('keyword must be a plain name', t.pos, t.line)
                v = self.expression()
                args.append([e[1], v])
            else:
                if self.cur.kind in ('assign', 'plusassign'):
                    raise ParseError('assignment inside an argument list', self.cur.pos, self.cur.line)
                args.append([None, e])
            if not self.accept(','):
                break
        return args

    def primary(self) -> list:
        t = self.cur
        k = t.kind
        if k == '(':
            self.i += 1
            e = self.expression()
            self.expect(')')
            return ['paren', e] if self.keep_parens else e
        if k == '[':
            self.i += 1
            items = self.arguments(']')
            self.expect(']')
            for kw, _ in items:
                if kw is not None:
                    raise ParseError('keyword in array literal', t.pos, t.line)
            return ['arr', [e for _, e in items]]
        if k == '{':
            self.i += 1
            pairs: T.List[list] = []
            while self.cur.kind != '}':
                kk = self.expression()
                self.expect(':')
                vv = self.expression()
                pairs.append([kk, vv])
                if not self.accept(','):
                    break
            self.expect('}')
            return ['dict', pairs]
        if k == 'true' or k == 'false':
            self.i += 1
            return ['bool', k == 'true']
        if k == 'id':
            self.i += 1
            return ['id', t.val]
        if k == 'num':
            self.i += 1
            return ['int', t.val, t.extra[0]]
        if k == 'str':
            self.i += 1
            return ['str', t.val, t.extra]
        raise ParseError(f'unexpected {k}', t.pos, t.line)


def parse(text: str, keep_parens: bool = True) -> T.List[list]:
    return Parser(text, keep_parens).parse()


def strip_parens(node: T.Any) -> T.Any:
    """AST without ['paren', e] wrappers (for tree-shape comparisons)."""
    if isinstance(node, list):
        if len(node) == 2 and node[0] == 'paren':
            return strip_parens(node[1])
        return [strip_parens(x) for x in node]
    return node
