"""Independent reference interpreter for TAP 12 / TAP 13 streams (property C18).

Written from the TAP 12/13 specification text and the C18 property sentence; it shares no code and no
regular expressions with mesonbuild/mtest.py.  Where the specification is silent the line (and with it
the stream) is marked *unspecified* together with a reason, so the caller can exclude and count it
instead of guessing.

Sources of each rule (S = TAP 13 specification, P = property sentence, F = fixture pinned in
/repo/unittests/taptests.py):

* version line `TAP version N` must be the first line (S "the first line must be TAP version 13");
  a version line anywhere else -> class `misplaced-version` (P).  No version line = TAP 12 (S).
  A declared version below 13 is an error in F (test_version) but not named by P -> *tolerated* class.
* plan `1..N`, optionally followed by `# SKIP reason` when N is 0 (S "Skipping everything");
  a plan after the first test line is a late plan; a test line after a late plan -> `test-after-late-plan`
  (S "the plan ... can be the last non-diagnostic line", P); a second plan -> `second-plan` (S "nor can it
  appear more than once", P).  Plan with a `#` trailer that is not SKIP-with-N==0: error in F
  (test_plan_directive) for SKIP/TODO trailers, nothing said for other text -> tolerated class.
* test line: `ok` / `not ok`, optional number, optional description up to the first `#`, optional directive
  (S "The test line").  Without a number the harness counts on from the previous test (S "the harness must
  maintain its own counter until the script supplies test numbers again").  Directive = text after `#`
  starting with TODO or SKIP, any letter case (S, F test_directive_case); SKIP is honoured on `ok` only
  (F test_one_test_skip_failure); TODO on `not ok` = expected failure, on `ok` = unexpected pass (P, S).
* diagnostics (`#...`), blank lines and unknown lines produce no test and no error (S; F test_unexpected).
* YAML block: TAP 13 only, must immediately follow a test line, starts with an indented `---`, ends with an
  indented `...`; everything in between is indented at least as far (S "YAML blocks").  A block that is cut
  short by an unindented line or by end of stream -> `unterminated-yaml` (P, F test_yaml).
* `Bail out!` -> bail-out; testing stops there (S), so nothing after it is interpreted.
* at end of stream: plan N != number of test lines -> `plan-count-mismatch`; a number seen twice ->
  `duplicate-number`; some number of 1..M never seen (M = N if there is a plan, else the highest number
  seen; F test_out_of_order_no_plan) -> `missing-number`; a number > N -> `number-beyond-plan` (P).
  Out-of-order but complete numbering is fine (F test_out_of_order).
* numbers of any length are numbers (S puts no bound on them; P "no input makes the parser raise").  The reference
  counts with their exact value (`to_int`).  Only the *value reported* for a subtest whose number was written with
  more digits than the interpreter's int() converts (sys.get_int_max_str_digits(), 4300 by default) is left open
  (`Interp.loose`): the documents do not say how a harness has to represent such a number.  Such a stream always has
  a missing number or a plan/count mismatch at its end, so an Error event is demanded like for any other stream; only
  when the stream is cut short by `Bail out!` the clause "no Error before the bail-out unless something is wrong
  before it" is not evaluated (`Interp.big`), because a harness that holds the over-long number as some other large
  value may see a later 20-digit number on the other side of it.
"""
from __future__ import annotations

import sys
import typing as T

WS = ' \t'

OK = 'OK'
FAIL = 'FAIL'
SKIP = 'SKIP'
XFAIL = 'EXPECTEDFAIL'
XPASS = 'UNEXPECTEDPASS'

C_MISMATCH = 'plan-count-mismatch'
C_DUP = 'duplicate-number'
C_MISSING = 'missing-number'
C_BEYOND = 'number-beyond-plan'
C_LATE = 'test-after-late-plan'
C_PLAN2 = 'second-plan'
C_YAML = 'unterminated-yaml'
C_VERSION = 'misplaced-version'
NAMED = (C_MISMATCH, C_DUP, C_MISSING, C_BEYOND, C_LATE, C_PLAN2, C_YAML, C_VERSION)

T_OLDVER = 'declared-version-below-13'
T_PLANDIR = 'plan-with-unsupported-trailer'


def int_str_limit() -> int:
    """digits the interpreter converts between str and int (sys.get_int_max_str_digits(), 0 = unlimited)"""
    get = getattr(sys, 'get_int_max_str_digits', None)
    return get() if get is not None else 0


def to_int(digits: str) -> int:
    """value of an ASCII digit string of any length (int() refuses strings beyond int_str_limit(); arithmetic does not)"""
    n = 0
    for i in range(0, len(digits), 1000):
        chunk = digits[i:i + 1000]
        n = n * 10 ** len(chunk) + int(chunk)
    return n


def is_big(digits: str) -> bool:
    """The literal is longer than what the running interpreter converts with int().  The TAP documents put no bound on
    test numbers; a harness may represent such a number in any way, so its *value* is not compared (see Interp.loose).
    Everything else about the line is: it is one test / plan / version line, it must not make the parser raise, and
    its exact value takes part in the reference's own counting (missing / beyond plan / plan-count classes)."""
    lim = int_str_limit()
    return bool(lim) and len(digits) > lim


def show_num(n: T.Any) -> T.Any:
    """JSON / message safe form of a number (str() of a huge int raises)"""
    if isinstance(n, int) and n.bit_length() > 256:
        return f'<number of about {n.bit_length() * 30103 // 100000 + 1} digits>'
    return n


class Line(T.NamedTuple):
    kind: str                      # version plan test bailout diag blank unknown unspecified
    num: T.Optional[int] = None    # test number (None = not given) / plan count / version
    ok: bool = True
    names: T.Optional[T.Tuple[str, ...]] = None   # admissible subtest names; None = not checked
    directive: T.Optional[str] = None              # 'SKIP' / 'TODO' / None
    trailer: bool = False          # plan: has a `#` trailer that is not a valid skip-all
    big: bool = False              # num was written with more digits than int() converts (value not comparable)
    why: str = ''                  # reason when kind == 'unspecified'


def _ascii_upper(s: str) -> str:
    return ''.join(chr(ord(c) - 32) if 'a' <= c <= 'z' else c for c in s)


def _ascii_lower(s: str) -> str:
    return ''.join(chr(ord(c) + 32) if 'A' <= c <= 'Z' else c for c in s)


def _isdig(c: str) -> bool:
    return '0' <= c <= '9'


def _unspec(why: str) -> Line:
    return Line('unspecified', why=why)


def strip_eol(raw: str) -> str:
    return raw[:-1] if raw.endswith('\n') else raw


def exotic(text: str) -> bool:
    """characters that Python treats as white space (str.isspace, regex \\s) but the TAP documents never mention"""
    for c in text:
        if c not in WS and c.isspace():
            return True
    return False


_cache: T.Dict[str, Line] = {}


def classify(text: str) -> Line:
    """Classify one line (end-of-line already removed) outside of a YAML block."""
    r = _cache.get(text)
    if r is None:
        r = _classify(text)
        if len(_cache) < 200000:
            _cache[text] = r
    return r


def _classify(text: str) -> Line:
    if exotic(text):
        return _unspec('white space other than blank and tab')
    line = text.rstrip(WS)
    if not line:
        return Line('blank')
    c0 = line[0]
    if c0 == '#':
        return Line('diag')
    if c0 in WS:
        return Line('unknown')          # indented material outside a YAML block (TAP 12/13 know no subtests)
    low = _ascii_lower(line)
    # -- test lines ----------------------------------------------------------
    looks_test = low.startswith('ok') or (low.startswith('not') and low[3:].lstrip(WS).startswith('ok'))
    if looks_test:
        if line.startswith('not ok'):
            ok, rest = False, line[6:]
        elif line.startswith('ok'):
            ok, rest = True, line[2:]
        else:
            return _unspec('ok/not ok in other letter case or spacing')
        if rest and rest[0] not in WS:
            return _unspec('ok glued to following text')
        return _test(ok, rest)
    # -- plan ------------------------------------------------------------------
    if _isdig(c0):
        i = 0
        while i < len(line) and _isdig(line[i]):
            i += 1
        if line[i:i + 2] != '..':
            return Line('unknown')
        if line[:i] != '1':
            return _unspec('range not starting at 1')
        j = i + 2
        k = j
        while k < len(line) and _isdig(line[k]):
            k += 1
        if k == j:
            return _unspec('plan without count')
        if is_big(line[j:k]) and line[j] == '0':
            return _unspec('over-long number with leading zeros')
        n = to_int(line[j:k])
        pbig = is_big(line[j:k])
        tail = line[k:]
        if not tail:
            return Line('plan', num=n, big=pbig)
        t = tail.lstrip(WS)
        if not t.startswith('#'):
            return _unspec('text after plan count')
        word = t[1:].lstrip(WS).split(' ')[0].split('\t')[0]
        if _ascii_upper(word).startswith('SKIP') and n == 0:
            return Line('plan', num=0)
        return Line('plan', num=n, trailer=True, big=pbig)
    # -- bail out ----------------------------------------------------------------
    if line.startswith('Bail out!'):
        return Line('bailout')
    if low.startswith('bail out'):
        return _unspec('bail out in other spelling')
    # -- version -------------------------------------------------------------------
    if line.startswith('TAP version '):
        d = line[12:]
        if d and all(_isdig(c) for c in d):
            if len(d) > 1 and d[0] == '0':
                return _unspec('version with leading zero')
            return Line('version', num=to_int(d))
        return _unspec('malformed version line')
    if low.startswith('tap version'):
        return _unspec('malformed version line')
    return Line('unknown')


def _test(ok: bool, rest: str) -> Line:
    s = rest.lstrip(WS)
    num: T.Optional[int] = None
    i = 0
    while i < len(s) and _isdig(s[i]):
        i += 1
    big = False
    if i:
        if i < len(s) and s[i] not in WS:
            return _unspec('number glued to following text')
        big = is_big(s[:i])
        if big and s[0] == '0':
            return _unspec('over-long number with leading zeros')
        num = to_int(s[:i])
        s = s[i:].lstrip(WS)
    h = s.find('#')
    desc = (s if h < 0 else s[:h])
    if h > 0 and s[h - 1] == '\\':
        return _unspec('escaped hash')
    desc = desc.strip(WS)
    if desc and (desc[0].isdigit() or desc[0].isdecimal() or desc[0].isnumeric()):
        return _unspec('description begins with a digit')
    names: T.Optional[T.Tuple[str, ...]] = (desc,)
    if desc.startswith('-'):
        names = (desc, desc[1:].lstrip(WS))     # the documents do not say whether the dash belongs to the name
    directive = None
    if h >= 0:
        after = s[h + 1:].lstrip(WS)
        word = after.split(' ')[0].split('\t')[0]
        up = _ascii_upper(word)
        if up == 'TODO':
            directive = 'TODO'
        elif up.startswith('TODO'):
            return _unspec('TODO glued to following text')
        elif up.startswith('SKIP'):
            directive = 'SKIP'
        else:
            if '#' in after:
                return _unspec('several hashes without directive at the first')
            names = None     # trailing comment that is no directive: result is plain, name not specified
    return Line('test', num=num, ok=ok, names=names, directive=directive, big=big)


def result_of(ok: bool, directive: T.Optional[str]) -> str:
    if directive == 'TODO':
        return XPASS if ok else XFAIL
    if directive == 'SKIP' and ok:
        return SKIP
    return OK if ok else FAIL


class Interp:
    __slots__ = ('tests', 'classes', 'tolerated', 'bailout', 'unspecified', 'soft', 'version', 'n_lines',
                 'has_plan', 'has_yaml', 'has_directive', 'has_version', 'plan', 'loose', 'big')

    def __init__(self) -> None:
        self.tests: T.List[T.Tuple[int, T.Optional[T.Tuple[str, ...]], str]] = []
        self.classes: T.Dict[str, int] = {}     # named class -> first line index where it is definite (n_lines = end of stream)
        self.tolerated: T.Set[str] = set()
        self.bailout: T.Optional[int] = None
        self.unspecified: T.List[str] = []    # nothing can be compared
        self.soft: T.List[str] = []           # subtests can be compared, the error classes cannot
        self.version = 12
        self.n_lines = 0
        self.has_plan = False
        self.has_yaml = False
        self.has_directive = False
        self.has_version = False
        self.plan: T.Optional[int] = None
        self.loose: T.Set[int] = set()        # indexes into tests whose number derives from an over-long literal (value not compared)
        self.big = False                      # an over-long literal was read as a plan count or a test number (before any bail-out)

    @property
    def named(self) -> T.List[str]:
        return sorted(self.classes)

    def bad_subtest(self) -> bool:
        return any(r in (FAIL, XPASS) for _, _, r in self.tests)

    def nontrivial(self) -> bool:
        return len(self.tests) >= 2 and (self.has_plan or self.has_yaml or self.has_directive or self.has_version)


def interpret(lines: T.Sequence[str]) -> Interp:
    R = Interp()
    R.n_lines = len(lines)
    plan_n: T.Optional[int] = None
    plan_late = False
    count = 0
    last = 0
    last_loose = False
    seen: T.Set[int] = set()
    after_test = False
    yaml_indent: T.Optional[str] = None

    def flag(cls: str, pos: int) -> None:
        if cls not in R.classes:
            R.classes[cls] = pos

    for idx, raw in enumerate(lines):
        text = strip_eol(raw)
        was_after_test = after_test
        after_test = False
        # -- inside a YAML block -----------------------------------------------------
        if yaml_indent is not None:
            if exotic(text):
                R.unspecified.append('white space other than blank and tab')
                yaml_indent = None
                continue
            body = text.rstrip(WS)
            lead = text[:len(text) - len(text.lstrip(WS))]
            if body.lstrip(WS) == '...' and lead:
                if lead != yaml_indent:
                    R.unspecified.append('YAML end marker with different indentation')
                yaml_indent = None
                continue
            if text.startswith(yaml_indent):
                continue
            if not body or lead:
                R.unspecified.append('blank or differently indented line inside YAML block')
                yaml_indent = None
                continue
            flag(C_YAML, idx)
            yaml_indent = None
            # the unindented line is ordinary TAP again: fall through
        # -- YAML start ------------------------------------------------------------------
        if was_after_test and R.version >= 13 and text[:1] in WS and text.lstrip(WS).startswith('---'):
            if exotic(text):
                R.unspecified.append('white space other than blank and tab')
                continue
            lead = text[:len(text) - len(text.lstrip(WS))]
            if text.strip(WS) != '---':
                R.unspecified.append('text after YAML start marker')
                continue
            if '\t' in lead:
                R.unspecified.append('tab in YAML indentation')
                continue
            yaml_indent = lead
            R.has_yaml = True
            continue
        ln = classify(text)
        k = ln.kind
        if k == 'unspecified':
            R.unspecified.append(ln.why)
            continue
        if k in ('blank', 'diag', 'unknown'):
            continue
        if k == 'version':
            R.has_version = True
            if idx != 0:
                flag(C_VERSION, idx)
                continue
            assert ln.num is not None
            if ln.num < 13:
                R.tolerated.add(T_OLDVER)
            elif ln.num > 13:
                R.unspecified.append('TAP version above 13 declared')
                R.version = ln.num
            else:
                R.version = 13
            continue
        if k == 'bailout':
            R.bailout = idx
            break
        if k == 'plan':
            R.has_plan = True
            if plan_n is not None:
                flag(C_PLAN2, idx)
                continue
            assert ln.num is not None
            plan_n = ln.num
            plan_late = count > 0
            R.big = R.big or ln.big
            if ln.trailer:
                R.tolerated.add(T_PLANDIR)
            if count > plan_n:
                flag(C_MISMATCH, idx)
            if any(x > plan_n for x in seen):
                flag(C_BEYOND, idx)
            continue
        # test line
        count += 1
        number = last + 1 if ln.num is None else ln.num
        last = number
        last_loose = ln.big if ln.num is not None else last_loose     # counting on from an over-long number stays loose
        if last_loose:
            R.loose.add(len(R.tests))
            R.big = True
        if ln.num == 0:
            R.soft.append('test number 0')
        if ln.directive:
            R.has_directive = True
        if plan_n is not None:
            if plan_late:
                flag(C_LATE, idx)
            if number > plan_n:
                flag(C_BEYOND, idx)
            if count > plan_n:
                flag(C_MISMATCH, idx)
        if number in seen:
            flag(C_DUP, idx)
        seen.add(number)
        R.tests.append((number, ln.names, result_of(ln.ok, ln.directive)))
        after_test = True

    R.plan = plan_n
    if R.bailout is None:
        eof = len(lines)
        if yaml_indent is not None:
            flag(C_YAML, eof)
        if plan_n is not None and count != plan_n:
            flag(C_MISMATCH, eof)
        m = plan_n if plan_n is not None else (max(seen) if seen else 0)
        if m > 0:
            inside = sum(1 for x in seen if 1 <= x <= m)
            if inside < m:
                flag(C_MISSING, eof)
    return R
