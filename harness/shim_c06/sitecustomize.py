"""C06 directory-order shim (lives in /verif, never in /repo).

Put on PYTHONPATH only for the meson child under test.  Inactive unless
MESON_VERIF_SHUFFLE_DIRS=<seed> is set; then os.listdir / os.scandir (and with them os.walk, glob.glob,
glob.iglob, pathlib.Path.iterdir/glob, shutil.copytree - all of which reach the directory through these two
module attributes at call time) return their entries in an order that is a pure function of (seed, path),
i.e. a different but reproducible "readdir order".  File-descriptor based listings (os.fwalk, shutil.rmtree's
fd path) are left alone: they are only used to delete, never to enumerate inputs.
"""
import os as _os

# Both switches are consumed here: the programs a project runs from its meson.build (run_command scripts,
# configure_file(command:) generators) are inputs of the configuration, not the code under test, and must see
# the directory as it is.
_seed = _os.environ.pop('MESON_VERIF_SHUFFLE_DIRS', None)
_wlog = _os.environ.pop('MESON_VERIF_WRITELOG', None)
_rlog = _os.environ.pop('MESON_VERIF_READLOG', None)

if _rlog:
    # (used by C15) names of the build-definition files this very process opens for reading
    import sys as _sys

    _rl = open(_rlog, 'a', buffering=1)
    _rfd = _rl.fileno()
    _rpid = _os.getpid()
    _RNAMES = ('meson.build', 'meson.options', 'meson_options.txt', 'Cargo.toml', 'Cargo.lock')

    def _raudit(event, args):
        try:
            if event != 'open' or _os.getpid() != _rpid:
                return
            path, _mode, flags = args
            if isinstance(path, bytes):
                path = _os.fsdecode(path)
            if isinstance(path, str) and isinstance(flags, int) and not flags & (_os.O_WRONLY | _os.O_RDWR) \
                    and path.endswith(_RNAMES) and _os.path.basename(path) in _RNAMES:
                # a file that is only copied (wrap patch overlays, packagefiles) is not read as a build definition
                fr = _sys._getframe(1)
                while fr is not None:
                    if fr.f_code.co_filename.endswith('shutil.py'):
                        return
                    fr = fr.f_back
                _os.write(_rfd, (_os.path.abspath(path) + '\n').encode('utf-8', 'surrogateescape'))
        except Exception:
            pass

    _sys.addaudithook(_raudit)

if _wlog:
    # Names of the files this very process (meson, not its children) opens for writing or renames into place:
    # the harness plants "stale leftovers" only over files meson itself is responsible for rewriting.
    import sys as _sys

    _wl = open(_wlog, 'a', buffering=1)
    _wfd = _wl.fileno()
    _pid = _os.getpid()

    def _audit(event, args):
        try:
            if _os.getpid() != _pid:
                return
            if event == 'open':
                path, _mode, flags = args
                if isinstance(flags, int) and flags & (_os.O_WRONLY | _os.O_RDWR) and isinstance(path, (str, bytes)):
                    _os.write(_wfd, (_os.fsdecode(_os.path.abspath(path)) + '\n').encode('utf-8', 'surrogateescape'))
            elif event == 'os.rename':
                dst = args[1]
                if isinstance(dst, (str, bytes)):
                    _os.write(_wfd, (_os.fsdecode(_os.path.abspath(dst)) + '\n').encode('utf-8', 'surrogateescape'))
        except Exception:
            pass

    _sys.addaudithook(_audit)

if _seed:
    import random as _random

    _real_listdir = _os.listdir
    _real_scandir = _os.scandir

    def _key(path):
        if path is None:
            path = '.'
        if isinstance(path, int):
            return None
        try:
            p = _os.fspath(path)
        except TypeError:
            return None
        if isinstance(p, bytes):
            p = p.decode('utf-8', 'surrogateescape')
        return '%s:%s' % (_seed, _os.path.abspath(p))

    def _shuffled(items, key, name_of):
        # canonical order first, so that the result does not depend on the real readdir order
        items = sorted(items, key=name_of)
        _random.Random(key).shuffle(items)      # str seeds are hashed with sha512: independent of PYTHONHASHSEED
        return items

    def listdir(path=None):
        res = _real_listdir(path) if path is not None else _real_listdir()
        key = _key(path)
        if key is None:
            return res
        return _shuffled(res, key, lambda n: n if isinstance(n, str) else n.decode('utf-8', 'surrogateescape'))

    class _ScandirProxy:
        def __init__(self, entries):
            self._it = iter(entries)

        def __iter__(self):
            return self

        def __next__(self):
            return next(self._it)

        def close(self):
            self._it = iter(())

        def __enter__(self):
            return self

        def __exit__(self, *a):
            self.close()
            return False

    def scandir(path=None):
        key = _key(path)
        it = _real_scandir(path) if path is not None else _real_scandir()
        if key is None:
            return it
        with it:
            entries = list(it)
        return _ScandirProxy(_shuffled(entries, key, lambda e: e.name if isinstance(e.name, str)
                                       else e.name.decode('utf-8', 'surrogateescape')))

    listdir.__doc__ = _real_listdir.__doc__
    scandir.__doc__ = _real_scandir.__doc__
    _os.listdir = listdir
    _os.scandir = scandir
    _log = _os.environ.get('MESON_VERIF_SHUFFLE_LOG')
    if _log:
        try:
            with open(_log, 'a') as _f:
                _f.write('active pid=%d seed=%s\n' % (_os.getpid(), _seed))
        except OSError:
            pass
