#!/bin/sh
# usage: selftest/mutant.sh <patch-file> <Cxx> [tier]
# Copies /repo (without .git) to a scratch dir, applies the patch there, runs the check against the copy
# through VERIF_REPO, prints the verdict and removes the copy.  Expected: exit 1 + VIOLATION.
here="$(cd "$(dirname "$0")/.." && pwd)"
patch="$(realpath "$1")"; prop="$2"; tier="${3:-quick}"
base=/dev/shm; [ -d "$base" ] || base="${TMPDIR:-/tmp}"
d="$(mktemp -d "$base/mverif-mutant-XXXXXX")"
trap 'rm -rf "$d"' EXIT
mkdir "$d/repo"
(cd /repo && tar cf - --exclude=.git --exclude='__pycache__' . ) | (cd "$d/repo" && tar xf -)
(cd "$d/repo" && patch -p1 -s < "$patch") || { echo "MUTANT $patch: patch does not apply"; exit 3; }
out="$d/out.txt"
VERIF_REPO="$d/repo" VERIF_EVIDENCE_DIR="$d/evidence" "$here/vcheck" "$prop" --tier "$tier" > "$out" 2>&1
rc=$?
grep -E '^(VIOLATION|KNOWN-FINDING|HARNESS-ERROR)|signature:' "$out" | head -8
if [ $rc -eq 1 ] && grep -q "^VIOLATION property=$prop" "$out"; then echo "MUTANT $(basename "$patch") $prop: CAUGHT"; exit 0; fi
echo "MUTANT $(basename "$patch") $prop: MISSED (exit $rc)"; tail -5 "$out"; exit 1
