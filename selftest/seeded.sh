#!/bin/sh
# usage: selftest/seeded.sh <Cxx> <A|B|..> [tier]      (candidate under /tmp/seed/out/Cxx/X, worktree /tmp/seed/Cxx)
#    or: selftest/seeded.sh --kept <seeded-id> [tier]  (kept change under /verif/seeded/<id>; needs a worktree, made on the fly)
# Confirms a seeded change (demo passes clean / fails patched / pinned suite unchanged) and runs the property's check against it.
here="$(cd "$(dirname "$0")/.." && pwd)"
if [ "$1" = "--kept" ]; then
  id="$2"; tier="${3:-quick}"; dir="$here/seeded/$id"; prop="$(python3 -c "import json,sys;print(json.load(open('$dir/meta.json'))['property'])")"
  wt="/tmp/seedwt-$id"; git -C /repo worktree add -q --detach "$wt" HEAD || exit 3; made=1
else
  prop="$1"; x="$2"; tier="${3:-quick}"; dir="/tmp/seed/${SEED_OUT:-out}/$prop/$x"; wt="/tmp/seed/$prop"; made=0
fi
demo="$(ls "$dir"/demo.* | head -1)"
rundemo() { case "$demo" in *.py) (cd "$wt" && SEED_WT="$wt" timeout 900 /venv/bin/python "$demo" >"$1" 2>&1);; *) (cd "$wt" && SEED_WT="$wt" timeout 900 sh "$demo" >"$1" 2>&1);; esac; }
cleanup() { git -C "$wt" checkout -q -- . ; git -C "$wt" clean -fdq; [ "$made" = 1 ] && git -C /repo worktree remove --force "$wt"; }
trap cleanup EXIT
git -C "$wt" checkout -q -- . ; git -C "$wt" clean -fdq
if [ "$made" = 1 ]; then sed -i "s#/tmp/seed/$prop#$wt#g" /dev/null; fi
rundemo /tmp/seeded-clean.$$; rc_clean=$?
git -C "$wt" apply "$dir/patch.diff" || { echo "SEEDED $prop/$x: patch does not apply"; exit 3; }
rundemo /tmp/seeded-patched.$$; rc_patched=$?
py="$(cd "$wt" && /venv/bin/python -m pytest -q -p no:cacheprovider --timeout=900 --continue-on-collection-errors 2>&1 | tail -1)"
ev="$(mktemp -d /dev/shm/mverif-seeded-XXXXXX)"
VERIF_REPO="$wt" VERIF_EVIDENCE_DIR="$ev" "$here/vcheck" "$prop" --tier "$tier" > "$ev/out.txt" 2>&1; rc=$?
echo "SEEDED $prop/${x:-$id}: demo clean rc=$rc_clean, demo patched rc=$rc_patched, pytest: $py"
grep -E '^(VIOLATION|HARNESS-ERROR)|signature:' "$ev/out.txt" | head -6
if [ $rc -eq 1 ] && grep -q "^VIOLATION property=$prop" "$ev/out.txt"; then echo "SEEDED $prop/${x:-$id}: CAUGHT ($tier)"; else echo "SEEDED $prop/${x:-$id}: MISSED (exit $rc, $tier)"; tail -3 "$ev/out.txt"; fi
rm -rf "$ev" /tmp/seeded-clean.$$ /tmp/seeded-patched.$$
