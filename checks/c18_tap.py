"""C18 - TAP streams are interpreted per the TAP specification.

Oracle: harness/reftap.py (independent TAP 12/13 interpreter written from the specification, the property
sentence and the corner cases pinned in unittests/taptests.py).  Compared per stream:
  (1) the sequence of Test events (number, name, result) exactly,
  (2) ">= 1 Error event  <=>  the reference detects >= 1 of the error classes the property names"
      (message text, multiplicity and position are free),
  (3) a Bailout event <=> a `Bail out!` line,
  (4) no input makes TAPParser raise,
  (5) TestRunTAP reports the test bad <=> failed/unexpectedly-passed subtest, Error/Bailout event, or exit status != 0.
"""
from __future__ import annotations

import collections
import importlib.util
import io
import itertools
import json
import os
import random
import subprocess
import types
import typing as T

from harness import reftap
from harness.core import (Ctx, Evidence, Failure, HarnessError, REPO, campaign, hyp_settings, minimize_list, pmap,
                          shard_seeds)

LEVEL = 'exploration'
RULE = ('(a) exhaustive: every sequence of <= 3 lines over a 35-form TAP line alphabet (ok/not ok with and without numbers 1,2,3,5,0,007 and a '
        '5000-digit number, '
        'names, SKIP/TODO/unknown directives, plans 1..0-1..3 with valid and invalid trailers, TAP version 12/13/14, diagnostics, blank, '
        'YAML start/body/end, Bail out!, unknown and indented text), every sequence of 4 lines over 28 of these forms, and (thorough) every '
        'sequence of 5 lines over 20 of them; (b) generated streams <= 60 lines: a well-formed stream (version, early/late/no plan, '
        'explicit/implicit/mixed numbering, directives, YAML blocks, diagnostics) plus 0-3 mutations (delete/duplicate/insert/swap/replace/'
        'renumber), and free sequences over the alphabet + 56 extra forms (among them test/plan/version lines with 700- and 5000-digit numbers) - once through Hypothesis (shrinkable) and, in bulk, through the '
        'same grammar driven by a seeded random.Random (ddmin over lines on failure); (c) arbitrary unicode text, glued TAP fragments and '
        'decoded random bytes, fragments include 4301- and 5000-digit runs (no-raise clause); (d) whole-test verdict through TestRunTAP.parse/complete in-process: every stream of (a) '
        'with <= 4 lines x exit status {0,1,77}, one status for the other enumerated and bulk streams, {0,1,77} for the Hypothesis streams '
        'and texts; (e) sampled streams as real protocol:tap tests under `meson test`; in (d) and (e) expected_exitcode: (documented as exitcode-protocol only) is varied as a circumstance. '
        'non-trivial = >= 2 test lines and >= 1 of {plan, YAML block, directive, version line} and not excluded as unspecified; distinct '
        'by the line tuple (enumerations are duplicate-free by construction, sampled cases are fingerprinted).')
ASSUMPTIONS = [
    'white space is blank and tab; a stream containing other characters that Python regards as white space is outside the TAP documents (excluded, counted)',
    'a subtest name may or may not include a leading "- " (TAP 12/13 do not say); both are accepted',
    '`ok`/`not ok` SKIP handling (`not ok # SKIP` is a failure), version < 13 and invalid plan trailers follow unittests/taptests.py; the latter two are tolerated (error allowed, not demanded) because the property does not name them',
    'after `Bail out!` the specification stops the run; events after the bail-out are not compared',
    'position, text and number of Error events are free; only their presence per stream is compared (validity predicate)',
    'the number reported for a subtest whose number is written with more digits than int() converts (sys.get_int_max_str_digits()) is not '
    'compared - TAP 12/13 put no bound on test numbers and do not say how a harness represents one it cannot hold; the line still has to '
    'give one subtest with the right name and result, must not raise, and the stream must produce an Error (it always has a missing number '
    'or a plan/count mismatch)',
]

# ---------------------------------------------------------------------------------------------------------
# line alphabet (DESIGN C18 "Domain")

ALPHABET = [
    'ok', 'ok 1', 'ok 2', 'ok 3 - c', 'ok 5', 'ok 0', 'ok 007',
    'not ok', 'not ok 2 - b',
    'ok # SKIP', 'ok 1 - a # skip why', 'not ok # TODO', 'ok 2 # todo x', 'ok 1 # FIXME', 'not ok 1 # SKIP',
    '1..0', '1..1', '1..2', '1..3', '1..0 # SKIP why', '1..2 # SKIP', '1..1 # TODO',
    'TAP version 13', 'TAP version 12', 'TAP version 14',
    '# diagnostic', '', '  ---', '  key: v', '  ...',
    'Bail out!', 'Bail out! msg', 'unknown text', '    ok 1',
]
# numbers longer than int() converts (4300 digits by default) and numbers above the old 600-digit cut of the campaigns
BIG = '1' * 5000
MID = '7' * 700
ALPHABET.append('ok ' + BIG)
LONG_LINE = reftap.int_str_limit() or 4300      # a line longer than this in a generated case holds an over-long digit run
# length 4 (quick and thorough): the alphabet without forms that only repeat another form's role there
ALPHABET4 = [a for a in ALPHABET if a not in ('ok 0', 'ok 007', 'Bail out! msg', 'TAP version 14', 'TAP version 12', '1..1 # TODO', 'ok ' + BIG)]
# thorough tier, length 5: forms that take part in counters / state transitions
ALPHABET5 = [
    'ok', 'ok 1', 'ok 2', 'ok 3 - c', 'not ok', 'ok # SKIP', 'not ok # TODO',
    '1..1', '1..2', '1..3', 'TAP version 13', '# diagnostic', '  ---', '  key: v', '  ...', 'unknown text',
    '1..0 # SKIP why', 'Bail out!', 'ok 5', 'not ok 2 - b',
]
EXTRA_LINES = [
    'ok 4', 'ok 6', 'ok 10', 'not ok 3', 'ok - only name', 'ok 2 name with # SKIP', 'ok 3 # Skipped: no db', 'ok 1 # ToDo',
    'not ok 4 - x # TODO not yet', 'ok 2 #SKIP', 'ok   7   spaced  ', 'ok\t3\ttabbed', '1..4', '1..5', '1..10', '1..3 # comment',
    ' ---', ' k: v', ' ...', '    ---', '    ...', '  - item', '   ', '---', '...', '#', '# 1..3', '#ok 1', 'TAP version 13 ',
    'Bail out! # x', 'not ok # SKIP why', 'ok 1 - é', 'ok 2 - 名前', 'okay', 'ok1', 'not  ok', 'OK 1', '1..', '2..3', '1..3x',
    'ok 1 2', 'ok 1 a \\# b', 'ok 1 # TODOS', 'ok 1 # x # TODO', 'bail out!', 'TAP version 013', 'TAP Version 13', 'ok 00', 'ok 1 # SKIP\tx',
    'ok ' + BIG, 'not ok ' + BIG + ' - big # TODO', '1..' + BIG, 'TAP version ' + BIG, 'ok ' + MID, '1..' + MID, 'ok 9' + BIG[1:] + ' - other big',
]

BAD_RESULTS = (reftap.FAIL, reftap.XPASS)
SIG_INTLIMIT = 'raises:ValueError/int-max-str-digits'
EXCL_TOLERATED = 'error-iff not evaluated: only fixture-pinned classes present (version < 13, plan trailer)'
EXCL_BAILOUT = 'error-iff not evaluated after Bail out!'
EXCL_BIGBAIL = 'no-Error-before-bail-out not evaluated: an over-long number (more digits than int() converts) precedes the Bail out!'
EXCL_BIGNUM = 'reported subtest number not compared: written with more digits than int() converts (everything else is compared)'


# ---------------------------------------------------------------------------------------------------------
# implementation under test

def impl_events(lines: T.Sequence[str]) -> list:
    from mesonbuild.mtest import TAPParser
    return list(TAPParser().parse(iter(lines)))


def kind(e: T.Any) -> str:
    return type(e).__name__


class _Harness:
    """the only thing TestRunTAP.parse needs from a TestHarness"""

    def log_subtest(self, test: T.Any, s: str, res: T.Any, explanation: T.Optional[str]) -> None:
        pass


async def _alines(lines: T.Sequence[str]) -> T.AsyncIterator[str]:
    for line in lines:
        yield line


def tap_run(lines: T.Sequence[str], rc: int) -> T.Tuple[bool, str]:
    """Drive TestRunTAP exactly as SingleTestRunner._run_cmd does (start -> parse(lines) -> returncode -> complete),
    without a subprocess.  The async line iterator never suspends, so one send() runs the coroutine to its end.
    expected_exitcode: is documented as 'only has effect when protocol is set to exitcode'; it is a circumstance here and is
    varied deterministically with the stream (unset, 0, the status the program exits with, another status)."""
    from mesonbuild import mtest
    eec = (None, 0, rc, 3)[(len(lines) + sum(len(x) for x in lines[:3]) + rc) % 4]
    test = types.SimpleNamespace(protocol=mtest.TestProtocol.TAP, expected_fail=False, expected_exitcode=eec,
                                 project_name='p', name='t', workdir=None)
    run = mtest.TestRun(test, {}, 't', None, False, False, False)
    if type(run).__name__ != 'TestRunTAP':
        raise HarnessError('TestRun did not dispatch to TestRunTAP')
    run.start(['prog'])
    coro = run.parse(_Harness(), _alines(lines))
    try:
        coro.send(None)
    except StopIteration:
        pass
    else:
        coro.close()
        raise HarnessError('TestRunTAP.parse suspended on a synchronous line source')
    run.returncode = rc
    run.complete()
    return run.res.is_bad(), run.res.value


# ---------------------------------------------------------------------------------------------------------
# oracle

def dupgap_cancel(R: reftap.Interp) -> bool:
    """histogram only: the class of the repaired defect a84685a (one duplicate and one gap, highest number == count)"""
    nums = [n for n, _, _ in R.tests]
    return R.named == [reftap.C_DUP, reftap.C_MISSING] and not R.tolerated and bool(nums) and max(nums) == len(nums)


def raise_failure(lines: T.Sequence[str], e: BaseException, what: str = 'TAPParser.parse') -> Failure:
    if isinstance(e, ValueError) and 'integer string conversion' in str(e):
        sig = SIG_INTLIMIT
    else:
        sig = f'raises:{type(e).__name__}'
    return Failure(sig, {'lines': list(lines)}, f'{what} raised {e!r:.300} on {_show(lines)}; the property says no input makes the parser raise')


def _show(lines: T.Sequence[str]) -> str:
    s = json.dumps(list(lines), ensure_ascii=False)
    return s if len(s) < 600 else s[:600] + '...'


def _shown(tests: T.Iterable[T.Tuple[T.Any, ...]]) -> list:
    """(number, result) pairs of reference subtests for messages / samples (a 5000-digit int cannot be printed)"""
    return [(reftap.show_num(t[0]), t[-1]) for t in tests]


def compare(lines: T.Sequence[str], events: list, R: reftap.Interp) -> T.Tuple[T.Optional[Failure], str]:
    """-> (failure, class tag)"""
    if R.unspecified:
        return None, 'unspecified'
    case = {'lines': list(lines)}
    kinds = [kind(e) for e in events]
    bail_at = kinds.index('Bailout') if 'Bailout' in kinds else None
    if R.bailout is not None:
        if bail_at is None:
            return Failure('bailout/no-event', case, f'{_show(lines)}: line {R.bailout + 1} is `Bail out!` but no Bailout event was produced: {events}'), 'bailout'
        cmp_events = events[:bail_at]
    else:
        if bail_at is not None:
            return Failure('bailout/spurious-event', case, f'{_show(lines)}: Bailout event without a `Bail out!` line: {events}'), 'valid'
        cmp_events = events
    got = [(e.number, e.name, e.result.value) for e in cmp_events if kind(e) == 'Test']
    want = R.tests
    if len(got) != len(want):
        return Failure('tests/count', case, f'{_show(lines)}: expected {len(want)} subtests {_shown(want)}, got {len(got)}: {got}'), 'x'
    for i, ((gn, gname, gres), (wn, wnames, wres)) in enumerate(zip(got, want)):
        if i in R.loose:
            if not isinstance(gn, int) or isinstance(gn, bool):
                return Failure('tests/number', case, f'{_show(lines)}: subtest #{i + 1} has the number {gn!r:.80}, which is not an integer'), 'x'
        elif gn != wn:
            return Failure('tests/number', case, f'{_show(lines)}: subtest #{i + 1} should have number {reftap.show_num(wn)}, got {gn} ({got})'), 'x'
        if gres != wres:
            return Failure(f'tests/result:{wres}->{gres}', case, f'{_show(lines)}: subtest #{i + 1} should be {wres}, got {gres}'), 'x'
        if wnames is not None and gname not in wnames:
            return Failure('tests/name', case, f'{_show(lines)}: subtest #{i + 1} should be named one of {wnames}, got {gname!r}'), 'x'
    n_err = sum(1 for k in kinds if k == 'Error')
    if R.bailout is not None:
        before = sum(1 for k in kinds[:bail_at] if k == 'Error')
        if before and not R.classes and not R.tolerated and not R.soft and not R.big:
            return Failure('spurious-error', case, f'{_show(lines)}: Error event(s) before the bail-out although nothing is wrong up to there: {events}'), 'bailout'
        return None, 'bailout'
    if R.soft:
        return None, 'soft'
    named = R.named
    if named:
        tag = 'err:' + min(R.classes, key=lambda c: (R.classes[c], c))
        if n_err == 0:
            return Failure('no-error:' + '+'.join(named), case,
                           f'{_show(lines)}: the stream has {named} (reference, first definite at line index {R.classes}) '
                           f'but no Error event was produced: {events}'), tag
        return None, tag
    if R.tolerated:
        return None, 'tolerated-only'
    if n_err:
        msgs = [e.message for e in events if kind(e) == 'Error']
        return Failure('spurious-error', case, f'{_show(lines)}: nothing in the stream is wrong per TAP 12/13 but Error events were produced: {msgs}'), 'valid'
    return None, 'valid'


def verdict_causes(events: list) -> T.List[str]:
    causes = []
    for e in events:
        k = kind(e)
        if k == 'Test' and e.result.value == reftap.FAIL:
            c = 'failed-subtest'
        elif k == 'Test' and e.result.value == reftap.XPASS:
            c = 'unexpected-pass'
        elif k == 'Error':
            c = 'error'
        elif k == 'Bailout':
            c = 'bailout'
        else:
            continue
        if c not in causes:
            causes.append(c)
    return sorted(causes)


def check_verdict(lines: T.Sequence[str], events: list, rcs: T.Iterable[int]) -> T.Optional[Failure]:
    causes = verdict_causes(events)
    for rc in rcs:
        bad, res = tap_run(lines, rc)
        want = bool(causes) or rc != 0
        if bad != want:
            why = causes + (['exit-status'] if rc != 0 else [])
            if want:
                return Failure('verdict/good-despite:' + '+'.join(why), {'lines': list(lines), 'rc': rc},
                               f'{_show(lines)} exit status {rc}: events contain {why} so the test must be reported bad, got {res}')
            return Failure('verdict/bad-without-cause', {'lines': list(lines), 'rc': rc},
                           f'{_show(lines)} exit status {rc}: no failed/unexpectedly passed subtest, no Error/Bailout event, exit status 0, '
                           f'but the test was reported {res}; events {events}')
    return None


# The two defect classes found on the pinned tree (duplicate + gap cancelling out, numbers beyond the int() digit limit) were
# repaired by `fix:` commits in /repo (a84685a, 6c730bd; known_findings.json "fixed"): nothing is excluded for them any more,
# the campaigns enumerate / generate both classes and judge them with the oracle below; probes() and replays/regress keep the
# original inputs as regression cases.

def check_stream(lines: T.Sequence[str], rcs: T.Iterable[int] = ()) -> T.Tuple[T.Optional[Failure], str, T.Optional[reftap.Interp]]:
    """full check of one stream -> (failure, class tag, reference interpretation)"""
    try:
        events = impl_events(lines)
    except Exception as e:
        return raise_failure(lines, e), 'raise', None
    R = reftap.interpret(lines)
    f, tag = compare(lines, events, R)
    if f is None and rcs:
        try:
            f = check_verdict(lines, events, rcs)
        except HarnessError:
            raise
        except Exception as e:
            f = raise_failure(lines, e, 'TestRunTAP.parse/complete')
    return f, tag, R


# ---------------------------------------------------------------------------------------------------------
# self-test of the reference model

def load_fixtures() -> T.List[dict]:
    """Every stream + expected event list of unittests/taptests.py, obtained by running the test methods with
    parse_tap/assert_* replaced by recorders (the implementation is not involved)."""
    path = os.path.join(REPO, 'unittests', 'taptests.py')
    spec = importlib.util.spec_from_file_location('_c18_pinned_taptests', path)
    if spec is None or spec.loader is None:
        raise HarnessError(f'cannot load {path}')
    mod = importlib.util.module_from_spec(spec)
    spec.loader.exec_module(mod)
    base = mod.TAPParserTests
    out: T.List[dict] = []

    class Rec(base):  # type: ignore[misc,valid-type]
        def parse_tap(self, s: str) -> dict:
            tok = {'stream': s, 'expected': [], 'closed': False, 'method': self._testMethodName}
            out.append(tok)
            return tok

        def assert_test(self, events: dict, **kw: T.Any) -> None:
            events['expected'].append(('Test', kw))

        def assert_plan(self, events: dict, **kw: T.Any) -> None:
            events['expected'].append(('Plan', kw))

        def assert_version(self, events: dict, **kw: T.Any) -> None:
            events['expected'].append(('Version', kw))

        def assert_error(self, events: dict) -> None:
            events['expected'].append(('Error', {}))

        def assert_unexpected(self, events: dict, **kw: T.Any) -> None:
            events['expected'].append(('UnknownLine', kw))

        def assert_bailout(self, events: dict, **kw: T.Any) -> None:
            events['expected'].append(('Bailout', kw))

        def assert_last(self, events: dict) -> None:
            events['closed'] = True

    methods = sorted(m for m in dir(base) if m.startswith('test_'))
    for m in methods:
        getattr(Rec(m), m)()
    if len(methods) < 35 or len(out) < 45:
        raise HarnessError(f'pinned TAP fixtures changed shape: {len(methods)} methods, {len(out)} streams')
    return out


SPEC_EXAMPLES: T.List[T.Tuple[str, T.List[T.Tuple[int, str]], T.List[str], bool]] = [
    # (stream, [(number, result)], named classes, bailout)   -- examples in the style of the TAP 12/13 documents
    ('1..4\nok 1 - Input file opened\nnot ok 2 - First line of the input valid\nok 3 - Read the rest of the file\n'
     'not ok 4 - Summarized correctly # TODO Not written yet\n', [(1, 'OK'), (2, 'FAIL'), (3, 'OK'), (4, 'EXPECTEDFAIL')], [], False),
    ('1..0 # Skipped: WWW::Mechanize not installed\n', [], [], False),
    ('1..573\nnot ok 1 - database handle\nBail out! Couldn\'t connect to database.\n', [(1, 'FAIL')], [], True),
    ('1..6\nnot ok\nok\nnot ok\nok\nok\n', [(1, 'FAIL'), (2, 'OK'), (3, 'FAIL'), (4, 'OK'), (5, 'OK')],
     [reftap.C_MISSING, reftap.C_MISMATCH], False),
    ('TAP version 13\n1..3\nok 1 - a\n  ---\n  message: "x"\n  severity: comment\n  ...\nok 2 # SKIP no db\nok 3 # TODO\n',
     [(1, 'OK'), (2, 'SKIP'), (3, 'UNEXPECTEDPASS')], [], False),
    ('ok 1\nok 2\n1..2\n', [(1, 'OK'), (2, 'OK')], [], False),
    ('ok 1\n1..2\nok 2\n', [(1, 'OK'), (2, 'OK')], [reftap.C_LATE], False),
    ('1..1\n1..1\nok\n', [(1, 'OK')], [reftap.C_PLAN2], False),
    ('1..2\nok 1\nok 3\n', [(1, 'OK'), (3, 'OK')], [reftap.C_MISSING, reftap.C_BEYOND], False),
    ('ok 1\nok 1\nok 3\n', [(1, 'OK'), (1, 'OK'), (3, 'OK')], [reftap.C_DUP, reftap.C_MISSING], False),
    ('ok 1\nok 1\n', [(1, 'OK'), (1, 'OK')], [reftap.C_DUP], False),
    ('ok 5\nok\nok 2\nok\n', [(5, 'OK'), (6, 'OK'), (2, 'OK'), (3, 'OK')], [reftap.C_MISSING], False),
    ('TAP version 13\nok 1\n  ---\n  a: b\n', [(1, 'OK')], [reftap.C_YAML], False),
    ('ok 1\n  ---\n  a: b\n', [(1, 'OK')], [], False),                      # TAP 12: no YAML, unknown lines
    ('# hello\nTAP version 13\nok 1\n', [(1, 'OK')], [reftap.C_VERSION], False),
    ('TAP version 13\nok 1\n# diag\n  ---\nok 2\n', [(1, 'OK'), (2, 'OK')], [], False),   # YAML must follow the test line immediately
    ('1..2\nok 1\nok 2\nok 3\n', [(1, 'OK'), (2, 'OK'), (3, 'OK')], [reftap.C_BEYOND, reftap.C_MISMATCH], False),
]


def selftest(ctx: Ctx) -> None:
    n_streams = 0
    for fx in load_fixtures():
        lines = list(io.StringIO(fx['stream']))
        R = reftap.interpret(lines)
        where = f'{fx["method"]} {fx["stream"]!r}'
        if R.unspecified or R.soft:
            raise HarnessError(f'reference marks a pinned fixture as unspecified: {where}: {R.unspecified or R.soft}')
        exp = fx['expected']
        exp_kinds = [k for k, _ in exp]
        if 'Bailout' in exp_kinds:
            exp = exp[:exp_kinds.index('Bailout')]
        exp_tests = [(kw['number'], kw['name'], kw['result'].value) for k, kw in exp if k == 'Test']
        ref_tests = R.tests if fx['closed'] else R.tests[:len(exp_tests)]
        ok = len(ref_tests) == len(exp_tests) and all(
            rn == en and rr == er and (rnames is None or ename in rnames)
            for (rn, rnames, rr), (en, ename, er) in zip(ref_tests, exp_tests))
        if not ok:
            raise HarnessError(f'reference disagrees with pinned fixture on subtests: {where}: ref {R.tests} fixture {exp_tests}')
        if ('Bailout' in exp_kinds) != (R.bailout is not None):
            raise HarnessError(f'reference disagrees with pinned fixture on bail-out: {where}')
        has_err = 'Error' in exp_kinds
        if has_err and not (R.classes or R.tolerated):
            raise HarnessError(f'pinned fixture expects an error the reference does not detect: {where}')
        if fx['closed'] and not has_err and (R.classes or R.tolerated):
            raise HarnessError(f'reference detects {R.named or R.tolerated} where the pinned fixture expects no error: {where}')
        n_streams += 1
    for stream, tests, classes, bail in SPEC_EXAMPLES:
        R = reftap.interpret(stream.splitlines(keepends=True))
        got = [(n, r) for n, _, r in R.tests]
        if got != tests or R.named != sorted(classes) or (R.bailout is not None) != bail or R.unspecified or R.tolerated:
            raise HarnessError(f'reference self-test failed on {stream!r}: tests {got} classes {R.named} bailout {R.bailout} '
                               f'unspecified {R.unspecified} tolerated {R.tolerated}')
    # numbers of any length: exact value in the reference's own counting, reported value left open beyond the int() limit
    lim = reftap.int_str_limit()
    for stream, n_tests, loose, classes, big in (
            (['ok ' + BIG], 1, {0}, [reftap.C_MISSING], True),
            (['ok ' + BIG, 'ok', 'ok 2', 'ok'], 4, {0, 1}, [reftap.C_MISSING], True),
            (['1..' + BIG, 'ok 1'], 1, set(), [reftap.C_MISSING, reftap.C_MISMATCH], True),
            (['1..2', 'ok ' + BIG, 'ok 1'], 2, {0}, [reftap.C_BEYOND, reftap.C_MISSING], True),
            (['ok ' + MID], 1, set(), [reftap.C_MISSING], False),
            (['ok 1', 'TAP version ' + BIG], 1, set(), [reftap.C_VERSION], False)):
        R = reftap.interpret(with_eol(stream, 0))
        limited = bool(lim) and lim < len(BIG)
        if len(R.tests) != n_tests or R.loose != (loose if limited else set()) or R.named != sorted(classes) or R.unspecified or R.big != (big and limited):
            raise HarnessError(f'reference self-test failed on a long-number stream {[x[:12] for x in stream]}: {len(R.tests)} tests, loose {R.loose}, '
                               f'classes {R.named}, unspecified {R.unspecified}, big {R.big}')
    if reftap.to_int(MID) != int(MID) or reftap.to_int(BIG) % 10 ** 12 != 111111111111 or reftap.to_int(BIG).bit_length() != 16607:
        raise HarnessError('reftap.to_int is wrong')
    for text, why in (('okay', 'glued'), ('ok 1 2', 'digit'), ('1..3x', 'after plan'), ('ok 1 \\# x', 'escaped'), ('ok\x0c1', 'white space')):
        ln = reftap.classify(text)
        if ln.kind != 'unspecified' or why not in ln.why:
            raise HarnessError(f'reference should mark {text!r} unspecified ({why}), got {ln}')
    ctx.ev.extra['selftest_fixture_streams'] = n_streams
    ctx.ev.extra['selftest_spec_examples'] = len(SPEC_EXAMPLES)


# ---------------------------------------------------------------------------------------------------------
# (a)+(d) exhaustive enumeration

FAMILIES = ('no-error:', 'verdict/good-despite:')


def _family(sig: str) -> str:
    for fam in FAMILIES:
        if sig.startswith(fam):
            return fam
    return sig


def _minimize(lines: T.Sequence[str], sig: str, rcs: T.Tuple[int, ...]) -> T.Optional[Failure]:
    """ddmin over the lines.  For the signature families that carry a class list the list is recomputed on the minimal
    stream, so one root cause that shows up together with other classes still lands in one bucket."""
    fam = _family(sig)

    def run(cand: T.Sequence[str]) -> T.Optional[Failure]:
        f, _, _ = check_stream(cand, rcs)
        return f if f is not None and _family(f.sig) == fam else None

    small = minimize_list(list(lines), lambda cand: run(cand) is not None, max_tests=300)
    return run(small) or run(lines)


def _normalise(fails: T.List[Failure], start: int) -> None:
    for i in range(start, len(fails)):
        f = fails[i]
        if isinstance(f.case, dict) and 'lines' in f.case and not f.case.get('e2e'):
            rcs = (f.case['rc'],) if 'rc' in f.case else ()
            fails[i] = _minimize(f.case['lines'], f.sig, rcs) or f


def _enum_shard(shard: T.Tuple[T.List[str], int, int, int, int], ev: Evidence, fails: T.List[Failure]) -> None:
    alphabet, first, minlen, maxlen, full_rc_len = shard
    AL = [a + '\n' for a in alphabet]
    hist: T.Counter[str] = collections.Counter()
    excl: T.Counter[str] = collections.Counter()
    sigs: T.Set[str] = set()
    samples: T.Counter[str] = collections.Counter()
    n = nt = nverd = 0
    if first < 0:
        seqs: T.Iterable[T.Tuple[str, ...]] = [()]
    else:
        head = (AL[first],)
        seqs = (head + tail for length in range(max(1, minlen), maxlen + 1) for tail in itertools.product(AL, repeat=length - 1))
    for lines in seqs:
        n += 1
        rcs: T.Tuple[int, ...] = (0, 1, 77) if len(lines) <= full_rc_len else ((0, 1, 77)[n % 3],)
        nverd += len(rcs)
        f, tag, R = check_stream(lines, rcs)
        hist[tag] += 1
        if R is not None:
            if R.unspecified:
                excl['unspecified by TAP 12/13: ' + R.unspecified[0]] += 1
            elif tag == 'soft':
                excl['error-iff not evaluated: ' + R.soft[0]] += 1
            elif tag == 'tolerated-only':
                excl[EXCL_TOLERATED] += 1
            elif tag == 'bailout':
                excl[EXCL_BAILOUT] += 1
            if R.loose:
                excl[EXCL_BIGNUM] += 1
            if R.big and tag == 'bailout':
                excl[EXCL_BIGBAIL] += 1
            if len(R.classes) == 1 and tag.startswith('err:'):
                hist['single-class:' + tag[4:]] += 1
            if tag.startswith('err:') and dupgap_cancel(R):
                hist['dup-and-gap-cancel (fixed defect class, judged)'] += 1
            if tag.startswith('err:'):
                for c in R.classes:
                    hist['has:' + c] += 1
            if R.nontrivial() and not R.unspecified:
                nt += 1
            if samples[tag] < 2 and len(lines) == maxlen and (n % 97 == 0):
                samples[tag] += 1
                ev.case({'lines': [x.rstrip('\n') for x in lines], 'ref_tests': _shown(R.tests), 'ref_classes': R.named},
                        cls='enum/' + tag, n=0)
        if f is not None and f.sig not in sigs:
            sigs.add(f.sig)
            f = _minimize(lines, f.sig, rcs) or f
            if f.sig not in sigs or not any(x.sig == f.sig for x in fails):
                sigs.add(f.sig)
                fails.append(f)
    ev.evaluations += n + nverd
    ev.add_distinct(nt)
    for k, v in hist.items():
        ev.event('enum/' + k, v)
    ev.event('enum/streams', n)
    ev.event('verdict/evaluations', nverd)
    for k, v in excl.items():
        ev.exclude(k, v)


# ---------------------------------------------------------------------------------------------------------
# (b) Hypothesis streams

NAMES = ['', '', 'a', '- b', 'test name', '- x y z', 'é', 'name-with-dash', 'ok', 'Bail out', 'TAP', '- 1st']
DIRS = ['', '', '', '', ' # SKIP', ' # skip why', ' # Skipped: no db', ' # TODO', ' # todo later', ' # ToDo', ' #SKIP', '# TODO x',
        ' # FIXME', ' #']
YAML_BODY = ['k: v', 'message: "x"', '  nested: 1', '- item', '---', '# not a diag', 'ok 1']
ODD_LINES = [x for x in EXTRA_LINES if reftap.classify(x).kind == 'unspecified']
POOL = ALPHABET + [x for x in EXTRA_LINES if x not in ODD_LINES]


class RandDraw:
    """draws from a seeded random.Random (bulk campaign, ~100x cheaper per stream than Hypothesis)"""

    def __init__(self, rnd: random.Random):
        self.r = rnd

    def int(self, lo: int, hi: int) -> int:
        return self.r.randint(lo, hi)

    def pick(self, seq: T.Sequence[T.Any]) -> T.Any:
        return seq[self.r.randrange(len(seq))]


class HypDraw:
    """the same draws made through Hypothesis (shrinkable)"""

    def __init__(self, draw: T.Any):
        from hypothesis import strategies as st
        self.d = draw
        self.st = st

    def int(self, lo: int, hi: int) -> int:
        return self.d(self.st.integers(lo, hi))

    def pick(self, seq: T.Sequence[T.Any]) -> T.Any:
        return self.d(self.st.sampled_from(seq))


def gen_structured(d: T.Any) -> T.List[str]:
    """a well-formed stream, then 0-3 mutations"""
    ver = d.pick([None, None, 13, 13, 13, 12, 14])
    n = d.int(0, 14)
    numbering = d.pick(['explicit', 'implicit', 'mixed'])
    plan = d.pick(['early', 'late', 'none'])
    lines: T.List[str] = []
    if ver is not None:
        lines.append(f'TAP version {ver}')
    if d.int(0, 5) == 0:
        lines.append('# leading diagnostic')
    if plan == 'early':
        lines.append(f'1..{n}' if n or d.int(0, 1) else '1..0 # SKIP nothing to do')
    for i in range(1, n + 1):
        ok = d.int(0, 4) != 0
        expl = numbering == 'explicit' or (numbering == 'mixed' and d.int(0, 1) == 1)
        nm = d.pick(NAMES)
        dr = d.pick(DIRS)
        lines.append(('ok' if ok else 'not ok') + (f' {i}' if expl else '') + (f' {nm}' if nm else '') + dr)
        extra = d.int(0, 9)
        if extra == 0:
            lines.append('# diag after test')
        elif extra in (1, 2):
            ind = d.pick([' ', '  ', '  ', '    '])
            lines.append(ind + '---')
            for _ in range(d.int(0, 3)):
                lines.append(ind + d.pick(YAML_BODY))
            if d.int(0, 5) != 0:
                lines.append(ind + '...')
        elif extra == 3:
            lines.append('')
        elif extra == 4:
            lines.append('some unknown output')
    if plan == 'late':
        lines.append(f'1..{n}')
    for _ in range(d.int(0, 3)):
        op = d.pick(['delete', 'dup', 'insert', 'swap', 'replace', 'renumber'])
        if op == 'insert':
            lines.insert(d.int(0, len(lines)), d.pick(POOL if d.int(0, 5) else ODD_LINES))
            continue
        if not lines:
            continue
        i = d.int(0, len(lines) - 1)
        if op == 'delete':
            del lines[i]
        elif op == 'dup':
            lines.insert(d.int(0, len(lines)), lines[i])
        elif op == 'swap':
            j = d.int(0, len(lines) - 1)
            lines[i], lines[j] = lines[j], lines[i]
        elif op == 'replace':
            lines[i] = d.pick(POOL)
        else:
            parts = lines[i].split(' ')
            for k, p in enumerate(parts):
                if p.isdigit() and k and parts[k - 1] == 'ok':
                    parts[k] = str(d.int(0, n + 2))
                    break
            lines[i] = ' '.join(parts)
    return lines[:60]


def gen_stream(d: T.Any) -> dict:
    which = d.int(0, 5)
    if which <= 2:
        lines = gen_structured(d)
    elif which == 3:
        lines = [d.pick(POOL) for _ in range(d.int(0, 60))]
        if d.int(0, 3) == 0:
            lines.insert(d.int(0, len(lines)), d.pick(ODD_LINES))
    else:
        lines = [d.pick(ALPHABET) for _ in range(d.int(5, 9))]
    return {'lines': lines, 'eol': d.int(0, 2)}


def stream_strategy() -> T.Any:
    from hypothesis import strategies as st

    @st.composite
    def strat(draw: T.Any) -> dict:
        return gen_stream(HypDraw(draw))

    return strat()


def with_eol(lines: T.Sequence[str], eol: int) -> T.List[str]:
    if eol == 1:
        return list(lines)
    out = [x + '\n' for x in lines]
    if eol == 2 and out:
        out[-1] = out[-1][:-1]
    return out


def _tally(ev: Evidence, case: T.Any, tag: str, R: T.Optional[reftap.Interp], prefix: str) -> None:
    if R is None:
        ev.case(None, cls=f'{prefix}/{tag}')
        return
    if R.unspecified:
        ev.exclude('unspecified by TAP 12/13: ' + R.unspecified[0])
    elif tag == 'soft':
        ev.exclude('error-iff not evaluated: ' + R.soft[0])
    elif tag == 'tolerated-only':
        ev.exclude(EXCL_TOLERATED)
    elif tag == 'bailout':
        ev.exclude(EXCL_BAILOUT)
    if R.loose:
        ev.exclude(EXCL_BIGNUM)
    if R.big and tag == 'bailout':
        ev.exclude(EXCL_BIGBAIL)
    if isinstance(case, dict) and any(len(x) > LONG_LINE for x in case['lines']):
        ev.event(f'{prefix}:has-over-long-number')
    if len(R.classes) == 1 and tag.startswith('err:'):
        ev.event('single-class:' + tag[4:])
    if tag.startswith('err:') and dupgap_cancel(R):
        ev.event('dup-and-gap-cancel (fixed defect class, judged)')
    if tag.startswith('err:'):
        for c in R.classes:
            ev.event('has:' + c)
    ev.case(case, nontrivial=R.nontrivial() and not R.unspecified, cls=f'{prefix}/{tag}')


def _stream_shard(shard: T.Tuple[int, int], ev: Evidence, fails: T.List[Failure]) -> None:
    seed, n = shard

    def check(case: dict) -> T.Optional[Failure]:
        lines = with_eol(case['lines'], case['eol'])
        f, tag, R = check_stream(lines, (0, 1, 77))
        _tally(ev, case, tag, R, 'stream')
        ev.evaluations += 3
        ev.event('verdict/evaluations', 3)
        return f

    start = len(fails)
    campaign(stream_strategy(), check, n, seed, fails)
    _normalise(fails, start)


def _bulk_shard(shard: T.Tuple[int, int], ev: Evidence, fails: T.List[Failure]) -> None:
    """the same stream grammar driven by a seeded random.Random; failures are minimised with ddmin over the lines"""
    seed, n = shard
    d = RandDraw(random.Random(seed))
    sigs: T.Set[str] = set()
    for i in range(n):
        case = gen_stream(d)
        lines = with_eol(case['lines'], case['eol'])
        rcs = ((0, 1, 77)[i % 3],)
        f, tag, R = check_stream(lines, rcs)
        _tally(ev, case, tag, R, 'bulk')
        ev.evaluations += 1
        ev.event('verdict/evaluations', 1)
        if f is not None and f.sig not in sigs and len(sigs) < 12:
            sigs.add(f.sig)
            f = _minimize(lines, f.sig, rcs) or f
            if not any(x.sig == f.sig for x in fails):
                sigs.add(f.sig)
                fails.append(f)


# ---------------------------------------------------------------------------------------------------------
# (c) arbitrary text

def mdecode(b: bytes) -> str:
    """what mtest.read_decode does to the bytes of one line"""
    try:
        return b.decode('utf-8')
    except UnicodeDecodeError:
        return b.decode('iso-8859-1', errors='ignore')


def text_strategy() -> T.Any:
    from hypothesis import strategies as st
    frag = st.one_of(
        st.sampled_from(['ok', 'not ok', 'not', ' ', ' ', '  ', '\t', '1', '2', '0', '#', '# ', 'SKIP', 'skip', 'TODO', 'todo', '..', '1..',
                         '---', '...', 'Bail out!', 'TAP version ', '13', '12', '-', '\\', '\r', '\x0c', '\x0b', '\x1c', '\x85', ' ',
                         '\xa0', 'é', '٣', '²', 'x', '\x00', '\ud800', '99999999999999999999', 'ſkip', 'İ']),
        st.text(max_size=3),
        st.integers(0, 10 ** 30).map(str),
    )
    glued = st.lists(st.lists(frag, max_size=7).map(''.join), max_size=12)
    mixed = st.lists(st.one_of(st.sampled_from(ALPHABET + EXTRA_LINES), st.lists(frag, max_size=7).map(''.join), st.text(max_size=12)),
                     max_size=14)
    text = st.text(max_size=120).map(lambda s: s.split('\n'))
    raw = st.binary(max_size=80).map(lambda b: [mdecode(x).replace('\r\n', '\n') for x in b.split(b'\n')])
    return st.tuples(st.one_of(glued, mixed, text, raw), st.integers(0, 2)).map(lambda t: {'lines': t[0], 'eol': t[1]})


def _text_shard(shard: T.Tuple[int, int], ev: Evidence, fails: T.List[Failure]) -> None:
    seed, n = shard

    def check(case: dict) -> T.Optional[Failure]:
        # a "line" never contains a line feed except as its terminator (that is what the reader delivers)
        lines = with_eol([x.replace('\n', ' ') for x in case['lines']], case['eol'])
        f, tag, R = check_stream(lines, (0, 1, 77))
        _tally(ev, case, tag, R, 'text')
        ev.evaluations += 3
        ev.event('verdict/evaluations', 3)
        return f

    start = len(fails)
    campaign(text_strategy(), check, n, seed, fails)
    _normalise(fails, start)


# ---------------------------------------------------------------------------------------------------------
# (e) real `meson test`

EMIT_PY = '''import sys
with open(sys.argv[1], 'rb') as f:
    data = f.read()
sys.stdout.buffer.write(data)
sys.stdout.buffer.flush()
if len(sys.argv) > 3:
    # chatter on stderr that looks like TAP: the stream is the program's standard output, nothing of this may count
    sys.stderr.write('not ok 991 - on stderr\\n1..77\\nok 5 # TODO on stderr\\n')
    sys.stderr.flush()
sys.exit(int(sys.argv[2]))
'''
BAD_RES = {'FAIL', 'ERROR', 'UNEXPECTEDPASS', 'TIMEOUT', 'INTERRUPT'}


def e2e_expect(lines: T.Sequence[str], rc: int) -> T.Tuple[T.Optional[bool], str]:
    """reference verdict for a stream run as a real test, None = not decidable from the documents"""
    R = reftap.interpret(lines)
    if R.unspecified:
        return None, 'unspecified by TAP 12/13: ' + R.unspecified[0]
    if rc != 0 or R.bailout is not None or R.bad_subtest():
        return True, ''
    if R.soft:
        return None, 'error-iff not evaluated: ' + R.soft[0]
    if R.classes:
        return True, ''
    if R.tolerated:
        return None, EXCL_TOLERATED
    return False, ''


def e2e_run(root: str, cases: T.List[T.Tuple[T.List[str], int]], extra: T.Sequence[str] = ()) -> T.Tuple[T.Dict[int, str], T.Any]:
    """one project, one protocol:'tap' test per case -> ({index: result string}, Result of `meson test`)"""
    from harness import mesondrv
    files: T.Dict[str, T.Union[str, bytes]] = {'emit.py': EMIT_PY}
    mb = ["project('tapv')", f"py = find_program('{mesondrv.PY}')", "emit = files('emit.py')"]
    for i, (lines, rc) in enumerate(cases):
        files[f's/{i}.tap'] = ''.join(lines).encode('utf-8')
        noise = ", 'noise'" if i % 2 else ''
        # expected_exitcode: 'only has effect when protocol is set to exitcode' (yaml reference): a circumstance for a TAP test
        eec = '' if i % 3 else f", expected_exitcode: {rc if i % 2 else 3}"
        mb.append(f"test('t{i:05d}', py, args: [emit, files('s/{i}.tap'), '{rc}'{noise}], protocol: 'tap'{eec})")
    files['meson.build'] = '\n'.join(mb) + '\n'
    mesondrv.write_tree(root, files)
    r = mesondrv.run_sub(['setup', '--backend=none', 'b'], cwd=root)
    if r.rc != 0:
        raise HarnessError(f'meson setup of the TAP test project failed: {r!r}')
    try:
        rt = mesondrv.run_sub(['test', '-C', 'b', '--no-rebuild', '--num-processes', '16'] + list(extra), cwd=root,
                              timeout=180 if len(cases) <= 100 else 600)
    except subprocess.TimeoutExpired as e:
        # a parser exception inside `meson test` can leave the run waiting for ever (seen with the int() limit defect
        # re-introduced): that is a finding about the tree (reported by e2e_check), not a problem of the harness
        rt = mesondrv.Result(-9, '', f'`meson test` did not finish within {e.timeout} s (killed)')
    got: T.Dict[int, str] = {}
    log = os.path.join(root, 'b', 'meson-logs', 'testlog.json')
    if os.path.exists(log):
        with open(log, encoding='utf-8') as fh:
            for ln in fh:
                if ln.strip():
                    try:
                        d = json.loads(ln)
                    except ValueError:
                        if rt.rc == -9:      # killed while writing the log
                            continue
                        raise
                    got[int(d['name'].split(':t')[-1])] = d['result']
    return got, rt


def e2e_check(root: str, cases: T.List[T.Tuple[T.List[str], int]], ev: Evidence) -> T.List[Failure]:
    fails: T.List[Failure] = []
    # how stderr is shown (--no-stdsplit merges it into the displayed output) must not change what is parsed: the same
    # project is run a second time with it, and the verdicts of that run are judged by the same rule
    for mode, extra in (('', []), ('/no-stdsplit', ['--no-stdsplit'] + (['--verbose'] if len(cases) % 2 else []))):
        fs = _e2e_check_mode(root + mode.replace('/', '-'), cases, ev if not mode else Evidence(), extra, mode)
        fails.extend(fs)
        if fs:
            break
    return fails


def _e2e_check_mode(root: str, cases: T.List[T.Tuple[T.List[str], int]], ev: Evidence, extra: T.List[str], mode: str) -> T.List[Failure]:
    fails: T.List[Failure] = []
    got, rt = e2e_run(root, cases, extra)
    if rt.unhandled or len(got) != len(cases):
        # name the streams `meson test` never reported: one of them is what made it crash / hang
        lost = [{'lines': l, 'rc': rc} for i, (l, rc) in enumerate(cases) if i not in got]
        fails.append(Failure('e2e/meson-test-crashed', {'e2e': True, 'cases': (lost or [{'lines': l, 'rc': rc} for l, rc in cases])[:50]},
                             f'`meson test` did not report all {len(cases)} TAP tests (got {len(got)}): {rt!r:.1500}; '
                             f'first unreported stream: {_show(lost[0]["lines"]) if lost else None}'))
        return fails
    any_bad = False
    for i, (lines, rc) in enumerate(cases):
        res = got[i]
        bad = res in BAD_RES
        any_bad = any_bad or bad
        want, why = e2e_expect(lines, rc)
        if want is None:
            ev.exclude(why)
            ev.case(None, cls='e2e/not-decidable')
            continue
        ev.case({'lines': lines, 'rc': rc, 'meson_test_result': res}, nontrivial=reftap.interpret(lines).nontrivial(),
                cls='e2e/bad' if want else 'e2e/good')
        if bad != want:
            R = reftap.interpret(lines)
            sig = ('e2e/reported-good' if want else 'e2e/reported-bad-without-cause') + mode
            fails.append(Failure(sig, {'e2e': True, 'lines': lines, 'rc': rc, 'index': i},
                                 f'`meson test` reported {res} for a protocol:tap test printing {_show(lines)} and exiting {rc}; '
                                 f'reference: subtests {_shown(R.tests)}, classes {R.named}, bail-out {R.bailout is not None} '
                                 f'=> must be {"bad" if want else "not bad"}'))
    if (rt.rc != 0) != any_bad:
        fails.append(Failure('e2e/exit-status', {'e2e': True, 'cases': [{'lines': l, 'rc': rc} for l, rc in cases][:50]},
                             f'`meson test` exit status {rt.rc} but bad results present = {any_bad}'))
    return fails


def e2e_sample(seed: int, n: int) -> T.List[T.Tuple[T.List[str], int]]:
    import hypothesis
    from hypothesis import given
    got: T.List[T.Tuple[T.List[str], int]] = []
    k = [0]

    def collect(case: dict) -> None:
        lines = with_eol(case['lines'], 0 if case['eol'] == 0 else 2)   # a file: every line but possibly the last is terminated
        try:
            ''.join(lines).encode('utf-8')
        except UnicodeEncodeError:
            return
        got.append((lines, (0, 0, 1, 77)[k[0] % 4]))
        k[0] += 1

    hypothesis.seed(seed)(hyp_settings(n)(given(stream_strategy())(collect)))()
    return got


# ---------------------------------------------------------------------------------------------------------

def probes(ctx: Ctx) -> None:
    """deterministic regression probes for the two defects that were fixed (their classes are also part of the campaigns)"""
    for probe in (['ok 1', 'ok 1', 'ok 3'], ['1..3', 'ok 1', 'ok 1', 'ok 3'], ['ok 2', 'ok 2'], ['ok 1', 'ok 3', 'ok 3', '1..3']):
        f, _, _ = check_stream(with_eol(probe, 0), (0,))
        ctx.ev.case({'lines': probe}, cls='probe/dup-and-gap')
        ctx.ev.evaluations += 1
        if f is not None:
            ctx.fail(f)
            break
    raising = []
    for tmpl in ('ok {}\n', '1..{}\n', 'TAP version {}\n'):
        line = tmpl.format('1' * 5000)
        ctx.ev.case({'lines': [tmpl.format('<5000 digits>')]}, cls='probe/int-limit')
        try:
            impl_events([line])
        except Exception as e:
            if not (isinstance(e, ValueError) and 'integer string conversion' in str(e)):
                ctx.fail(raise_failure([line], e))
                continue
            raising.append((tmpl.strip().format('<5000 digits>'), repr(e)[:120]))
    if raising:
        ctx.fail(Failure(SIG_INTLIMIT, {'lines': ['ok <DIGITS>\n'], 'expand_digits': 5000},
                         f'TAPParser.parse raises on a number longer than sys.get_int_max_str_digits(): {raising}; '
                         'the property says no input makes the parser raise (under `meson test` this is "ERROR: Unhandled python exception")'))


def run(ctx: Ctx) -> None:
    probes(ctx)
    # (a)+(d)
    shards: T.List[T.Tuple[T.List[str], int, int, int, int]] = [(ALPHABET, -1, 0, 0, 3)]
    shards += [(ALPHABET, i, 1, 3, 3) for i in range(len(ALPHABET))]
    shards += [(ALPHABET4, i, 4, 4, 3) for i in range(len(ALPHABET4))]
    if not ctx.quick:
        # length 5 over the 20 state-relevant forms; sequences of length <= 4 over them are already covered above
        shards += [(ALPHABET5, i, 5, 5, 0) for i in range(len(ALPHABET5))]
    pmap(ctx, _enum_shard, shards)
    ctx.exhaustive = True
    ctx.ev.extra['exhaustive_scope'] = (f'all line sequences of length <= 3 over the {len(ALPHABET)}-form alphabet, of length 4 over '
                                        f'{len(ALPHABET4)} of its forms'
                                        + ('' if ctx.quick else f' and of length 5 over a {len(ALPHABET5)}-form sub-alphabet')
                                        + ' are enumerated completely (parser + verdict); longer streams and arbitrary text are sampled')
    # (b)
    pmap(ctx, _bulk_shard, [(s + 100, ctx.n(10000, 60000)) for s in shard_seeds(ctx, 16)])
    pmap(ctx, _stream_shard, [(s, ctx.n(500, 4000)) for s in shard_seeds(ctx, 16)])
    # (c)
    pmap(ctx, _text_shard, [(s + 500, ctx.n(600, 4000)) for s in shard_seeds(ctx, 16)])
    # (e)
    nb, per = (1, 64) if ctx.quick else (4, 250)
    for b in range(nb):
        cases = e2e_sample(ctx.seed * 7919 + b, ctx.n(per, per))
        if b == 0:
            cases += [(with_eol(list(x), 0), rc) for x, rc in (
                (('1..2', 'ok 1', 'ok 2'), 0), (('1..2', 'ok 1', 'not ok 2'), 0), (('ok 1 # TODO',), 0), (('not ok 1 # TODO',), 0),
                (('1..0 # SKIP nothing',), 0), (('1..1', 'ok 1'), 77), (('ok 1', 'Bail out!'), 0), (('ok 1', '1..1', 'ok 2'), 0),
                (('TAP version 13', 'ok 1', '  ---', '  x: y'), 0), (('1..1', '1..1', 'ok'), 0),
                (('ok 1', 'ok 1', 'ok 3'), 0), (('ok ' + BIG,), 0), (('1..' + BIG, 'ok 1'), 0), (('TAP version ' + BIG, '1..1', 'ok 1'), 0))]
        ctx.fail_all(e2e_check(os.path.join(ctx.scratch, f'e2e{b}'), cases, ctx.ev))


def replay(ctx: Ctx, case: T.Any, doc: dict) -> T.Optional[Failure]:
    if case.get('e2e'):
        cases = [(c['lines'], c['rc']) for c in case['cases']] if 'cases' in case else [(case['lines'], case['rc'])]
        if 'cases' not in case and case.get('index', 0) % 2:
            cases.insert(0, (['ok 1\n', '1..1\n'], 0))    # odd positions are the tests that also write to stderr
        fs = e2e_check(os.path.join(ctx.scratch, 'replay-e2e'), cases, Evidence())
        return fs[0] if fs else None
    lines = list(case['lines'])
    if case.get('expand_digits'):
        lines = [x.replace('<DIGITS>', '1' * int(case['expand_digits'])) for x in lines]
    rcs = (case['rc'],) if 'rc' in case else (0, 1, 77)
    f, _, _ = check_stream(lines, rcs)
    return f
