"""C11 - Installation is confined to DESTDIR, exact, and reversible.

Generated install-rule projects are configured by the real `meson setup`, then short histories of
`meson install` / `meson --internal uninstall` (what `ninja uninstall` runs) are executed in private sandboxes
and judged against the documentation-derived model in harness/refinstall.py.
"""
from __future__ import annotations

import grp
import json
import os
import pwd
import re
import shutil
import stat
import subprocess
import sys
import typing as T

from harness import refinstall as ri
from harness.core import Ctx, Evidence, Failure, HarnessError, REPO, VERIF, fp, hyp_settings, make_scratch, minimize_list, pmap, shard_seeds
from harness.mesondrv import FAKENINJA, MESON_PY, PY, base_env, run_inproc, run_sub

LEVEL = 'exploration'
RULE = ('Hypothesis models of install-rule projects (1-9 rules out of install_data[rename/preserve_path/follow_symlinks/sources in subdirs], '
        'install_headers[subdir/preserve_path/install_dir], install_man[locale], install_subdir[nested tree, symlinks, exclude_files/'
        'exclude_directories, strip_directory], install_emptydir, install_symlink, custom_target(install)[per-output install_dir/'
        'install_tag/false], configure_file[install/install_dir]; rules in the top project, a subdir() and a subproject; odd names; '
        'install_mode incl. setuid/setgid/sticky, numeric and named owner/group; install_umask 022/077/002/027/000/preserve; relative '
        'and absolute install dirs; 4 prefixes; DESTDIR absolute/relative-to-builddir/with spaces/unicode/trailing slash/not yet '
        'existing/with foreign content/from the environment/overridden) are written to disk and configured by the real meson; then a '
        'history of 1-6 steps out of {install [--tags] [--skip-subprojects] [--dry-run] [--only-changed] [--quiet] [-C], modify a '
        'source, tamper with an installed file, uninstall} runs, each step in its own process, with the whole sandbox (source, '
        'build, HOME, TMPDIR, the real prefix, the absolute install dirs, DESTDIR) snapshotted before and after. A small slice builds '
        'real executables/shared/static libraries with gcc by executing build.ninja through harness/refninja; a sample runs under '
        'strace -f. non-trivial = the project has an absolute install_dir, or a non-default mode/umask, or a tag/subproject filter that '
        'really removes something, or a subdir exclude, and the history has >= 2 steps; distinct by hash of (model, history). '
        'Corpus half (harness/c11corpus.py): projects of the repository\'s `test cases/` that configure here and run no program of their own while '
        'installing (14 install-heavy ones plus 10 seed-chosen in the quick tier; all of them under two option sets in the thorough tier), built files '
        'replaced by stand-ins: --dry-run changes nothing, install changes nothing outside DESTDIR, install-log.txt names exactly existing paths and '
        'every created file/symlink, --only-changed after an unchanged install rewrites nothing, uninstall leaves no installed file, symlink or logged '
        'directory; class corpus, non-trivial = >= 2 installed files. Subproject-filter matrix: a project whose subproject installs data, a header and - through project(license_files:) with the licensedir option - licence files, installed plainly and with --skip-subprojects [name]: every file of the subproject carries bytes found nowhere else; a plain install must create each, a skipping install none.')
ASSUMPTIONS = [
    'the check runs as root (chown works, no permission-denied paths)',
    'default directory permissions = 0777 masked by install_umask, default file permissions = 0666 (0777 when the source has an x bit) masked by install_umask (Release-notes-for-0.47.0.md); under install_umask=preserve only file modes are specified',
    'prefixes and absolute install dirs are placed inside the sandbox root so that a containment failure is harmless; prefix "/" is therefore represented by the sandbox-level directory',
    '`ninja uninstall` is `meson --internal uninstall` run in the build directory (ninjabackend.generate_uninstall)',
    'an uninstall directly after a --dry-run (which rewrites install-log.txt) is not specified and not generated',
]

T0 = 1_600_000_000  # base mtime of materialised sources (s); never the wall clock

ODD = ['a', 'data', 'a b', 'ünï', '.hid', 'x+y', 'q@q', "it's", ' lead', '-dash', '#h', 'semi;c', 'st*r', '[b]', '{c}', '~t',
       'p$q', '%p', 'UP', 'v1.2', 'a,b', 'e=f', 'lo' + 'ng' * 60]
CT_NAMES = ['o1.txt', 'o 2.bin', 'libz.a', 'y.pc', 'plug.so', '.dot', 'ünï.dat', 'x+y', "q'q", 'p$q.txt', 'w.dll', 'noext']
REL_DIRS = ['share/c11', 'share/my data', 'etc', 'bin', 'sbin', 'lib', 'include', 'include/sub h', 'share/locale/fr/LC_MESSAGES',
            'libexec/installed-tests/c11', 'share/systemtap/tapset', 'ünï/dir', '.hidden/d', 'deep/a/b/c/d', 'var/lib/x']
ABS_DIRS = ['@ABS@/etc/c11', '@ABS@/var/lib/c11 data', '@ABS@/opt/ü', '@ABS@/srv']
PREFIXES = ['usr', 'usr/local', 'opt/a b', '']
UMASKS = ['022', '022', '077', '002', '027', '000', 'preserve']
TAGS = ['t1', 'custom tag', 'devel', 'runtime', 'man', 'doc']
FILE_PERMS = ['rw-r--r--', 'rwxr-xr-x', 'rw-------', 'rwsr-xr-x', 'rwxr-sr-x', 'rwSr--r--', 'r--r--r--', 'rwxrwxrwx', '---------', 'rw-rw-r--']
DIR_PERMS = ['rwxr-xr-x', 'rwx------', 'rwxrwxrwt', 'rwxr-s---', 'r-xr-xr-x', 'rwxrwxrwx', 'rwxrwx--T']
OWNERS = [0, 1, 1234, 65534, 'root', 'daemon', 'nobody', 'no_such_user_zz']
GROUPS = [0, 2, 4321, 65534, 'root', 'daemon', 'nogroup', 'no_such_group_zz']
SRC_MODES = [0o644, 0o644, 0o755, 0o600, 0o664, 0o444, 0o555, 0o640]
SRC_MODES_PRESERVE = SRC_MODES + [0o744, 0o4755, 0o700, 0o2755, 0o604]


# ---------------------------------------------------------------------------
# generator

def case_strategy(compiled: bool = False) -> T.Any:
    from hypothesis import strategies as st

    @st.composite
    def cases(draw: T.Any) -> dict:
        umask = draw(st.sampled_from(UMASKS))
        modes = SRC_MODES_PRESERVE if umask == 'preserve' else SRC_MODES
        case: dict = {
            'v': 1,
            'prefix': draw(st.sampled_from(PREFIXES)),
            'umask': umask,
            'umask_via': draw(st.sampled_from(['cmdline', 'project'])),
            'proc_umask': draw(st.sampled_from([0o022, 0o022, 0o077, 0o002])),
            'dirs': draw(st.sampled_from([{}, {}, {'datadir': 'my share'}, {'includedir': 'inc', 'mandir': 'man'}])),
            'compiled': compiled,
            'rules': [],
            'files': {'main': {}, 'sp': {}},
        }

        def name() -> str:
            return draw(st.sampled_from(ODD))

        def idir(allow_abs: bool = True) -> str:
            if allow_abs and draw(st.integers(0, 3)) == 0:
                return draw(st.sampled_from(ABS_DIRS))
            d = draw(st.sampled_from(REL_DIRS))
            if draw(st.integers(0, 5)) == 0:
                d = d + '/' + name()
            return d

        def mode(kind: str = 'file') -> T.Optional[list]:
            c = draw(st.integers(0, 9))
            if c < 5:
                return None
            perms = draw(st.sampled_from(DIR_PERMS if kind == 'dir' else FILE_PERMS))
            if c == 5:
                return [perms]
            own: T.Any = draw(st.sampled_from(OWNERS + [None]))
            g: T.Any = draw(st.sampled_from(GROUPS + [None]))
            if c == 6:
                return [None, own if own is not None else 1, g]
            return [perms, own, g]

        def tag() -> T.Optional[str]:
            return draw(st.sampled_from([None, None] + TAGS))

        def add_file(sp: bool, path: str, link: T.Optional[str] = None) -> None:
            files = case['files']['sp' if sp else 'main']
            if path not in files:
                files[path] = {'mode': draw(st.sampled_from(modes))} if link is None else {'link': link}

        def src_names(i: int, n: int, suffix: str = '') -> T.List[str]:
            res = []
            for _ in range(n):
                nm = name() + suffix
                where = draw(st.integers(0, 3))
                p = nm if where == 0 else (f'r{i}/{nm}' if where < 3 else f'r{i}/sub dir/{nm}')
                if p not in res:
                    res.append(p)
            return res

        nrules = draw(st.integers(1, 4 if compiled else 9))
        kinds = ['data', 'data', 'headers', 'man', 'subdir', 'subdir', 'emptydir', 'symlink', 'ct', 'ct', 'conf']
        for i in range(nrules):
            k = draw(st.sampled_from(kinds))
            sp = draw(st.integers(0, 4)) == 0
            r: dict = {'k': k, 'sp': sp, 'dir': draw(st.sampled_from(['', '', 'd1'])), 'tag': tag()}
            pre = (r['dir'] + '/') if r['dir'] else ''
            if k == 'data':
                srcs = src_names(i, draw(st.integers(1, 3)))
                r.update(sources=srcs, install_dir=draw(st.sampled_from([None, idir(), idir()])), mode=mode(),
                         preserve_path=draw(st.integers(0, 3)) == 0, follow=draw(st.sampled_from([None, None, True, False])),
                         sources_kw=draw(st.booleans()))
                if not r['preserve_path'] and draw(st.integers(0, 2)) == 0:
                    r['rename'] = [draw(st.sampled_from(['', 'ren dir/', 'x/y/'])) + name() + f'.{j}' for j in range(len(srcs))]
                for s in srcs:
                    add_file(sp, pre + s)
                if draw(st.integers(0, 3)) == 0:
                    # a symlink source pointing to a sibling file that is installed by the same rule
                    tgt = srcs[0]
                    lnk = os.path.join(os.path.dirname(tgt), 'lnk-' + os.path.basename(tgt))
                    if lnk not in srcs and not r.get('rename'):
                        r['sources'] = srcs + [lnk]
                        add_file(sp, pre + lnk, link=os.path.basename(tgt))
            elif k == 'headers':
                srcs = src_names(i, draw(st.integers(1, 3)), '.h')
                how = draw(st.integers(0, 3))
                r.update(sources=srcs, mode=mode(), preserve_path=draw(st.integers(0, 2)) == 0,
                         follow=draw(st.sampled_from([None, None, True])))
                if how == 1:
                    r['subdir'] = draw(st.sampled_from(['proj', 'my proj/v1', name()]))
                elif how == 2:
                    r['install_dir'] = idir()
                for s in srcs:
                    add_file(sp, pre + s)
            elif k == 'man':
                loc = draw(st.sampled_from([None, None, 'fr', 'pt_BR']))
                n = draw(st.integers(1, 2))
                srcs = []
                for p in src_names(i, n):
                    sec = draw(st.integers(1, 9))
                    srcs.append(p + (f'.{loc}' if loc else '') + f'.{sec}')
                r.update(sources=srcs, locale=loc, mode=mode())
                if not loc and draw(st.integers(0, 3)) == 0:
                    r['install_dir'] = idir()
                for s in srcs:
                    add_file(sp, pre + s)
            elif k == 'subdir':
                top = draw(st.sampled_from([f'tree{i}', f'r{i}/my tree', f't{i} ü']))
                tree: T.Dict[str, dict] = {}
                dirs_ = ['']
                for _ in range(draw(st.integers(0, 3))):
                    parent = draw(st.sampled_from(dirs_))
                    d = (parent + '/' if parent else '') + name()
                    if d not in tree:
                        tree[d] = {'t': 'dir'}
                        dirs_.append(d)
                fl = []
                for _ in range(draw(st.integers(0, 5))):
                    parent = draw(st.sampled_from(dirs_))
                    p = (parent + '/' if parent else '') + name() + draw(st.sampled_from(['', '.txt', '.so']))
                    if p not in tree:
                        tree[p] = {'t': 'file', 'mode': draw(st.sampled_from(modes))}
                        fl.append(p)
                follow = draw(st.sampled_from([None, None, True, False]))
                for _ in range(draw(st.integers(0, 2))):
                    parent = draw(st.sampled_from(dirs_))
                    p = (parent + '/' if parent else '') + 'ln-' + name()
                    if p in tree:
                        continue
                    lk = draw(st.sampled_from(['file', 'file', 'dangling', 'dir', 'outside']))
                    up = '../' * (p.count('/'))
                    if lk == 'file' and fl:
                        tree[p] = {'t': 'link', 'to': up + draw(st.sampled_from(fl)), 'lk': 'file'}
                    elif lk == 'dangling':
                        tree[p] = {'t': 'link', 'to': 'no such target', 'lk': 'dangling'}
                    elif lk == 'dir' and len(dirs_) > 1:
                        tree[p] = {'t': 'link', 'to': up + draw(st.sampled_from(dirs_[1:])), 'lk': 'dir'}
                    elif lk == 'outside':
                        tree[p] = {'t': 'link', 'to': up + '../outside-' + str(i), 'lk': 'outside'}
                exf = [p for p in fl if draw(st.integers(0, 3)) == 0]
                exd = [d for d in dirs_[1:] if draw(st.integers(0, 3)) == 0]
                if draw(st.integers(0, 4)) == 0:
                    exf.append('no/such file')
                    exd.append('nosuchdir')
                r.update(name=top, tree=tree, install_dir=idir(), strip_directory=draw(st.booleans()), exclude_files=exf,
                         exclude_directories=exd, mode=mode(), follow=follow)
            elif k == 'emptydir':
                r.update(path=idir() + '/' + name(), mode=mode('dir'))
            elif k == 'symlink':
                to = draw(st.sampled_from(['../x', 'target file', '@ABS@/etc/real', 'a/b/../c', '.', name()]))
                r.update(name=name(), pointing_to=to, install_dir=idir())
            elif k == 'ct':
                n = draw(st.integers(1, 3))
                outs: T.List[str] = []
                for _ in range(n):
                    o = f'{i}' + draw(st.sampled_from(CT_NAMES))
                    if o not in outs:
                        outs.append(o)
                shape = draw(st.integers(0, 2))
                if shape == 0 or len(outs) == 1:
                    d: T.Any = idir()
                else:
                    d = [idir() if draw(st.integers(0, 3)) else False for _ in outs]
                    if all(x is False for x in d):
                        d[0] = idir()
                tg: T.Any = r['tag']
                if draw(st.integers(0, 2)) == 0:
                    tg = [draw(st.sampled_from(TAGS + [False])) for _ in outs]
                r.update(outputs=outs, install_dir=d, tag=tg, mode=mode(), out_modes=[draw(st.sampled_from(modes)) for _ in outs])
            elif k == 'conf':
                r.update(output=f'conf{i} ' + name() + '.h', install_dir=draw(st.sampled_from([idir(), idir(), ''])),
                         install=draw(st.sampled_from([None, None, True, False])), mode=mode(), out_mode=draw(st.sampled_from(modes)),
                         copy=draw(st.booleans()))
                if r['install'] is True and not r['install_dir']:
                    r['install_dir'] = idir()
            case['rules'].append(r)

        if compiled:
            libdir = draw(st.sampled_from([None, None, 'lib/plugins', '@ABS@/opt/ü/lib']))
            case['rules'] += [
                {'k': 'target', 'kind': 'shared', 'name': 'foo', 'version': draw(st.sampled_from([None, '1.2.3', '4'])),
                 'soversion': draw(st.sampled_from([None, '1', '7'])), 'install_dir': libdir, 'mode': mode(), 'tag': tag(), 'sp': False, 'dir': ''},
                {'k': 'target', 'kind': 'static', 'name': 'bar baz', 'install_dir': None, 'mode': mode(), 'tag': tag(), 'sp': False, 'dir': 'd1'},
                {'k': 'target', 'kind': 'exe', 'name': 'prog', 'install_dir': draw(st.sampled_from([None, 'libexec/c11'])), 'mode': mode(),
                 'tag': tag(), 'sp': False, 'dir': '', 'rpath': draw(st.sampled_from([None, '$ORIGIN/../lib', '/opt/somewhere/lib']))},
            ]

        # DESTDIR
        dname = draw(st.sampled_from(['dest', 'dest dir', 'dést', 'a/b/dest', 'dest.d']))
        rel = draw(st.integers(0, 3)) == 0
        dd = {'path': dname, 'rel': False, 'slash': draw(st.integers(0, 3)) == 0,
              'how': draw(st.sampled_from(['arg', 'arg', 'arg', 'env', 'both'])),
              'exists': draw(st.booleans()), 'foreign': draw(st.integers(0, 2)) == 0}
        if rel:
            dd['rel'] = True
            dd['path'] = draw(st.sampled_from(['../' + dname, 'stage', 'stage dir/x', '../bld/../' + dname]))
        case['destdir'] = dd

        # history
        ops: T.List[dict] = []
        all_tags = sorted({t for t in TAGS} | {'nosuchtag', 'i18n', 'tests'})

        def inst() -> dict:
            o: dict = {'op': 'install'}
            c = draw(st.integers(0, 9))
            if c < 3:
                o['tags'] = draw(st.lists(st.sampled_from(all_tags), min_size=1, max_size=3, unique=True))
            c = draw(st.integers(0, 9))
            if c < 3:
                o['skip'] = draw(st.sampled_from(['*', 'sp', 'other', 'other,sp']))
            for key, odds in (('dry', 6), ('only_changed', 5), ('quiet', 6), ('use_C', 5), ('rebuild', 8)):
                if draw(st.integers(0, odds)) == 0:
                    o[key] = True
            return o

        for _ in range(draw(st.integers(1, 6))):
            c = draw(st.integers(0, 9))
            if c < 5 or not ops:
                ops.append(inst())
            elif c < 7:
                ops.append({'op': 'uninstall'})
            elif c == 7:
                ops.append({'op': 'modify', 'pick': draw(st.integers(0, 50))})
                ops.append(dict(inst(), only_changed=True))
            elif c == 8:
                ops.append({'op': 'tamper', 'pick': draw(st.integers(0, 50))})
                ops.append(dict(inst(), only_changed=True))
            else:
                ops.append(inst())
        case['ops'] = ops
        return normalise(case)

    return cases()


# ---------------------------------------------------------------------------
# normalisation: soundness constraints and excluded regions (deterministic, applied to generated and replayed cases alike)

def _nondir_paths(entries: T.List[dict]) -> T.Tuple[T.Set[str], T.Set[str]]:
    files, dirs = set(), set()
    for e in entries:
        p = e['path']
        (dirs if e['typ'] == 'dir' else files).add(p)
        q = os.path.dirname(p)
        while q and q != '/':
            dirs.add(q)
            q = os.path.dirname(q)
    return files, dirs


def normalise(case: dict) -> dict:
    excl: T.List[str] = []
    lay = ri.Layout('/R', dict(case, destdir=case.get('destdir') or {'path': 'dest', 'rel': False}))
    for r in case['rules']:
        if r['k'] == 'subdir':
            for p in sorted(r['tree']):
                n = r['tree'][p]
                if n['t'] != 'link':
                    continue
                if n['lk'] == 'dir' and r.get('follow') is not False:
                    del r['tree'][p]
                    excl.append('install_subdir: symlink to a directory with follow_symlinks true/default (known finding, probed separately)')
                elif n['lk'] == 'dangling' and r.get('follow') is not False:
                    del r['tree'][p]
                    excl.append('install_subdir: dangling symlink with follow_symlinks true/default (undefined)')
        # (install_mode with uid/gid 1 was rejected at configure time: fixed in /repo, generated again)
        if r['k'] == 'headers' and r.get('install_dir') and r.get('preserve_path'):
            r['preserve_path'] = False
            excl.append('install_headers: preserve_path together with install_dir (known finding, probed separately)')
        if r['k'] in ('subdir', 'emptydir', 'symlink') and not r.get('tag'):
            d = lay.install_abs(r['path'] if r['k'] == 'emptydir' else r['install_dir'])
            probe = [d, os.path.join(d, 'x')] + ([os.path.join(d, r['name'])] if r['k'] == 'symlink' else [])
            if any(ri.guess_tag(lay, q + sfx) for q in probe for sfx in ('', '.so', '.a')):
                r['tag'] = 't1'
                excl.append('untagged directory/symlink rule in an auto-tagged location (docs speak of files only): given an explicit tag')
    # destination conflicts: first rule wins, later conflicting rules are dropped
    files: T.Set[str] = set()
    dirs: T.Set[str] = set()
    kept = []
    for i, r in enumerate(case['rules']):
        ents = ri.rule_entries(lay, case, i)
        f, d = _nondir_paths(ents)
        dup_in_rule = len([e for e in ents if e['typ'] != 'dir']) != len(f)
        if dup_in_rule or (f & files) or (f & dirs) or (d & files) or (f & d):
            excl.append('rule dropped: its destinations collide with an earlier rule')
            case['rules'][i] = {'k': 'dropped', 'sp': False, 'dir': ''}
            continue
        files |= f
        dirs |= d
        kept.append(i)
    case['rules'] = [r for r in case['rules'] if r['k'] != 'dropped']
    # history
    ops = []
    real_since_dry = True
    for o in case['ops']:
        if o['op'] == 'install':
            real_since_dry = not o.get('dry')
        elif o['op'] == 'uninstall' and not real_since_dry:
            excl.append('uninstall directly after --dry-run (log rewritten by the dry run; undefined)')
            continue
        ops.append(o)
    case['ops'] = ops
    case['excl'] = sorted(set(excl))
    return case


# ---------------------------------------------------------------------------
# materialisation

def mstr(s: str) -> str:
    return "'" + s.replace('\\', '\\\\').replace("'", "\\'") + "'"


def mlist(xs: T.Sequence[T.Any]) -> str:
    return '[' + ', '.join(mval(x) for x in xs) + ']'


def mval(x: T.Any) -> str:
    if x is None or x is False:
        return 'false'
    if x is True:
        return 'true'
    if isinstance(x, int):
        return str(x)
    if isinstance(x, (list, tuple)):
        return mlist(x)
    return mstr(x)


def rule_code(lay: ri.Layout, r: dict, i: int) -> str:
    kw: T.List[str] = []

    def add(k: str, v: T.Any) -> None:
        kw.append(f'{k}: {mval(v)}')

    k = r['k']
    if r.get('mode'):
        add('install_mode', r['mode'] if len(r['mode']) > 1 else r['mode'][0])
    if k == 'data':
        pos = r['sources']
        if r.get('sources_kw') and len(pos) > 1:
            add('sources', pos[1:])
            pos = pos[:1]
        if r.get('install_dir'):
            add('install_dir', lay.expand(r['install_dir']))
        if r.get('rename'):
            add('rename', r['rename'])
        if r.get('preserve_path'):
            add('preserve_path', True)
        if r.get('follow') is not None:
            add('follow_symlinks', r['follow'])
        if r.get('tag'):
            add('install_tag', r['tag'])
        return f"install_data({', '.join([mval(p) for p in pos] + kw)})"
    if k == 'headers':
        for key, name in (('subdir', 'subdir'), ('install_dir', 'install_dir')):
            if r.get(key):
                add(name, lay.expand(r[key]))
        if r.get('preserve_path'):
            add('preserve_path', True)
        if r.get('follow') is not None:
            add('follow_symlinks', r['follow'])
        if r.get('tag'):
            add('install_tag', r['tag'])
        return f"install_headers({', '.join([mval(p) for p in r['sources']] + kw)})"
    if k == 'man':
        if r.get('locale'):
            add('locale', r['locale'])
        if r.get('install_dir'):
            add('install_dir', lay.expand(r['install_dir']))
        if r.get('tag'):
            add('install_tag', r['tag'])
        return f"install_man({', '.join([mval(p) for p in r['sources']] + kw)})"
    if k == 'subdir':
        add('install_dir', lay.expand(r['install_dir']))
        if r.get('strip_directory'):
            add('strip_directory', True)
        if r.get('exclude_files'):
            add('exclude_files', r['exclude_files'])
        if r.get('exclude_directories'):
            add('exclude_directories', r['exclude_directories'])
        if r.get('follow') is not None:
            add('follow_symlinks', r['follow'])
        if r.get('tag'):
            add('install_tag', r['tag'])
        return f"install_subdir({', '.join([mval(r['name'])] + kw)})"
    if k == 'emptydir':
        if r.get('tag'):
            add('install_tag', r['tag'])
        return f"install_emptydir({', '.join([mval(lay.expand(r['path']))] + kw)})"
    if k == 'symlink':
        add('pointing_to', lay.expand(r['pointing_to']))
        add('install_dir', lay.expand(r['install_dir']))
        if r.get('tag'):
            add('install_tag', r['tag'])
        return f"install_symlink({', '.join([mval(r['name'])] + kw)})"
    if k == 'ct':
        add('output', r['outputs'])
        add('command', ['true'])
        add('install', True)
        d = r['install_dir']
        add('install_dir', [lay.expand(x) if isinstance(x, str) else x for x in d] if isinstance(d, list) else lay.expand(d))
        if r.get('tag'):
            add('install_tag', r['tag'])
        return f"custom_target({', '.join([mval(f'ct{i}')] + kw)})"
    if k == 'conf':
        add('output', r['output'])
        if r.get('copy'):
            add('input', f'conf-in-{i}.txt')
            add('copy', True)
        else:
            kw.append("configuration: {'A': 1, 'B': 'x y'}")
        if r.get('install') is not None:
            add('install', r['install'])
        if r.get('install_dir'):
            add('install_dir', lay.expand(r['install_dir']))
        if r.get('tag'):
            add('install_tag', r['tag'])
        return f"configure_file({', '.join(kw)})"
    if k == 'target':
        fn = {'exe': 'executable', 'shared': 'shared_library', 'static': 'static_library'}[r['kind']]
        src = {'exe': 'main.c', 'shared': 'foo.c', 'static': 'bar.c'}[r['kind']]
        add('install', True)
        if r.get('install_dir'):
            add('install_dir', lay.expand(r['install_dir']))
        if r.get('tag'):
            add('install_tag', r['tag'])
        for key in ('version', 'soversion'):
            if r.get(key):
                add(key, r[key])
        if r['kind'] == 'exe':
            kw.append('link_with: libfoo')
            if r.get('rpath'):
                add('install_rpath', r['rpath'])
                add('build_rpath', '/nonexistent/build/rpath')
        pre = 'libfoo = ' if r['kind'] == 'shared' else ''
        return f"{pre}{fn}({', '.join([mval(r['name']), mval(src)] + kw)})"
    raise HarnessError(f'unknown rule kind {k}')


def _write(path: str, content: T.Union[str, bytes], mode: int = 0o644, mtime: int = T0) -> None:
    os.makedirs(os.path.dirname(path), exist_ok=True)
    with open(path, 'wb') as f:
        f.write(content.encode('utf-8') if isinstance(content, str) else content)
    os.chmod(path, mode)
    os.utime(path, (mtime, mtime))


def materialise(case: dict, lay: ri.Layout) -> None:
    """Write the source tree.  All mtimes are fixed (T0) so that nothing depends on the wall clock."""
    for d in (lay.src, lay.home, lay.tmp):
        os.makedirs(d)
    code: T.Dict[T.Tuple[bool, str], T.List[str]] = {}
    for i, r in enumerate(case['rules']):
        code.setdefault((bool(r.get('sp')), r.get('dir') or ''), []).append(rule_code(lay, r, i))
    has_sp = any(r.get('sp') for r in case['rules'])
    opts = [f"'install_umask={case['umask']}'"] if case['umask_via'] == 'project' else []
    lang = ", 'c'" if case.get('compiled') else ''
    # targets declared in d1 after the top-level ones: emit top-level rules first, then subdir, then subproject
    main = [f"project({mstr(ri.MAIN_NAME)}{lang}, default_options: [{', '.join(opts)}])"] + code.get((False, ''), [])
    if (False, 'd1') in code:
        main.append("subdir('d1')")
        _write(os.path.join(lay.src, 'd1', 'meson.build'), '\n'.join(code[(False, 'd1')]) + '\n')
    if has_sp:
        main.append(f"subproject({mstr(ri.SP_NAME)})")
        spd = lay.projdir(True)
        sp = [f"project({mstr(ri.SP_NAME)})"] + code.get((True, ''), [])
        if (True, 'd1') in code:
            sp.append("subdir('d1')")
            _write(os.path.join(spd, 'd1', 'meson.build'), '\n'.join(code[(True, 'd1')]) + '\n')
        _write(os.path.join(spd, 'meson.build'), '\n'.join(sp) + '\n')
    _write(os.path.join(lay.src, 'meson.build'), '\n'.join(main) + '\n')
    for key, sp_ in (('main', False), ('sp', True)):
        for p in sorted(case['files'][key]):
            spec = case['files'][key][p]
            full = os.path.join(lay.projdir(sp_), p)
            if 'link' in spec:
                os.makedirs(os.path.dirname(full), exist_ok=True)
                if not os.path.lexists(full):
                    os.symlink(spec['link'], full)
            else:
                _write(full, f'file {p}\n' * (1 + len(p) % 3), spec['mode'])
    for i, r in enumerate(case['rules']):
        cur = os.path.join(lay.projdir(bool(r.get('sp'))), r.get('dir') or '')
        if r['k'] == 'subdir':
            top = os.path.join(cur, r['name'])
            os.makedirs(top, exist_ok=True)
            for p in sorted(r['tree']):
                n = r['tree'][p]
                full = os.path.join(top, p)
                if n['t'] == 'dir':
                    os.makedirs(full, exist_ok=True)
                elif n['t'] == 'file':
                    _write(full, f'tree {i} {p}\n', n['mode'])
                else:
                    os.makedirs(os.path.dirname(full), exist_ok=True)
                    os.symlink(n['to'], full)
                    if n['lk'] == 'outside':
                        _write(os.path.join(os.path.dirname(top), f'outside-{i}'), f'outside {i}\n', 0o644)
        elif r['k'] == 'conf' and r.get('copy'):
            _write(os.path.join(cur, f'conf-in-{i}.txt'), f'conf input {i}\n', 0o644)
        elif r['k'] == 'target':
            body = {'exe': 'int foo(void); int main(void) { return foo() - 42; }\n', 'shared': 'int foo(void) { return 42; }\n',
                    'static': 'int bar(void) { return 7; }\n'}[r['kind']]
            _write(os.path.join(cur, {'exe': 'main.c', 'shared': 'foo.c', 'static': 'bar.c'}[r['kind']]), body)
    if any(r.get('dir') == 'd1' and not r.get('sp') for r in case['rules']):
        os.makedirs(os.path.join(lay.src, 'd1'), exist_ok=True)


def setup_args(case: dict, lay: ri.Layout) -> T.List[str]:
    a = ['setup', '--prefix', lay.prefix, '--libdir', 'lib']
    if case['umask_via'] == 'cmdline':
        a.append(f'-Dinstall_umask={case["umask"]}')
    for k, v in sorted((case.get('dirs') or {}).items()):
        a.append(f'-D{k}={v}')
    return a + [lay.bld, lay.src]


def post_setup(case: dict, lay: ri.Layout) -> T.Optional[str]:
    """Create what a build would have created: custom_target outputs (harness-written), fixed modes/mtimes for
    configure_file outputs; compiled slice: execute build.ninja through the reference ninja executor."""
    for i, r in enumerate(case['rules']):
        bcur = os.path.join(lay.bld, 'subprojects', ri.SP_NAME, r.get('dir') or '') if r.get('sp') else os.path.join(lay.bld, r.get('dir') or '')
        if r['k'] == 'ct':
            for o, m in zip(r['outputs'], r['out_modes']):
                _write(os.path.join(bcur, o), f'built {i} {o}\n', m)
        elif r['k'] == 'conf':
            p = os.path.join(bcur, r['output'])
            if os.path.exists(p):
                os.chmod(p, r['out_mode'])
                os.utime(p, (T0, T0))
    if case.get('compiled'):
        from harness import refninja
        m = refninja.parse_file(os.path.join(lay.bld, 'build.ninja'))
        edges, _ = m.closure(['all'])
        env = base_env()
        for e in m.topo_order(edges):
            res = refninja.run_edge(e, lay.bld, env=env)
            if res.rc != 0:
                return f'build step failed: {res.command}\n{res.output[-800:]}'
    return None


# ---------------------------------------------------------------------------
# running one step in its own process

FUTURE = 4_102_444_800   # 2100-01-01: mtime given to modified sources (newer than any installed copy, whatever the clock says)


class StepResult:
    def __init__(self, rc: int, out: str, trace: T.Optional[str] = None):
        self.rc = rc
        self.out = out
        self.trace = trace

    @property
    def crashed(self) -> bool:
        return 'Traceback (most recent call last)' in self.out or 'Unhandled python' in self.out


def run_step(argv: T.List[str], cwd: str, env: T.Dict[str, str], umask: int, how: str, work: str) -> StepResult:
    """how: 'fork' (fresh forked child of this worker running mesonmain in-process), 'sub' (fresh interpreter),
    'strace' (fresh interpreter under strace -f)."""
    outfile = os.path.join(work, 'step-out.txt')
    if how == 'fork':
        sys.stdout.flush()
        sys.stderr.flush()
        pid = os.fork()
        if pid == 0:
            rc = 70
            try:
                fd = os.open(outfile, os.O_WRONLY | os.O_CREAT | os.O_TRUNC, 0o600)
                os.dup2(fd, 1)
                os.dup2(fd, 2)
                os.dup2(os.open('/dev/null', os.O_RDONLY), 0)
                sys.stdout = os.fdopen(1, 'w', encoding='utf-8', errors='replace', closefd=False)
                sys.stderr = os.fdopen(2, 'w', encoding='utf-8', errors='replace', closefd=False)
                os.environ.clear()
                os.environ.update(env)
                os.umask(umask)
                os.chdir(cwd)
                from mesonbuild import mesonmain
                try:
                    rc = mesonmain.run(list(argv), MESON_PY)
                except SystemExit as e:
                    rc = e.code if isinstance(e.code, int) else (0 if e.code is None else 1)
                    if not isinstance(e.code, int) and e.code is not None:
                        print(e.code)
                if not isinstance(rc, int):
                    rc = 1
            except BaseException:
                import traceback
                traceback.print_exc()
            finally:
                try:
                    sys.stdout.flush()
                    sys.stderr.flush()
                except Exception:
                    pass
                os._exit(rc & 0xff)
        _, status = os.waitpid(pid, 0)
        rc = os.waitstatus_to_exitcode(status)
        with open(outfile, encoding='utf-8', errors='replace') as f:
            return StepResult(rc, f.read())
    cmd = [PY, '-B', MESON_PY] + list(argv)
    trace = None
    if how == 'strace':
        trace = os.path.join(work, 'strace.txt')
        cmd = ['strace', '-f', '-y', '-qq', '-s', '4096', '-o', trace, '-e',
               'trace=%file,fchmod,fchown,ftruncate'] + cmd
    p = subprocess.run(cmd, cwd=cwd, env=env, stdout=subprocess.PIPE, stderr=subprocess.STDOUT, stdin=subprocess.DEVNULL,
                       preexec_fn=lambda: os.umask(umask) and None, timeout=300)
    return StepResult(p.returncode, p.stdout.decode('utf-8', 'replace'), trace)


# -- strace -----------------------------------------------------------------

_WRITE_CALLS = {'mkdir', 'mkdirat', 'rmdir', 'unlink', 'unlinkat', 'rename', 'renameat', 'renameat2', 'symlink', 'symlinkat', 'link',
                'linkat', 'chmod', 'fchmodat', 'fchmodat2', 'chown', 'lchown', 'fchownat', 'utime', 'utimes', 'utimensat', 'futimesat',
                'truncate', 'mknod', 'mknodat', 'setxattr', 'lsetxattr', 'removexattr', 'lremovexattr', 'creat', 'fchmod', 'fchown',
                'ftruncate'}
_STR = r'"((?:[^"\\]|\\.)*)"'


def _unescape(s: str) -> str:
    return s.encode('latin-1', 'backslashreplace').decode('unicode_escape').encode('latin-1', 'replace').decode('utf-8', 'replace')


def strace_writes(path: str, cwd: str) -> T.List[T.Tuple[str, str]]:
    """(syscall, absolute path) of every successful path-mutating system call in the trace."""
    out: T.List[T.Tuple[str, str]] = []
    pending: T.Dict[str, str] = {}
    fdmap: T.Dict[T.Tuple[str, str], str] = {}
    with open(path, encoding='latin-1') as f:
        for line in f:
            m = re.match(r'^(\d+)\s+(.*)$', line.rstrip('\n'))
            if not m:
                continue
            pid, rest = m.group(1), m.group(2)
            if rest.endswith('<unfinished ...>'):
                pending[pid] = rest[:-len('<unfinished ...>')]
                continue
            r = re.match(r'^<\.\.\. (\w+) resumed>(.*)$', rest)
            if r:
                rest = pending.pop(pid, r.group(1) + '(') + r.group(2)
            m = re.match(r'^(\w+)\((.*)\)\s+= (-?\d+|\?)(.*)$', rest)
            if not m:
                continue
            call, args, ret, tail = m.group(1), m.group(2), m.group(3), m.group(4)
            if ret == '?' or int(ret) < 0:
                continue
            strs = [_unescape(s) for s in re.findall(_STR, args)]
            if call == 'chdir' and strs:
                cwd = os.path.normpath(os.path.join(cwd, strs[0]))
                continue
            is_open = call in ('open', 'openat', 'openat2')
            if is_open:
                t = re.match(r'^<((?:[^>\\]|\\.)*)>', tail)
                if t:
                    fdmap[(pid, ret)] = _unescape(t.group(1))
                if not re.search(r'O_WRONLY|O_RDWR|O_CREAT|O_TRUNC|O_APPEND', args):
                    continue
            elif call not in _WRITE_CALLS:
                continue
            base = None
            d = re.match(r'^(?:AT_FDCWD|\d+)<((?:[^>\\]|\\.)*)>', args)
            if d:
                base = _unescape(d.group(1))
            if call in ('fchmod', 'fchown', 'ftruncate'):
                if base:
                    out.append((call, base))
                continue
            if call == 'utimensat' and not strs and base:
                out.append((call, base))
                continue
            paths = strs[:2] if call in ('rename', 'renameat', 'renameat2', 'link', 'linkat') else strs[:1]
            if call in ('symlink', 'symlinkat'):
                paths = strs[1:2]
            for p in paths:
                fdm = re.match(r'^/proc/self/fd/(\d+)$', p)
                if fdm:
                    p = fdmap.get((pid, fdm.group(1)), p)
                if not os.path.isabs(p):
                    p = os.path.join(base or cwd, p)
                out.append((call, os.path.normpath(p)))
    return out


# ---------------------------------------------------------------------------
# model state and judgement

def _resolve_ids(owner: T.Any, group: T.Any) -> T.Optional[T.Tuple[T.Optional[int], T.Optional[int]]]:
    """expected (uid, gid) or None when a name does not exist in this sandbox (meson then prints a note and goes on)."""
    try:
        uid = owner if isinstance(owner, int) or owner is None else pwd.getpwnam(owner).pw_uid
        gid = group if isinstance(group, int) or group is None else grp.getgrnam(group).gr_gid
    except KeyError:
        return None
    return uid, gid


def _kindname(case: dict, e: dict) -> str:
    r = case['rules'][e['rule']]
    return r['k'] if r['k'] != 'target' else 'target-' + r['kind']


class Judge:
    def __init__(self, case: dict, root: str, how: str, work: str, ev: T.Optional[Evidence]):
        self.case = case
        self.lay = ri.Layout(root, case)
        self.how = how
        self.work = work
        self.ev = ev
        self.umask: T.Union[int, str] = 'preserve' if case['umask'] == 'preserve' else int(case['umask'], 8)
        self.state: T.Dict[str, dict] = {}
        self.last_log: T.Optional[T.List[str]] = None
        self.entries: T.List[dict] = []
        self.nmod = 0
        self.filtered_something = False
        lay = self.lay
        # the chain of directories that may come into existence because DESTDIR itself has to be created
        self.chain = []
        p = lay.destdir
        while p != root and p.startswith(root + '/'):
            self.chain.append(p)
            p = os.path.dirname(p)
        self.skip = [os.path.join(lay.bld, 'meson-logs')]

    # -- helpers --------------------------------------------------------
    def fail(self, sig: str, msg: str) -> Failure:
        return Failure(sig, self.case, msg)

    def snap(self) -> T.Dict[str, tuple]:
        return ri.snapshot(self.lay.root, self.skip)

    def split(self, snap: T.Dict[str, tuple]) -> T.Tuple[T.Dict[str, tuple], T.Dict[str, tuple]]:
        """(inside DESTDIR incl. the chain above it, everything else), keyed by absolute path"""
        inside, outside = {}, {}
        root = self.lay.root
        D = self.lay.destdir
        for rel, v in snap.items():
            p = root if rel == '.' else os.path.join(root, rel)
            if p == D or p.startswith(D + '/') or p in self.chain:
                inside[p] = v
            else:
                outside[p] = v
        return inside, outside

    def env(self, extra: T.Optional[dict] = None) -> T.Dict[str, str]:
        e = base_env({'HOME': self.lay.home, 'TMPDIR': self.lay.tmp})
        if extra:
            e.update(extra)
        return e

    def classify_outside(self, p: str) -> str:
        lay = self.lay
        for name, d in (('real-prefix', lay.rp), ('absolute-install-dir', lay.abs), ('source-dir', lay.src), ('build-dir', lay.bld),
                        ('home', lay.home), ('tmpdir', lay.tmp), ('env-destdir-overridden-by-arg', lay.wrong_dest)):
            if p == d or p.startswith(d + '/'):
                return name
        return 'elsewhere'

    # -- preparation ----------------------------------------------------
    def prepare(self) -> T.Optional[Failure]:
        case, lay = self.case, self.lay
        materialise(case, lay)
        args = setup_args(case, lay)
        r = run_inproc(args) if self.how == 'fork' else run_sub(args)
        if r.rc != 0:
            r2 = run_sub(args) if self.how == 'fork' else r
            if r2.rc != 0:
                return self.fail('setup/valid-project-rejected', f'meson setup failed (exit {r2.rc}) on a project that uses only documented install rules:\n{r2.text[-1500:]}')
            shutil.rmtree(lay.bld, ignore_errors=True)
            r = run_sub(args)
        err = post_setup(case, lay)
        if err:
            raise HarnessError(err)
        self.entries = ri.all_entries(lay, case)
        dd = case['destdir']
        if dd['exists'] or dd['foreign']:
            os.makedirs(lay.destdir, exist_ok=True)
        if dd['foreign']:
            _write(os.path.join(lay.destdir, 'keep.txt'), 'foreign\n', 0o640)
            _write(lay.staged(os.path.join(lay.prefix, lay.dirs['datadir'], 'keep me.txt')), 'foreign 2\n', 0o600)
            os.makedirs(os.path.join(lay.destdir, 'foreign dir'), mode=0o700)
        inside, _ = self.split(self.snap())
        for p, v in inside.items():
            self.state[p] = {'typ': v[0], 'mode': v[1] if v[0] == 'file' else None, 'digest': v[6], 'link': v[6], 'origin': 'foreign'}
        return None

    # -- install --------------------------------------------------------
    def install_argv(self, o: dict) -> T.Tuple[T.List[str], str, T.Dict[str, str]]:
        lay, dd = self.lay, self.case['destdir']
        a = ['install']
        cwd = lay.bld
        if o.get('use_C'):
            a += ['-C', lay.bld]
            cwd = lay.home
        if not o.get('rebuild'):
            a.append('--no-rebuild')
        env: T.Dict[str, str] = {}
        if dd['how'] == 'env':
            env['DESTDIR'] = lay.destdir_arg
        else:
            a += ['--destdir', lay.destdir_arg]
            if dd['how'] == 'both':
                env['DESTDIR'] = lay.wrong_dest
        if o.get('tags'):
            a += ['--tags', ','.join(o['tags'])]
        if o.get('skip'):
            a += ['--skip-subprojects'] + ([] if o['skip'] == '*' else [o['skip']])
        for k, f in (('dry', '--dry-run'), ('only_changed', '--only-changed'), ('quiet', '--quiet')):
            if o.get(k):
                a.append(f)
        return a, cwd, env

    def plan(self, o: dict) -> T.Tuple[T.Dict[str, dict], T.Set[str], T.Set[str], T.List[dict]]:
        """-> (new state, certainly created, possibly created, optional entries)"""
        lay = self.lay
        st = {p: dict(v) for p, v in self.state.items()}
        certain: T.Set[str] = set()
        maybe: T.Set[str] = set()
        optional: T.List[dict] = []
        ddir = expected = None

        def ensure_dirs(p: str) -> None:
            chain = []
            q = p
            while q not in st and (q == lay.destdir or q.startswith(lay.destdir + '/') or q in self.chain):
                chain.append(q)
                q = os.path.dirname(q)
            for d in reversed(chain):
                st[d] = {'typ': 'dir', 'mode': ri.expected_dir_mode(None, self.umask), 'origin': 'implicit'}
                (maybe if (d == lay.destdir or d in self.chain) else certain).add(d)

        # explicit directory permissions win over creation defaults whatever the order of the rules
        later: T.List[T.Tuple[str, dict]] = []
        for e in self.entries:
            sel = ri.selected(e, o.get('tags'), o.get('skip'))
            if sel is False:
                self.filtered_something = True
                continue
            if sel is None:
                optional.append(e)
                continue
            p = lay.staged(e['path'])
            ensure_dirs(os.path.dirname(p))
            if e['typ'] == 'dir':
                if p not in st:
                    st[p] = {'typ': 'dir', 'mode': ri.expected_dir_mode(None, self.umask), 'origin': 'model'}
                    certain.add(p)
                if e.get('explicit'):
                    later.append((p, e))
            elif e['typ'] == 'link':
                st[p] = {'typ': 'link', 'link': e['link'], 'resolves_to': e.get('resolves_to'), 'origin': 'model', 'e': e}
                certain.add(p)
            else:
                res = ri.resolve_source(e)
                if res['typ'] == 'link':
                    st[p] = {'typ': 'link', 'link': res['link'], 'origin': 'model', 'e': e}
                    (maybe if o.get('only_changed') else certain).add(p)
                    continue
                src_mtime = os.stat(e['src']).st_mtime_ns
                old = st.get(p)
                if o.get('only_changed') and old is not None and old['typ'] == 'file' and old.get('src_mtime') is not None \
                        and src_mtime <= old['src_mtime']:
                    new = dict(old)       # "Only overwrite files that are older than the copied file"
                else:
                    new = {'typ': 'file', 'digest': res['digest'], 'size': res['size'], 'src_mtime': src_mtime, 'origin': 'model'}
                    certain.add(p)
                new['mode'] = ri.expected_file_mode(e, res['srcmode'], self.umask)
                # chown() makes the kernel drop setuid/setgid; with no permission string given nothing re-applies them: not specified
                new['mode_mask'] = 0o1777 if (e.get('perms') is None and (e.get('owner') is not None or e.get('group') is not None)) else 0o7777
                new['e'] = e
                if e.get('elf'):
                    new['elf'] = True
                st[p] = new
        for p, e in later:
            m = ri.expected_dir_mode(e, self.umask)
            st[p] = dict(st[p], mode=m if m is not None else None, e=e)
            if m is None:
                st[p]['mode'] = None
        return st, certain, maybe, optional

    def compare(self, st: T.Dict[str, dict], actual: T.Dict[str, tuple], o: T.Optional[dict], what: str) -> T.Optional[Failure]:
        lay = self.lay

        def show(p: str) -> str:
            return repr('<DESTDIR>' + p[len(lay.destdir):]) if p.startswith(lay.destdir) else repr(p)

        for p in sorted(set(st) - set(actual)):
            s = st[p]
            kind = _kindname(self.case, s['e']) if 'e' in s else s['origin']
            return self.fail(f'exact/missing:{kind}:{s["typ"]}', f'{what}: {show(p)} ({s["typ"]}, from {kind}) should exist but does not')
        for p in sorted(set(actual) - set(st)):
            why = 'not-in-plan'
            for e in self.entries:
                q = lay.staged(e['path'])
                if q == p or q.startswith(p + '/'):
                    sel = ri.selected(e, (o or {}).get('tags'), (o or {}).get('skip')) if o else True
                    if sel is False:
                        why = ('skipped-subproject' if e['sp'] and (o or {}).get('skip') and ri.selected(e, None, o.get('skip')) is False else 'tag-filter') \
                            + ':' + _kindname(self.case, e)
                    break
            return self.fail(f'exact/unexpected:{actual[p][0]}:{why}', f'{what}: {show(p)} ({actual[p][0]}) exists but nothing asks for it ({why})')
        for p in sorted(st):
            s, a = st[p], actual[p]
            kind = _kindname(self.case, s['e']) if 'e' in s else s['origin']
            if s['typ'] != a[0]:
                return self.fail(f'exact/type:{kind}:{s["typ"]}-vs-{a[0]}', f'{what}: {show(p)} should be a {s["typ"]} but is a {a[0]}')
            if s['typ'] == 'link':
                if s.get('link') is not None and a[6] != s['link']:
                    return self.fail(f'exact/link-target:{kind}', f'{what}: symlink {show(p)} points to {a[6]!r}, expected {s["link"]!r}')
                if s.get('resolves_to') and os.path.realpath(p) != os.path.realpath(lay.staged(s['resolves_to'])):
                    return self.fail(f'exact/link-target:{kind}', f'{what}: alias {show(p)} -> {a[6]!r} does not resolve to the installed library')
                continue
            if s['typ'] == 'file':
                if s.get('elf'):
                    with open(p, 'rb') as f:
                        magic = f.read(4)
                    if magic != b'\x7fELF' or a[4] != s['size']:
                        return self.fail(f'exact/content:{kind}', f'{what}: {show(p)} is not the built ELF file (size {a[4]} vs {s["size"]})')
                elif a[6] != s['digest']:
                    return self.fail(f'exact/content:{kind}:{"preserved" if (o or {}).get("only_changed") else "copied"}',
                                     f'{what}: content of {show(p)} differs from what the model expects '
                                     f'({"source/" if s["origin"] == "model" else "pre-existing "}digest {s["digest"][:12]}, got {a[6][:12]})')
            if s.get('mode') is not None and (a[1] ^ s['mode']) & s.get('mode_mask', 0o7777):
                e = s.get('e') or {}
                src = 'install_mode' if e.get('perms') is not None else f'install_umask={self.case["umask"]}'
                return self.fail(f'exact/mode:{s["typ"]}:{src.split("=")[0]}',
                                 f'{what}: mode of {show(p)} is {oct(a[1])}, expected {oct(s["mode"])} ({src})')
            e = s.get('e')
            if e and (e.get('owner') is not None or e.get('group') is not None) and OWNERS_OK:
                ids = _resolve_ids(e.get('owner'), e.get('group'))
                if ids is not None:
                    for got, want, nm in ((a[2], ids[0], 'owner'), (a[3], ids[1], 'group')):
                        if want is not None and got != want:
                            return self.fail(f'exact/{nm}', f'{what}: {nm} of {show(p)} is {got}, install_mode asks for {e.get(nm)!r} (= {want})')
        return None

    def check_outside(self, before: T.Dict[str, tuple], after: T.Dict[str, tuple], what: str) -> T.Optional[Failure]:
        if before == after:
            return None
        for p in sorted(set(before) | set(after)):
            if before.get(p) != after.get(p):
                cls = self.classify_outside(p)
                verb = 'created' if p not in before else ('removed' if p not in after else 'changed')
                return self.fail(f'containment/{cls}:{verb}', f'{what}: {verb} {p!r} which is outside DESTDIR ({self.lay.destdir!r}) '
                                 f'and not the install log: {before.get(p)} -> {after.get(p)}')
        return None

    def read_log(self) -> T.Optional[T.List[str]]:
        p = os.path.join(self.lay.bld, 'meson-logs', 'install-log.txt')
        if not os.path.exists(p):
            return None
        with open(p, encoding='utf-8') as f:
            # one path per line; DESTDIR appears as it was given (e.g. with '..' components), so normalise lexically
            return [os.path.normpath(ln[:-1] if ln.endswith('\n') else ln) for ln in f if not ln.startswith('#')]

    def check_strace(self, res: StepResult, cwd: str, what: str) -> T.Optional[Failure]:
        if not res.trace:
            return None
        lay = self.lay
        logf = os.path.join(lay.bld, 'meson-logs', 'install-log.txt')
        n = 0
        for call, p in strace_writes(res.trace, cwd):
            n += 1
            rp = os.path.realpath(p) if os.path.lexists(os.path.dirname(p)) else p
            ok = (p == lay.destdir or p.startswith(lay.destdir + '/') or p in self.chain or p == logf or rp == logf
                  or p in ('/dev/null', '/dev/tty') or p.startswith(('/proc/self/', '/dev/pts/')))
            if not ok:
                return self.fail(f'containment/syscall:{self.classify_outside(p)}:{call}',
                                 f'{what}: system call {call} modified {p!r}, outside DESTDIR {lay.destdir!r} (observed with strace -f)')
        if self.ev is not None:
            self.ev.event('strace_steps')
            self.ev.event('strace_write_syscalls', n)
        return None

    def step_install(self, o: dict, i: int) -> T.Optional[Failure]:
        lay = self.lay
        what = f'step {i} ({" ".join(self.install_argv(o)[0])})'
        # excluded regions (known findings, probed separately): re-copying a symlink whose installed copy dangles inside
        # DESTDIR, or whose installed copy points to a directory
        for e in self.entries:
            if e['typ'] == 'file' and ri.selected(e, o.get('tags'), o.get('skip')) and os.path.islink(e['src']) and not self.case.get('probe'):
                p = lay.staged(e['path'])
                if os.path.islink(p) and ((not os.path.exists(p) and not o.get('dry')) or os.path.isdir(p)):
                    if self.ev is not None:
                        self.ev.exclude('re-install over an installed symlink copy that dangles or points to a directory (known findings, probed separately)')
                    self.stop = True    # this install is not run, so the model no longer knows the tree / log: the history ends here
                    return None
        before_in, before_out = self.split(self.snap())
        argv, cwd, env = self.install_argv(o)
        res = run_step(argv, cwd, self.env(env), self.case['proc_umask'], self.how, self.work)
        after_in, after_out = self.split(self.snap())
        if res.crashed:
            m = re.findall(r'^(\w+(?:Error|Exception)\b.*)$', res.out, re.M)
            exc = (m[-1].split(':')[0] if m else 'unknown')
            return self.fail(f'install/unhandled:{exc}', f'{what}: meson install died with an unhandled exception:\n{res.out[-1800:]}')
        if res.rc != 0:
            return self.fail('install/failed', f'{what}: exit status {res.rc}:\n{res.out[-1500:]}')
        f = self.check_outside(before_out, after_out, what)
        if f:
            return f
        f = self.check_strace(res, cwd, what)
        if f:
            return f
        if o.get('dry'):
            if before_in != after_in:
                d = ri.diff_snap({k: v for k, v in before_in.items()}, {k: v for k, v in after_in.items()})
                return self.fail('dry-run/changed-destdir', f'{what}: --dry-run must not write anything, but: {"; ".join(d)}')
            self.last_log = None
            return None
        st, certain, maybe, optional = self.plan(o)
        for e in optional:
            p = lay.staged(e['path'])
            if p in after_in:
                rt = e.get('resolves_to')
                if rt and lay.staged(rt) not in st:
                    rt = None   # the library itself is not there (filtered out, or uninstalled earlier)
                st[p] = {'typ': 'link', 'link': None, 'resolves_to': rt, 'origin': 'model', 'e': e}
                maybe.add(p)
                # the directories leading to an entry the model leaves open are open with it
                q = os.path.dirname(p)
                while q not in st and q in after_in and (q == lay.destdir or q.startswith(lay.destdir + '/')):
                    st[q] = {'typ': 'dir', 'mode': ri.expected_dir_mode(None, self.umask), 'origin': 'implicit'}
                    maybe.add(q)
                    q = os.path.dirname(q)
        f = self.compare(st, after_in, o, what)
        if f:
            return f
        self.state = st
        log = self.read_log()
        if log is None:
            return self.fail('log/not-written', f'{what}: meson-logs/install-log.txt does not exist')
        logged = set(log)
        for p in log:
            if not os.path.lexists(p):
                return self.fail('log/names-nonexistent-path', f'{what}: install-log.txt names {p!r} which does not exist')
        miss = sorted(certain - logged)
        if miss:
            s = st[miss[0]]
            return self.fail(f'log/missing:{s["typ"]}:{_kindname(self.case, s["e"]) if "e" in s else s["origin"]}',
                             f'{what}: {miss[0]!r} was created by this install but install-log.txt does not name it (uninstall would leave it behind)')
        extra = sorted(logged - certain - maybe)
        if extra:
            return self.fail('log/extra', f'{what}: install-log.txt names {extra[0]!r} which this install did not create (uninstall would remove it)')
        self.last_log = log
        return None

    def step_uninstall(self, i: int) -> T.Optional[Failure]:
        what = f'step {i} (uninstall)'
        before_in, before_out = self.split(self.snap())
        res = run_step(['--internal', 'uninstall'], self.lay.bld, self.env(), self.case['proc_umask'], self.how, self.work)
        after_in, after_out = self.split(self.snap())
        if res.crashed or res.rc != 0:
            return self.fail('uninstall/failed', f'{what}: exit status {res.rc}:\n{res.out[-1500:]}')
        f = self.check_outside(before_out, after_out, what) or self.check_strace(res, self.lay.bld, what)
        if f:
            return f
        st = dict(self.state)
        for p in self.last_log or []:
            s = st.get(p)
            if s is None:
                continue
            if s['typ'] == 'dir' and any(q.startswith(p + '/') for q in st):
                continue
            del st[p]
        f = self.compare(st, after_in, None, what)
        if f is not None:
            # re-label: what uninstall left or took
            f.sig = 'uninstall/' + f.sig.split('/', 1)[1]
            return f
        self.state = st
        return None

    def step_modify(self, o: dict) -> None:
        srcs = sorted({os.path.realpath(e['src']) for e in self.entries
                       if e['typ'] == 'file' and not e.get('elf') and os.path.isfile(e['src'])})
        if not srcs:
            return
        p = srcs[o['pick'] % len(srcs)]
        self.nmod += 1
        mode = stat.S_IMODE(os.stat(p).st_mode)
        with open(p, 'ab') as f:
            f.write(f'modified {self.nmod}\n'.encode())
        os.chmod(p, mode)
        t = FUTURE + 1000 * self.nmod
        os.utime(p, (t, t))

    def step_tamper(self, o: dict) -> None:
        cands = sorted(p for p, s in self.state.items() if s['typ'] == 'file' and s['origin'] == 'model' and not s.get('elf'))
        if not cands:
            return
        p = cands[o['pick'] % len(cands)]
        st0 = os.stat(p)
        with open(p, 'ab') as f:
            f.write(b'#tampered by the harness\n')
        os.chmod(p, stat.S_IMODE(st0.st_mode))
        os.utime(p, ns=(st0.st_atime_ns, st0.st_mtime_ns))
        self.state[p] = dict(self.state[p], digest=ri.file_digest(p), size=os.stat(p).st_size)

    def run(self) -> T.Optional[Failure]:
        f = self.prepare()
        if f:
            return f
        for i, o in enumerate(self.case['ops']):
            if o['op'] == 'install':
                f = self.step_install(o, i)
            elif o['op'] == 'uninstall':
                f = self.step_uninstall(i)
            elif o['op'] == 'modify':
                self.step_modify(o)
            elif o['op'] == 'tamper':
                self.step_tamper(o)
            if f:
                return f
            if getattr(self, 'stop', False):
                break
        return None


OWNERS_OK = True


# ---------------------------------------------------------------------------
# one case

def run_case(case: dict, work: str, how: str, ev: T.Optional[Evidence] = None) -> T.Optional[Failure]:
    root = os.path.join(work, 'case')
    shutil.rmtree(root, ignore_errors=True)
    os.makedirs(root)
    try:
        return Judge(case, root, how, work, ev).run()
    finally:
        shutil.rmtree(root, ignore_errors=True)


def features(case: dict) -> T.Tuple[str, bool, dict]:
    ops = case['ops']
    inst = [o for o in ops if o['op'] == 'install']
    hist = []
    if len([o for o in inst if not o.get('dry')]) >= 2:
        hist.append('reinstall')
    for key, nm in (('dry', 'dry-run'), ('only_changed', 'only-changed'), ('tags', 'tags'), ('skip', 'skip-subprojects')):
        if any(o.get(key) for o in inst):
            hist.append(nm)
    if any(o['op'] == 'uninstall' for o in ops):
        hist.append('uninstall')
    rules = case['rules']
    has_abs = any('@ABS@' in json.dumps(r) for r in rules)
    has_mode = any(r.get('mode') for r in rules) or case['umask'] != '022'
    has_excl = any(r['k'] == 'subdir' and (r.get('exclude_files') or r.get('exclude_directories')) for r in rules)
    has_filter = any(o.get('tags') or o.get('skip') for o in inst)
    nontrivial = (has_abs or has_mode or has_excl or has_filter) and len(ops) >= 2
    cls = ('compiled:' if case.get('compiled') else '') + ('+'.join(hist) if hist else 'single-install')
    dd = case['destdir']
    sample = {'rules': [r['k'] + ('@sp' if r.get('sp') else '') + ('@d1' if r.get('dir') else '') for r in rules], 'prefix': case['prefix'],
              'umask': case['umask'], 'destdir': {k: dd[k] for k in ('path', 'rel', 'slash', 'how', 'exists', 'foreign')},
              'ops': [' '.join([o['op']] + [f'{k}={v}' for k, v in sorted(o.items()) if k != 'op']) for o in ops]}
    return cls, nontrivial, sample


def check_case(case: dict, work: str, ev: T.Optional[Evidence], how: str = 'fork',
               confirmed: T.Optional[T.Set[str]] = None) -> T.Optional[Failure]:
    f = run_case(case, work, how, ev)
    if f is not None and how == 'fork' and not (confirmed is not None and f.sig in confirmed):
        f2 = run_case(case, work, 'sub', None)      # authoritative: every step in a fresh interpreter
        if f2 is None:
            if ev is not None:
                ev.inproc_only += 1
            f = None
        else:
            f = f2
    if ev is not None:
        cls, nt, sample = features(case)
        ev.case(case, nontrivial=nt, cls=cls, sample=sample)
        for r in case['rules']:
            ev.event('rule:' + r['k'] + (':subproject' if r.get('sp') else ''))
        ev.event('umask:' + case['umask'])
        ev.event('destdir:' + ('relative' if case['destdir']['rel'] else 'absolute') + ':' + case['destdir']['how'])
        for x in case.get('excl') or []:
            ev.exclude(x)
    return f


def minimise(case: dict, sig: str, work: str, budget: int = 24) -> dict:
    """bounded ddmin over the history and the rules (fork mode; the caller re-confirms in a fresh interpreter)."""
    left = [budget]

    def fails(c: dict) -> bool:
        if left[0] <= 0:
            return False
        import copy
        if normalise(copy.deepcopy(c)) != c:
            return False       # the candidate left the generated domain (an excluded region): not a valid reduction
        left[0] -= 1
        try:
            f = run_case(c, work, 'fork', None)
        except HarnessError:
            return False
        return f is not None and f.sig == sig

    cur = case
    ops = minimize_list(cur['ops'], lambda xs: fails(dict(cur, ops=xs)), max_tests=budget // 2)
    cur = dict(cur, ops=ops)
    idx = list(range(len(cur['rules'])))
    keep = minimize_list(idx, lambda xs: fails(dict(cur, rules=[cur['rules'][i] for i in xs])), max_tests=budget // 2)
    cur = dict(cur, rules=[cur['rules'][i] for i in keep])
    return cur


def campaign_cases(strategy: T.Any, n: int, seed: int, work: str, ev: Evidence, fails: T.List[Failure], how: str = 'fork',
                   max_buckets: int = 4) -> None:
    import hypothesis
    from hypothesis import given
    buckets: T.Dict[str, Failure] = {}

    confirmed: T.Set[str] = set()      # signatures already re-confirmed in a fresh interpreter: no need to pay for it again

    def body(case: dict) -> None:
        f = check_case(case, work, ev, how, confirmed)
        if f is not None:
            confirmed.add(f.sig)
            if f.sig not in buckets and len(buckets) < max_buckets:
                buckets[f.sig] = f

    hypothesis.seed(seed)(hyp_settings(n)(given(strategy)(body)))()
    for sig, f in buckets.items():
        small = minimise(f.case, sig, work)
        f2 = run_case(small, work, 'sub', None) if small is not f.case else f
        fails.append(f2 if (f2 is not None and f2.sig == sig) else f)


# ---------------------------------------------------------------------------
# dedicated probes: confirmed findings on the pinned tree (excluded from the random campaign by normalise()/step_install)

def _probe_base(rules: T.List[dict], ops: T.List[dict], files: T.Optional[dict] = None) -> dict:
    return {'v': 1, 'probe': True, 'prefix': 'usr', 'umask': '022', 'umask_via': 'cmdline', 'proc_umask': 0o022, 'dirs': {}, 'compiled': False,
            'rules': rules, 'files': {'main': files or {}, 'sp': {}},
            'destdir': {'path': 'dest', 'rel': False, 'slash': False, 'how': 'arg', 'exists': True, 'foreign': False}, 'ops': ops, 'excl': []}


def _subdir_rule(tree: dict, follow: T.Optional[bool] = None) -> dict:
    return {'k': 'subdir', 'sp': False, 'dir': '', 'tag': None, 'name': 'tree', 'tree': tree, 'install_dir': 'share/c11', 'strip_directory': False,
            'exclude_files': [], 'exclude_directories': [], 'mode': None, 'follow': follow}


PROBES: T.Dict[str, T.Tuple[dict, str, str]] = {
    # name -> (case, generic signature prefix the machinery produces, specific signature reported)
    'uninstall-trailing-space': (
        _probe_base([_subdir_rule({'trail ': {'t': 'file', 'mode': 0o644}, 'ok.txt': {'t': 'file', 'mode': 0o644}})],
                    [{'op': 'install'}, {'op': 'uninstall'}]),
        'uninstall/unexpected', 'uninstall/name-ending-in-whitespace-left-behind'),
    'subdir-dir-symlink-followed': (
        _probe_base([_subdir_rule({'inner': {'t': 'dir'}, 'inner/f': {'t': 'file', 'mode': 0o644}, 'dlnk': {'t': 'link', 'to': 'inner', 'lk': 'dir'}}, True)],
                    [{'op': 'install'}]),
        'install/unhandled:IsADirectoryError', 'install_subdir/symlink-to-directory-followed:IsADirectoryError'),
    'reinstall-dangling-symlink': (
        _probe_base([_subdir_rule({'dangling': {'t': 'link', 'to': 'nowhere', 'lk': 'dangling'}, 'f': {'t': 'file', 'mode': 0o644}}, False)],
                    [{'op': 'install'}, {'op': 'install'}]),
        'install/unhandled:FileExistsError', 'reinstall/installed-dangling-symlink-not-replaced:FileExistsError'),
    'headers-preserve-path-install-dir': (
        _probe_base([{'k': 'headers', 'sp': False, 'dir': '', 'tag': None, 'sources': ['top.h', 'inc/deep/h2.h'], 'install_dir': 'cust',
                      'preserve_path': True, 'mode': None, 'follow': None}],
                    [{'op': 'install'}], {'top.h': {'mode': 0o644}, 'inc/deep/h2.h': {'mode': 0o644}}),
        'exact/', 'install_headers/preserve_path-ignored-with-install_dir'),
    'man-locale-in-middle': (
        _probe_base([{'k': 'man', 'sp': False, 'dir': '', 'tag': None, 'sources': ['x.fritz.fr.1'], 'locale': 'fr', 'mode': None}],
                    [{'op': 'install'}], {'x.fritz.fr.1': {'mode': 0o644}}),
        'exact/', 'install_man/locale-removed-from-middle-of-name'),
    'data-rename-preserve-path': (
        _probe_base([{'k': 'data', 'sp': False, 'dir': '', 'tag': None, 'sources': ['top.txt', 'inc/deep/second.txt'], 'install_dir': 'd',
                      'preserve_path': True, 'rename': ['one.txt', 'two.txt'], 'mode': None, 'follow': None, 'sources_kw': False}],
                    [{'op': 'install'}], {'top.txt': {'mode': 0o644}, 'inc/deep/second.txt': {'mode': 0o644}}),
        'special', 'install_data/rename-misaligned-with-preserve_path'),
}


PROBES['reinstall-dir-symlink'] = (
    _probe_base([_subdir_rule({'inner': {'t': 'dir'}, 'inner/f': {'t': 'file', 'mode': 0o644}, 'dlnk': {'t': 'link', 'to': 'inner', 'lk': 'dir'}}, False)],
                [{'op': 'install'}, {'op': 'install'}]),
    'install/failed', 'reinstall/installed-symlink-to-directory-refused')
PROBES['install-mode-uid-1'] = (
    _probe_base([{'k': 'data', 'sp': False, 'dir': '', 'tag': None, 'sources': ['f.txt'], 'install_dir': 'share/c11', 'preserve_path': False,
                  'mode': ['rw-r--r--', 1, 1], 'follow': None, 'sources_kw': False}], [{'op': 'install'}], {'f.txt': {'mode': 0o644}}),
    'setup/valid-project-rejected', 'install_mode/uid-or-gid-1-rejected-at-configure')

PROBE_DOC = {
    'uninstall-trailing-space': "install_subdir of a tree holding a file named 'trail ' (trailing blank), install, uninstall: the log names the file "
                                "but uninstall strips the line and leaves the file (and its directories) behind; expected: everything that was created is removed",
    'subdir-dir-symlink-followed': "install_subdir(follow_symlinks: true) of a tree that contains a symlink to a directory: docs say 'dereferences links "
                                   "and copies their target instead'; meson install dies with an unhandled IsADirectoryError",
    'reinstall-dangling-symlink': "install_subdir(follow_symlinks: false) of a tree with a dangling symlink, installed twice: the second install must give "
                                  "the same tree as the first; it dies with FileExistsError because the installed dangling link is not removed first",
    'headers-preserve-path-install-dir': "install_headers('top.h', 'inc/deep/h2.h', install_dir: 'cust', preserve_path: true): preserve_path 'Disable[s] stripping "
                                         "child-directories from header files', so h2.h belongs in cust/inc/deep/; it lands in cust/",
    'man-locale-in-middle': "install_man('x.fritz.fr.1', locale: 'fr'): docs: 'foo.fr.1 with a locale of fr ... {mandir}/{locale}/man{num}/foo.1'; expected "
                            "share/man/fr/man1/x.fritz.1, got xitz.1 (every occurrence of '.fr' is deleted)",
    'reinstall-dir-symlink': "install_subdir(follow_symlinks: false) of a tree with a symlink to a sibling directory, installed twice: the second "
                             "install exits 1 with 'Tried to copy file ... but a directory of that name already exists' (the installed link is followed)",
    'install-mode-uid-1': "install_mode: ['rw-r--r--', 1, 1] (docs: \"['rw-r-----', 0, 0] for the file mode and uid/gid\") is rejected at configure time with "
                          "'components can only be permission strings, numbers, or False' because 1 == True",
}


def run_probe(name: str, work: str, how: str = 'sub') -> T.Optional[Failure]:
    case, generic, specific = PROBES[name]
    case = json.loads(json.dumps(case))
    case['probe_name'] = name
    if generic == 'special':
        # rename + preserve_path: the directory part is not specified, the file *name* is ("renames each source file into
        # corresponding file from rename array"): some installed file must be called two.txt with the second source's content
        root = os.path.join(work, 'case')
        shutil.rmtree(root, ignore_errors=True)
        os.makedirs(root)
        try:
            j = Judge(case, root, how, work, None)
            f = j.prepare()
            if f:
                return f
            argv, cwd, env = j.install_argv({'op': 'install'})
            res = run_step(argv, cwd, j.env(env), 0o022, how, work)
            if res.rc != 0:
                return Failure('install/failed', case, res.out[-1500:])
            want = ri.file_digest(os.path.join(j.lay.src, 'inc/deep/second.txt'))
            got = {os.path.basename(p): v[6] for p, v in j.split(j.snap())[0].items() if v[0] == 'file'}
            if got.get('two.txt') != want:
                return Failure(specific, case, "install_data('top.txt', 'inc/deep/second.txt', rename: ['one.txt', 'two.txt'], preserve_path: true): "
                               f"the second source must be installed under the name 'two.txt'; installed file names: {sorted(got)}")
            return None
        finally:
            shutil.rmtree(root, ignore_errors=True)
    f = run_case(case, work, how, None)
    if f is not None and f.sig.startswith(generic):
        return Failure(specific, case, PROBE_DOC[name] + '\n' + f.msg)
    return f


def _probe_shard(shard: T.List[str], ev: Evidence, fails: T.List[Failure]) -> None:
    work = make_scratch('C11-probe')
    try:
        for name in shard:
            f = run_probe(name, work)
            ev.case({'probe': name}, nontrivial=True, cls='probe:' + name, sample={'probe': name, 'ops': PROBES[name][0]['ops']})
            if f is not None:
                fails.append(f)
    finally:
        shutil.rmtree(work, ignore_errors=True)


# ---------------------------------------------------------------------------
# shards, entry points

def _gen_shard(shard: T.Tuple[int, int, bool, str], ev: Evidence, fails: T.List[Failure]) -> None:
    seed, n, compiled, how = shard
    work = make_scratch(f'C11-{seed}')
    try:
        campaign_cases(case_strategy(compiled), n, seed, work, ev, fails, how)
    finally:
        shutil.rmtree(work, ignore_errors=True)


CORPUS_FIXED = ['10 man install', '12 data', '123 custom target directory install', '190 install_mode', '200 install name_prefix name_suffix',
                '248 install_emptydir', '249 install_symlink', '252 install data structured', '268 install functions and follow symlinks',
                '45 custom install dirs', '59 install subdir', '8 install', '9 header install', '95 manygen']
CORPUS_VARIANTS: T.List[T.List[str]] = [[], ['-Ddefault_library=both', '-Dinstall_umask=077', '--libdir=lib64']]


def _corpus_shard(shard: T.List[dict], ev: Evidence, fails: T.List[Failure]) -> None:
    from harness import c11corpus
    work = make_scratch('C11-corpus')
    sigs: T.Set[str] = set()
    try:
        for case in shard:
            f = c11corpus.check_corpus(case, os.path.join(work, 'case'), ev)
            if f is not None and f.sig not in sigs:
                sigs.add(f.sig)
                fails.append(f)
    finally:
        shutil.rmtree(work, ignore_errors=True)


def _any_shard(shard: T.Tuple[str, T.Any], ev: Evidence, fails: T.List[Failure]) -> None:
    kind, arg = shard
    if kind == 'gen':
        _gen_shard(arg, ev, fails)
    elif kind == 'corpus':
        _corpus_shard(arg, ev, fails)
    else:
        _probe_shard(arg, ev, fails)


def selftest(ctx: Ctx) -> None:
    global OWNERS_OK
    if os.geteuid() != 0:
        raise HarnessError('C11 must run as root (ownership and setuid checks)')
    # reference model against the documentation's own examples (Installing.md)
    if ri.perms_bits('rwxr-sr-t') != 0o3755 or ri.perms_bits('rwSr--r--') != 0o4644 or ri.perms_bits('rw-r-----') != 0o640:
        raise HarnessError('perms_bits self-test failed')
    case = {'prefix': 'usr', 'destdir': {'path': 'dest', 'rel': False}, 'dirs': {}, 'rules': [
        {'k': 'headers', 'sources': ['header.h'], 'subdir': 'projname'},
        {'k': 'man', 'sources': ['foo.1']},
        {'k': 'data', 'sources': ['datafile.dat'], 'install_dir': 'share/progname'},
        {'k': 'data', 'sources': ['file1.txt', 'file2.txt'], 'rename': ['dir1/data.txt', 'dir2/data.txt'], 'install_dir': 'share/myapp'},
        {'k': 'data', 'sources': ['foo.dat'], 'install_dir': '/etc'},
        {'k': 'man', 'sources': ['foo.fr.1'], 'locale': 'fr'},
        {'k': 'headers', 'sources': ['common.h', 'proj/kola.h'], 'preserve_path': True},
        {'k': 'subdir', 'name': 'foo/bar', 'install_dir': 'share', 'strip_directory': True, 'tree': {'file1': {'t': 'file'}}},
        {'k': 'subdir', 'name': 'foo', 'install_dir': 'share', 'tree': {'bar': {'t': 'dir'}, 'bar/file1': {'t': 'file'}, 'file2': {'t': 'file'}},
         'exclude_directories': ['bar']},
    ]}
    lay = ri.Layout('/R', case)
    got = [e['path'] for e in ri.all_entries(lay, case)]
    want = ['/R/rp/usr/include/projname/header.h', '/R/rp/usr/share/man/man1/foo.1', '/R/rp/usr/share/progname/datafile.dat',
            '/R/rp/usr/share/myapp/dir1/data.txt', '/R/rp/usr/share/myapp/dir2/data.txt', '/etc/foo.dat', '/R/rp/usr/share/man/fr/man1/foo.1',
            '/R/rp/usr/include/common.h', '/R/rp/usr/include/proj/kola.h', '/R/rp/usr/share', '/R/rp/usr/share/file1',
            '/R/rp/usr/share/foo', '/R/rp/usr/share/foo/file2']
    if got != want:
        raise HarnessError(f'install model self-test failed:\n got {got}\nwant {want}')
    if lay.staged('/etc/foo.dat') != '/R/dest/etc/foo.dat':
        raise HarnessError('DESTDIR re-rooting self-test failed')
    if ri.guess_tag(lay, '/R/rp/usr/bin/x') != 'runtime' or ri.guess_tag(lay, '/R/rp/usr/lib/x.a') != 'devel' or \
            ri.guess_tag(lay, '/R/rp/usr/share/x') is not None:
        raise HarnessError('tag model self-test failed')
    # can this sandbox chown to arbitrary ids?
    probe = os.path.join(ctx.scratch, 'chown-probe')
    with open(probe, 'w'):
        pass
    try:
        os.chown(probe, 1234, 4321)
    except OSError:
        OWNERS_OK = False
        ctx.note('chown to arbitrary numeric ids is not permitted in this sandbox: ownership is not checked')
    if shutil.which('strace') is None:
        raise HarnessError('strace not found')



# ---------------------------------------------------------------------------
# install scripts and the effective DESTDIR (Installing.md "DESTDIR support": with --destdir "Meson will set DESTDIR into
# environment when running install scripts", "An absolute path will be set into environment when executing scripts";
# meson.add_install_script: MESON_INSTALL_DESTDIR_PREFIX "contains DESTDIR (if set) and prefix joined together").
# A script following the documented `${DESTDIR}/${MESON_INSTALL_PREFIX}` convention writes outside the staging area as
# soon as it is handed a stale or missing DESTDIR, so what the scripts see is part of "writes only beneath $DESTDIR".

SCRIPT_ENV_PY = """#!/usr/bin/env python3
import json, os, sys
with open(sys.argv[1], 'w') as f:
    json.dump({k: os.environ.get(k) for k in ('DESTDIR', 'MESON_INSTALL_PREFIX', 'MESON_INSTALL_DESTDIR_PREFIX')}, f)
"""


def script_destdir_matrix(ctx: Ctx) -> None:
    from harness import mesondrv as M
    root = os.path.join(ctx.scratch, 'script-destdir')
    src, bld = os.path.join(root, 'src'), os.path.join(root, 'bld')
    rec = os.path.join(root, 'rec.json')
    prefix = os.path.join(root, 'real prefix')
    M.write_tree(src, {'meson.build': "project('sd')\ninstall_data('d.txt', install_dir: 'share/sd')\n"
                                      f"meson.add_install_script(find_program('envdump.py'), {mstr(rec)})\n",
                       'd.txt': 'x\n', 'envdump.py': SCRIPT_ENV_PY})
    os.chmod(os.path.join(src, 'envdump.py'), 0o755)
    r = M.run_sub(['setup', f'--prefix={prefix}', bld, src], cwd=root)
    if r.rc != 0:
        raise HarnessError(f'script/DESTDIR project does not configure: {r!r}')
    stage_abs = os.path.join(root, 'stage abs')
    stale = os.path.join(root, 'stale')
    ways = [
        ('--destdir absolute', ['--destdir', stage_abs], {}, stage_abs),
        ('--destdir relative to the build directory', ['--destdir', 'rel stage'], {}, os.path.join(bld, 'rel stage')),
        ('DESTDIR absolute in the environment', [], {'DESTDIR': stage_abs}, stage_abs),
        ('DESTDIR relative in the environment', [], {'DESTDIR': 'rel env'}, os.path.join(bld, 'rel env')),
        ('--destdir absolute overriding a DESTDIR from the environment', ['--destdir', stage_abs], {'DESTDIR': stale}, stage_abs),
        ('no DESTDIR at all', [], {}, ''),
    ]
    for what, args, env, eff in ways:
        for d in (stage_abs, stale, prefix, os.path.join(bld, 'rel stage'), os.path.join(bld, 'rel env')):
            shutil.rmtree(d, ignore_errors=True)
        if os.path.exists(rec):
            os.unlink(rec)
        ir = M.run_sub(['install', '--no-rebuild', '-C', bld] + args, cwd=root, env=env)
        case = {'script_destdir': what}
        ctx.ev.case(case, nontrivial=True, cls='install-script/DESTDIR', sample={'way': what, 'effective_destdir': eff or None})
        if ir.rc != 0 or not os.path.exists(rec):
            ctx.fail(Failure('install-script/install-failed', case, f'{what}: meson install exit {ir.rc}\n{ir.text[-900:]}'))
            continue
        with open(rec) as fh:
            seen = json.load(fh)
        want_dd = eff if eff else None
        want_dp = (eff + prefix) if eff else prefix
        got_dd = os.path.normpath(seen['DESTDIR']) if seen.get('DESTDIR') else None
        got_dp = os.path.normpath(seen['MESON_INSTALL_DESTDIR_PREFIX']) if seen.get('MESON_INSTALL_DESTDIR_PREFIX') else None
        if got_dd != (os.path.normpath(want_dd) if want_dd else None) or got_dp != os.path.normpath(want_dp):
            ctx.fail(Failure('install-script/wrong-DESTDIR-in-environment', case,
                             f'{what}: the install script saw DESTDIR={seen.get("DESTDIR")!r}, MESON_INSTALL_DESTDIR_PREFIX='
                             f'{seen.get("MESON_INSTALL_DESTDIR_PREFIX")!r}; the effective staging directory is {want_dd!r} '
                             f'(expected DESTDIR={want_dd!r}, MESON_INSTALL_DESTDIR_PREFIX={want_dp!r}): a script using the documented '
                             '${DESTDIR}/${MESON_INSTALL_PREFIX} convention would write outside it'))
            continue
        if eff and (os.path.exists(prefix) or os.path.exists(stale)):
            ctx.fail(Failure('install-script/wrote-outside-destdir', case, f'{what}: something was created under the real prefix / the stale DESTDIR'))
    shutil.rmtree(root, ignore_errors=True)


def subproject_filter_matrix(ctx: Ctx) -> None:
    """--skip-subprojects against everything a subproject makes meson install, including what is installed on its behalf
    without an install_*() call of its own: licence files (project(license_files:), installed with the dependency manifest
    when licensedir is set).  Content-based and layout-free: every file of the subproject carries bytes found nowhere else;
    a plain install must create a copy of each (so the relation is not vacuous), an install that skips the subproject none."""
    from harness import mesondrv as M
    root = os.path.join(ctx.scratch, 'sp-filter')
    src, bld = os.path.join(root, 'src'), os.path.join(root, 'bld')
    marks = {'sp-licence': b'LICENCE TEXT OF SUBPROJECT spf\n', 'sp-data': b'DATA OF SUBPROJECT spf\n', 'sp-header': b'/* HEADER OF SUBPROJECT spf */\n'}
    mains = {'main-licence': b'LICENCE TEXT OF MAIN\n', 'main-data': b'DATA OF MAIN\n'}
    M.write_tree(src, {
        'meson.build': "project('spfmain', license: 'MIT', license_files: ['COPYING'])\ninstall_data('m.txt', install_dir: 'share/m')\nsubproject('spf')\n",
        'COPYING': mains['main-licence'], 'm.txt': mains['main-data'],
        'subprojects/spf/meson.build': "project('spf', license: 'BSD-3-Clause', license_files: ['COPYING.spf', 'doc/NOTICE'])\n"
                                       "install_data('s.txt', install_dir: 'share/s')\ninstall_headers('s.h')\n",
        'subprojects/spf/COPYING.spf': marks['sp-licence'], 'subprojects/spf/doc/NOTICE': marks['sp-licence'] + b'notice\n',
        'subprojects/spf/s.txt': marks['sp-data'], 'subprojects/spf/s.h': marks['sp-header']})
    for what, setup_extra in (('licensedir option', ['-Dlicensedir=share/licenses/spfmain']), ('no licensedir', [])):
        shutil.rmtree(bld, ignore_errors=True)
        r = M.run_sub(['setup', '--prefix=/usr'] + setup_extra + [bld, src], cwd=root)
        if r.rc != 0:
            raise HarnessError(f'subproject-filter project does not configure: {r!r}')
        for how, args in (('plain', []), ('--skip-subprojects spf', ['--skip-subprojects', 'spf']), ('--skip-subprojects', ['--skip-subprojects']),
                          ('--skip-subprojects other', ['--skip-subprojects', 'other'])):
            dest = os.path.join(root, 'dest')
            shutil.rmtree(dest, ignore_errors=True)
            ir = M.run_sub(['install', '--no-rebuild', '-C', bld, '--destdir', dest] + args, cwd=root)
            case = {'subproject_filter': what, 'install': how}
            ctx.ev.case(case, nontrivial=bool(args), cls='subproject-filter/' + ('licensedir' if setup_extra else 'plain'), sample=case)
            if ir.rc != 0:
                ctx.fail(Failure('subproject-filter/install-failed', case, f'{what}, meson install {how}: exit {ir.rc}\n{ir.text[-900:]}'))
                continue
            found: T.Dict[str, T.List[str]] = {}
            for dp, _dn, fns in os.walk(dest):
                for fn in fns:
                    full = os.path.join(dp, fn)
                    if os.path.islink(full):
                        continue
                    with open(full, 'rb') as fh:
                        data = fh.read()
                    for name, mark in list(marks.items()) + list(mains.items()):
                        if data.startswith(mark):
                            found.setdefault(name, []).append(os.path.relpath(full, dest))
            skipping = how in ('--skip-subprojects spf', '--skip-subprojects')
            expect_sp = set() if skipping else ({'sp-data', 'sp-header'} | ({'sp-licence'} if setup_extra else set()))
            expect_main = {'main-data'} | ({'main-licence'} if setup_extra else set())
            got_sp = {n for n in found if n in marks}
            got_main = {n for n in found if n in mains}
            if got_sp - expect_sp:
                ctx.fail(Failure('subproject-filter/skipped-subproject-file-installed', case,
                                 f'{what}, `meson install {how}`: files of the skipped subproject were installed: '
                                 f'{ {n: found[n] for n in sorted(got_sp - expect_sp)} } (restricted to ... skipped subprojects)'))
            elif expect_sp - got_sp or expect_main - got_main:
                ctx.fail(Failure('subproject-filter/file-not-installed', case,
                                 f'{what}, `meson install {how}`: nothing with the content of {sorted((expect_sp - got_sp) | (expect_main - got_main))} '
                                 f'was installed (installed: {found})'))
    shutil.rmtree(root, ignore_errors=True)


def run(ctx: Ctx) -> None:
    script_destdir_matrix(ctx)
    subproject_filter_matrix(ctx)
    seeds = shard_seeds(ctx, 64)
    per = ctx.n(60, 900)
    # findings already reproduced by the regress replays (run first by the harness) need no second probe
    shards: T.List[T.Tuple[str, T.Any]] = [('probe', sorted(n for n in PROBES if PROBES[n][2] not in ctx.failures))]
    shards += [('gen', (seeds[i], per, False, 'fork')) for i in range(16)]
    shards += [('gen', (seeds[16 + i], ctx.n(1, 8), True, 'fork')) for i in range(8)]
    shards += [('gen', (seeds[32 + i], ctx.n(1, 12), False, 'strace')) for i in range(8)]
    shards += [('gen', (seeds[48 + i], ctx.n(1, 10), False, 'sub')) for i in range(4)]
    # corpus half (harness/c11corpus.py): install-heavy projects of the repository's test cases in every run, all of them
    # under two option sets in the thorough tier
    from harness import c11corpus
    import random as _random
    projs = c11corpus.corpus_projects()
    if ctx.quick:
        fixed = [p for p in projs if os.path.basename(p) in CORPUS_FIXED and '/common/' in p]
        rest = [p for p in projs if p not in fixed]
        _random.Random(f'c11-corpus:{ctx.seed}').shuffle(rest)
        cc = [{'corpus': p} for p in fixed] + [{'corpus': p, 'args': CORPUS_VARIANTS[1]} for p in rest[:10]]
        nsh = 8
    else:
        cc = [({'corpus': p, 'args': v} if v else {'corpus': p}) for p in projs for v in CORPUS_VARIANTS]
        nsh = 32
    ctx.ev.extra['corpus_cases'] = len(cc)
    shards += [('corpus', cc[i::nsh]) for i in range(nsh) if cc[i::nsh]]
    pmap(ctx, _any_shard, shards)
    ctx.ev.extra['owners_checked'] = OWNERS_OK


def replay(ctx: Ctx, case: T.Any, doc: dict) -> T.Optional[Failure]:
    work = os.path.join(ctx.scratch, 'replay')
    os.makedirs(work, exist_ok=True)
    if isinstance(case, dict) and case.get('probe_name') in PROBES:
        return run_probe(case['probe_name'], work)
    if isinstance(case, dict) and 'corpus' in case:
        from harness import c11corpus
        return c11corpus.check_corpus(case, os.path.join(work, 'corpus'), None)
    if isinstance(case, dict) and case.get('subproject_filter'):
        c2 = Ctx(ctx.prop, ctx.tier, ctx.seed)
        subproject_filter_matrix(c2)
        return next(iter(c2.failures.values()), None)
    if isinstance(case, dict) and case.get('script_destdir'):
        c2 = Ctx(ctx.prop, ctx.tier, ctx.seed)
        script_destdir_matrix(c2)
        return next(iter(c2.failures.values()), None)
    return run_case(case, work, 'sub', None)
