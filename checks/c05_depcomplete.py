"""C05 - The build graph is dependency-complete: any valid schedule builds the same thing.

The real build.ninja of generated projects is executed by harness/refninja.py with the harness owning
the schedule: (1) reference build in declaration-stable topological order, (2) hermetic replay of every
edge with ONLY its declared ancestors' outputs present, (3) depfile cross-check, (4) random and
adversarial topological orders and parallel waves, all required to succeed with identical digests.

Two sources of projects share that oracle (judge_build): Hypothesis project models (harness/projgen.py: plain C
targets, custom targets, generators, configure_file) and the deterministic catalogue of feature projects
(harness/featproj.py: precompiled headers, Rust, Java, Fortran, link_depends:, objects:, extract_objects(), ...)
whose language / feature specific backend paths the random models never reach.
"""
from __future__ import annotations

import concurrent.futures
import os
import random
import shutil
import typing as T

from harness import featproj, mesondrv, projgen, refninja
from harness.core import Ctx, Evidence, Failure, HarnessError, campaign, make_scratch, pmap, shard_seeds
from harness.mesondrv import run_inproc, run_sub, base_env

LEVEL = 'exploration'
RULE = ('Hypothesis project models (profile deps: C sources that really #include headers produced by custom targets / configure_file, '
        'declare_dependency(sources:), custom-target chains via input:/depends:/depend_files:, generators, link_with/link_whole chains, '
        'built executables used by custom targets) are configured by the real meson; the generated build.ninja is executed by an independent '
        'Ninja implementation. Per project: reference build, hermetic replay of every non-phony edge with only its declared ancestors\' outputs '
        'present (all other build outputs moved away), depfile cross-check, and several schedules (random topological, producers-last, reverse '
        'declaration, parallel waves) compared by output digests. non-trivial edge replay = >=1 non-ancestor output was actually removed and the '
        'edge has >=1 generated ancestor; non-trivial schedule = differs from the reference order; distinct by (model hash, edge outputs) / '
        '(model hash, order hash). In both tiers every project of the deterministic feature catalogue harness/featproj.py (precompiled headers, '
        'Rust, Java, Fortran modules with dyndep and with the pre-1.10 ninja paths, C/C++ mixes, link_depends:, objects:, extract_objects(), '
        'link_whole of a custom target, both_libraries(), generator depends:/built generator programs, depfile:, vcs_tag()/configure_file(command:), '
        'run/alias targets, subproject and sibling-directory generated headers; the seed only selects option sets: layout, unity, default_library, '
        'b_pch, buildtype, language) is configured in a fresh process and judged by the same oracle (dyndep files are built and loaded first); '
        'its cases are counted in class feature/<entry> with the same non-triviality rule, distinct by (case hash, edge outputs / order). '
        'Corpus: projects of the repository\'s `test cases/{common,unit,native,linuxlike}` (24 seed-chosen ones in the quick tier; all of them under three '
        'option sets - plain, layout=flat, default_library=both+unity - in the thorough tier) are configured and really built by the same executor; a '
        'project whose declaration-order build does not succeed here is left out (counted under excluded), the others are held to the hermetic replay '
        'and the schedules (class corpus).')
ASSUMPTIONS = [
    'build steps are monotone in the set of present files (a step that succeeds with only its ancestors present also succeeds with more files present); the schedule runs test this assumption',
    'build.ninja is executed by harness/refninja.py (no ninja binary in the sandbox): /bin/sh -c <expanded command> in the build dir, rspfiles written as ninja does',
    'gcc/ar/python produce deterministic outputs at fixed absolute paths',
    'catalogue projects: rustc, javac, gfortran and the meson-internal depscan/copy steps are deterministic too; jar archives embed the wall-clock time of their members and are compared by member names and contents; precompiled headers (.gch/.pch) are a dump of compiler memory and are compared by existence only',
    'dyndep: every dyndep file is built (with its declared ancestors only) and loaded before the schedules are drawn; the declared edges of a statement are those of build.ninja plus those of its dyndep file, which is the graph ninja works with once the dyndep files are up to date',
    'a statement whose command is the no-op `true` (FORTRAN_DEP_HACK of the pre-1.10 ninja path) does not write its outputs: they count as outputs of the statements it directly depends on',
]

INTERNAL_PREFIX = 'meson-internal__'
INTERNAL_OK = ()


def selftest(ctx: Ctx) -> None:
    try:
        refninja.selftest()
    except AssertionError as e:
        raise HarnessError(f'refninja self-test failed: {e}')


def buildable_edges(m: refninja.Manifest, run_names: T.Set[str]) -> T.List[refninja.Edge]:
    out = []
    for e in m.edges:
        if e.is_phony or e.rule.name == 'REGENERATE_BUILD':
            continue
        if e.outs and e.outs[0].startswith(INTERNAL_PREFIX) and e.outs[0] not in run_names:
            continue
        out.append(e)
    return out


def all_build_outputs(edges: T.List[refninja.Edge]) -> T.List[str]:
    res = []
    for e in edges:
        for o in e.all_outs:
            if not o.startswith(INTERNAL_PREFIX):
                res.append(o)
        df = e.get('depfile')
        if df:
            res.append(df)
    return res


def artifact_digest(path: str) -> str:
    """Digest of one build product.  jar archives carry the wall-clock time of every member (the JDK's jar tool has no
    reproducible mode before 19), so they are compared by member names and member contents."""
    if path.endswith('.jar') and os.path.isfile(path) and not os.path.islink(path):
        import hashlib
        import zipfile
        try:
            h = hashlib.sha1()
            with zipfile.ZipFile(path) as z:
                for n in sorted(z.namelist()):
                    h.update(n.encode() + b'\0' + hashlib.sha1(z.read(n)).digest())
            return 'jar:' + h.hexdigest()
        except zipfile.BadZipFile:
            pass
    if path.endswith(('.gch', '.pch')) and os.path.isfile(path):
        # a precompiled header is a dump of the compiler's memory; two runs of the same command differ
        return 'pch:present'
    return refninja.file_digest(path)


def digests(bld: str, edges: T.List[refninja.Edge]) -> T.Dict[str, str]:
    d = {}
    for e in edges:
        for o in e.all_outs:
            if o.startswith(INTERNAL_PREFIX):
                continue
            d[o] = artifact_digest(os.path.join(bld, o))
    return d


def clean_outputs(bld: str, edges: T.List[refninja.Edge]) -> None:
    for o in all_build_outputs(edges):
        p = os.path.join(bld, o)
        try:
            if os.path.isdir(p) and not os.path.islink(p):
                shutil.rmtree(p)
            else:
                os.unlink(p)
        except FileNotFoundError:
            pass


def schedule(m: refninja.Manifest, edges: T.List[refninja.Edge], policy: str, rnd: random.Random) -> T.List[refninja.Edge]:
    """Kahn's algorithm with a policy-specific choice among the ready edges."""
    ids = {id(e) for e in edges}
    deps = {id(e): {id(d) for d in m.deps_of(e) if id(d) in ids} for e in edges}
    # dependencies through phony edges must be kept: expand transitively through non-selected edges
    for e in edges:
        stack = [d for d in m.deps_of(e) if id(d) not in ids]
        seen = set()
        while stack:
            x = stack.pop()
            if id(x) in seen:
                continue
            seen.add(id(x))
            for d in m.deps_of(x):
                if id(d) in ids:
                    deps[id(e)].add(id(d))
                else:
                    stack.append(d)
    rdeps: T.Dict[int, T.Set[int]] = {id(e): set() for e in edges}
    for e in edges:
        for d in deps[id(e)]:
            rdeps[d].add(id(e))
    ndesc: T.Dict[int, int] = {}

    def desc(i: int) -> int:
        if i not in ndesc:
            seen: T.Set[int] = set()
            st = list(rdeps[i])
            while st:
                x = st.pop()
                if x in seen:
                    continue
                seen.add(x)
                st.extend(rdeps[x])
            ndesc[i] = len(seen)
        return ndesc[i]

    by_id = {id(e): e for e in edges}
    decl = {id(e): i for i, e in enumerate(edges)}
    remaining = {i: set(d) for i, d in deps.items()}
    ready = [i for i, d in remaining.items() if not d]
    order = []
    while ready:
        if policy == 'random':
            pick = rnd.choice(sorted(ready, key=lambda i: decl[i]))
        elif policy == 'producers-last':          # fewest transitive dependents first: delays the producers everybody waits for
            pick = min(ready, key=lambda i: (desc(i), -decl[i]))
        elif policy == 'reverse-decl':
            pick = max(ready, key=lambda i: decl[i])
        elif policy == 'consumers-first':         # most transitive dependents last, ties broken towards late declarations
            pick = min(ready, key=lambda i: (len(deps[i]) == 0, desc(i), -decl[i]))
        else:
            pick = min(ready, key=lambda i: decl[i])
        ready.remove(pick)
        order.append(by_id[pick])
        for r in rdeps[pick]:
            remaining[r].discard(pick)
            if not remaining[r] and r not in [id(x) for x in order] and r not in ready:
                ready.append(r)
    if len(order) != len(edges):
        raise refninja.NinjaError('cycle among buildable edges')
    return order


def waves(m: refninja.Manifest, order: T.List[refninja.Edge], edges: T.List[refninja.Edge]) -> T.List[T.List[refninja.Edge]]:
    ids = {id(e) for e in edges}
    level: T.Dict[int, int] = {}
    for e in order:
        lv = 0
        stack = list(m.deps_of(e))
        seen = set()
        while stack:
            d = stack.pop()
            if id(d) in seen:
                continue
            seen.add(id(d))
            if id(d) in ids:
                lv = max(lv, level[id(d)] + 1)
            else:
                stack.extend(m.deps_of(d))
        level[id(e)] = lv
    res: T.List[T.List[refninja.Edge]] = []
    for e in order:
        while len(res) <= level[id(e)]:
            res.append([])
        res[level[id(e)]].append(e)
    return res


def describe(e: refninja.Edge) -> str:
    return f'{e.rule.name} {e.outs[:2]} (build.ninja line {e.lineno})'


def check_model(model: dict, workdir: str, ev: T.Optional[Evidence], seed: int, nsched: int = 4) -> T.Optional[Failure]:
    """A generated project model: write it, configure it, judge the configured build directory."""
    src = os.path.join(workdir, 'src')
    bld = os.path.join(workdir, 'bld')
    side = os.path.join(workdir, 'side')
    shutil.rmtree(workdir, ignore_errors=True)
    os.makedirs(src)
    try:
        projgen.write_project(model, src)
        args = ['setup'] + projgen.setup_args(model) + [bld, src]
        r = run_inproc(args)
        if r.rc != 0:
            shutil.rmtree(bld, ignore_errors=True)
            r = run_sub(args)
            if r.rc != 0:
                # configuration failures belong to C04; here the project is simply not usable
                if ev is not None:
                    ev.exclude('project did not configure (C04 territory)')
                return None
        run_names = {INTERNAL_PREFIX + t['name'] for t in model['targets'] if t['kind'] == 'run'}
        return judge_build(bld, side, model, ev, seed, nsched, run_names, model_hash(model))
    finally:
        shutil.rmtree(workdir, ignore_errors=True)


def check_feature(case: dict, workdir: str, ev: T.Optional[Evidence], seed: int, nsched: int = 4) -> T.Optional[Failure]:
    """A catalogue project (harness/featproj.py): write it, configure it in a fresh process, judge the build directory
    with the same oracle as the generated models."""
    name = case['feature']
    miss = featproj.missing_tools(case)
    if miss:
        if ev is not None:
            ev.exclude(f'feature/{name}: tool not installed ({", ".join(miss)})')
        return None
    src = os.path.join(workdir, 'src')
    bld = os.path.join(workdir, 'bld')
    side = os.path.join(workdir, 'side')
    shutil.rmtree(workdir, ignore_errors=True)
    os.makedirs(src)
    try:
        proj = featproj.build(case)
        env = proj.write(src)
        r = run_sub(['setup'] + proj.setup_args() + [bld, src], env=env or None)
        if r.rc != 0:
            if ev is not None:
                ev.exclude(f'feature/{name}: project did not configure (C04 territory)')
            return None
        run_names = {INTERNAL_PREFIX + n for n in proj.run_targets}
        f = judge_build(bld, side, case, ev, seed, nsched, run_names, model_hash(case), cls=f'feature/{name}')
        if f is not None:
            f.sig = f'{f.sig}@feature/{name}'
            f.msg = f'catalogue project {name} {case.get("opts")}: {f.msg}'
        return f
    finally:
        shutil.rmtree(workdir, ignore_errors=True)


def corpus_projects() -> T.List[str]:
    import glob
    out = []
    for sub in ('common', 'unit', 'native', 'linuxlike'):
        for d in sorted(glob.glob(os.path.join(mesondrv.REPO, 'test cases', sub, '*'))):
            if os.path.isfile(os.path.join(d, 'meson.build')):
                out.append(os.path.relpath(d, mesondrv.REPO))
    return out


def check_corpus(case: dict, workdir: str, ev: T.Optional[Evidence], seed: int, nsched: int = 2) -> T.Optional[Failure]:
    """A project of the repository's own `test cases/` tree, really built by the executor.  What the project's own
    programs do is not known here, so a project whose reference build does not succeed (missing tool, test that expects
    a failure) is left out; once the reference build succeeded, every statement has to succeed again with only its
    declared ancestors' outputs present, and under every other valid order."""
    src = os.path.join(workdir, 'src')
    bld = os.path.join(workdir, 'bld')
    side = os.path.join(workdir, 'side')
    shutil.rmtree(workdir, ignore_errors=True)
    os.makedirs(workdir)
    try:
        shutil.copytree(os.path.join(mesondrv.REPO, case['corpus']), src, symlinks=True)
        r = run_sub(['setup'] + list(case.get('args', [])) + [bld, src], timeout=300)
        if r.rc != 0 or 'MESON_SKIP_TEST' in r.text or not os.path.exists(os.path.join(bld, 'build.ninja')):
            if ev is not None:
                ev.exclude('corpus project does not configure here')
            return None
        run_names: T.Set[str] = set()      # run targets of a foreign project may do anything (start tests, write to the source tree)
        f = judge_build(bld, side, case, ev, seed, nsched, run_names, model_hash(case), cls='corpus')
        if f is not None and f.sig.startswith(('schedule/declaration-order-fails', 'schedule/output-not-produced')):
            if os.environ.get('VERIF_DEBUG'):
                print('NOBUILD', case['corpus'], f.msg[:600].replace('\n', ' | '), flush=True)
            if ev is not None:
                ev.exclude('corpus project does not build here in declaration order (tool missing / failure expected by the test)')
            return None
        if f is not None:
            f.sig = f'{f.sig}@corpus'
            f.msg = f'{case["corpus"]}: {f.msg}'
        return f
    finally:
        shutil.rmtree(workdir, ignore_errors=True)


def load_dyndeps(m: refninja.Manifest, edges: T.List[refninja.Edge], bld: str, env: T.Dict[str, str], case: T.Any) -> T.Optional[Failure]:
    """Ninja's dynamic dependencies: statements bound to a dyndep file learn further implicit inputs/outputs from it
    once it has been built.  Here every dyndep file (with its declared ancestors) is built first, in declaration-stable
    topological order, and loaded; from then on the graph is static and all schedules are drawn from the complete graph
    (the state a ninja run reaches as soon as the dyndep files are up to date)."""
    dd = refninja.dyndep_files(m)
    if not dd:
        return None
    need: T.Set[int] = set()
    for path in dd:
        pe = m.producer.get(path)
        if pe is None:
            return Failure('dyndep/file-has-no-producer', case, f'dyndep file {path!r} is not produced by any statement')
        need.add(id(pe))
        need |= m.ancestors(pe)
    edge_ids = {id(e) for e in edges}
    for e in m.topo_order(need):
        if id(e) not in edge_ids:
            continue
        rr = refninja.run_edge(e, bld, env)
        if rr.rc != 0:
            return Failure(f'dyndep/scan-step-fails:{e.rule.name}', case,
                           f'building the dyndep files: {describe(e)} failed:\n$ {rr.command}\n{rr.output[-1500:]}')
    for path in sorted(dd):
        refninja.load_dyndep(m, path, bld)
    if m.duplicate_outputs:
        o, e1, e2 = m.duplicate_outputs[0]
        return Failure('dyndep/duplicate-producer', case, f'after loading the dyndep files {o!r} is produced by two statements '
                       f'(lines {e1.lineno} and {e2.lineno})')
    if m.find_cycle():
        return Failure('dyndep/cycle', case, f'after loading the dyndep files the graph has a cycle: {m.find_cycle()}')
    return None


def judge_build(bld: str, side: str, case: T.Any, ev: T.Optional[Evidence], seed: int, nsched: int,
                run_names: T.Set[str], case_hash: str, cls: T.Optional[str] = None) -> T.Optional[Failure]:
    """The oracle for one configured build directory: (1) reference build, (3) depfile cross-check, (2) hermetic replay of
    every non-phony statement, (4) schedules.  `case` is what a Failure carries; `cls` overrides the evidence class
    (catalogue projects are counted as feature/<name>)."""
    env = base_env()
    rnd = random.Random(seed)
    try:
        m = refninja.parse_file(os.path.join(bld, 'build.ninja'))
    except refninja.NinjaError:
        if ev is not None:
            ev.exclude('build.ninja does not parse (C04 territory)')
        return None
    edges = buildable_edges(m, run_names)
    try:
        f = load_dyndeps(m, edges, bld, env, case)
    except refninja.NinjaError as ex:
        return Failure('dyndep/invalid', case, f'dyndep information cannot be used: {ex}')
    if f is not None:
        return f
    edge_ids = {id(e) for e in edges}
    ref_order = schedule(m, edges, 'declaration', rnd)
    # (1) reference build
    for e in ref_order:
        rr = refninja.run_edge(e, bld, env)
        if rr.rc != 0:
            return Failure('schedule/declaration-order-fails', case,
                           f'reference build (declaration-stable topological order) failed at {describe(e)}:\n$ {rr.command}\n{rr.output[-1500:]}')
    ref = digests(bld, edges)
    missing = [o for o, d in ref.items() if d == 'missing']
    if missing:
        return Failure('schedule/output-not-produced', case, f'after a successful build these declared outputs do not exist: {missing[:5]}')
    producers = {}
    for e in edges:
        for o in e.all_outs:
            producers[o] = e
    # (3) depfile cross-check
    for e in edges:
        df = e.get('depfile')
        if not df or not os.path.exists(os.path.join(bld, df)):
            continue
        with open(os.path.join(bld, df), encoding='utf-8', errors='replace') as fh:
            deps = refninja.parse_depfile(fh.read())
        anc = m.ancestors(e)
        for dp in deps:
            rel = dp
            if os.path.isabs(dp):
                rel = os.path.relpath(dp, bld)
            rel = refninja.canon_path(rel)
            pe = producers.get(rel)
            if pe is not None and pe is not e and id(pe) not in anc:
                return Failure('depfile/undeclared-generated-input', case,
                               f'{describe(e)} really read the generated file {rel!r} (per its depfile) but the statement producing it '
                               f'({describe(pe)}) is not among its declared ancestors')
    # (2) hermetic per-edge replay
    all_outs = all_build_outputs(edges)
    # A statement whose command does nothing (`true`) cannot write its outputs: they are by-products of the statements it
    # directly depends on (meson's FORTRAN_DEP_HACK for ninja < 1.10 re-labels the .mod file written by the compile step).
    # Such outputs count as outputs of those statements: present exactly when one of them is an ancestor (or the no-op
    # statement itself is replayed).
    noop = {id(e) for e in edges if e.command().strip() in ('true', ':')}
    byproducts: T.Dict[int, T.Set[str]] = {}
    for e in edges:
        if id(e) in noop:
            for d in m.deps_of(e):
                byproducts.setdefault(id(d), set()).update(e.all_outs)
    for e in edges:
        anc = m.ancestors(e)
        keep = set()
        for a in edges:
            if id(a) in anc:
                keep.update(a.all_outs)
                keep.update(byproducts.get(id(a), ()))
        if id(e) in noop:
            keep.update(e.all_outs)
        moved = []
        os.makedirs(side, exist_ok=True)
        for i, o in enumerate(all_outs):
            if o in keep:
                continue
            p = os.path.join(bld, o)
            if os.path.lexists(p):
                os.rename(p, os.path.join(side, str(i)))
                moved.append((i, p))
        try:
            rr = refninja.run_edge(e, bld, env)
            got = {o: artifact_digest(os.path.join(bld, o)) for o in e.all_outs if not o.startswith(INTERNAL_PREFIX)}
        finally:
            for o in e.all_outs:
                p = os.path.join(bld, o)
                if os.path.lexists(p) and any(p == mp for _, mp in moved):
                    if os.path.isdir(p) and not os.path.islink(p):
                        shutil.rmtree(p)
                    else:
                        os.unlink(p)
            df = e.get('depfile')
            if df and os.path.lexists(os.path.join(bld, df)) and any(os.path.join(bld, df) == mp for _, mp in moved):
                os.unlink(os.path.join(bld, df))
            for i, p in moved:
                os.rename(os.path.join(side, str(i)), p)
        gen_anc = any(id(a) in anc for a in edges)
        removed_other = sum(1 for _, p in moved if os.path.relpath(p, bld) not in e.all_outs)
        if ev is not None:
            ev.case((case_hash, e.outs), nontrivial=gen_anc and removed_other > 0, cls=cls or f'hermetic/{e.rule.name}',
                    sample={'edge': describe(e), 'ancestors': len(anc), 'outputs_removed': len(moved)})
        if rr.rc != 0:
            kind = e.rule.name
            return Failure(f'hermetic/step-fails:{kind}', case,
                           f'{describe(e)} fails when only the outputs of its declared ancestors are present '
                           f'({len(moved)} other build outputs moved away):\n$ {rr.command}\n{rr.output[-1500:]}')
        for o, dg in got.items():
            if dg != ref[o]:
                return Failure(f'hermetic/output-differs:{e.rule.name}', case,
                               f'{describe(e)} produced a different {o!r} when only its declared ancestors\' outputs were present')
    # (4) schedules
    policies = ['producers-last', 'reverse-decl', 'consumers-first'] + ['random'] * max(1, nsched - 3)
    for k, pol in enumerate(policies[:nsched]):
        order = schedule(m, edges, pol, rnd)
        par = (k % 2 == 1)
        clean_outputs(bld, edges)
        differs = [describe(a) for a, b in zip(order, ref_order) if a is not b]
        if par:
            for wave in waves(m, order, edges):
                with concurrent.futures.ThreadPoolExecutor(max_workers=4) as ex:
                    results = list(ex.map(lambda e: refninja.run_edge(e, bld, env), wave))
                bad = [x for x in results if x.rc != 0]
                if bad:
                    rr = bad[0]
                    return Failure(f'schedule/step-fails:{pol}:parallel', case,
                                   f'under schedule {pol!r} (parallel waves) {describe(rr.edge)} failed:\n$ {rr.command}\n{rr.output[-1500:]}')
        else:
            for e in order:
                rr = refninja.run_edge(e, bld, env)
                if rr.rc != 0:
                    pos = order.index(e)
                    return Failure(f'schedule/step-fails:{pol}', case,
                                   f'under the valid topological order {pol!r} step {pos + 1}/{len(order)} {describe(e)} failed:\n$ {rr.command}\n{rr.output[-1500:]}'
                                   f'\norder so far: {[describe(x) for x in order[:pos + 1]][-6:]}')
        got = digests(bld, edges)
        diff = [o for o in ref if got.get(o) != ref[o]]
        if ev is not None:
            ev.case((case_hash, pol, [x.outs for x in order]), nontrivial=bool(differs), cls=cls or f'schedule/{pol}{"/parallel" if par else ""}',
                    sample={'policy': pol, 'edges': len(order), 'positions_differing_from_reference': len(differs)})
        if diff:
            return Failure(f'schedule/artifact-differs:{pol}', case,
                           f'schedule {pol!r} produced different artifacts than the reference order: {diff[:5]}')
    return None


def model_hash(model: dict) -> str:
    from harness.core import fp
    return fp(model).hex()


def _gen_shard(shard: T.Tuple[int, int, int], ev: Evidence, fails: T.List[Failure]) -> None:
    seed, n, nsched = shard
    work = make_scratch(f'c05-{seed}')
    try:
        strat = projgen.project_models(profile='deps', max_targets=8, odd_names=True, allow_collisions=False)
        campaign(strat, lambda model: check_model(model, os.path.join(work, 'case'), ev, seed, nsched), n, seed, fails)
    finally:
        shutil.rmtree(work, ignore_errors=True)


def _feat_shard(shard: T.Tuple[int, int, dict], ev: Evidence, fails: T.List[Failure]) -> None:
    seed, nsched, case = shard
    work = make_scratch('c05-feat')
    try:
        f = check_feature(case, os.path.join(work, 'case'), ev, seed, nsched)
        ev.event(f'catalogue:{case["feature"]}')
        if f is not None:
            fails.append(f)
    finally:
        shutil.rmtree(work, ignore_errors=True)


def _corpus_shard(shard: T.Tuple[int, int, T.List[dict]], ev: Evidence, fails: T.List[Failure]) -> None:
    seed, nsched, cases = shard
    work = make_scratch('c05-corpus')
    sigs: T.Set[str] = set()
    try:
        for case in cases:
            f = check_corpus(case, os.path.join(work, 'case'), ev, seed, nsched)
            if f is not None and f.sig not in sigs:
                sigs.add(f.sig)
                fails.append(f)
    finally:
        shutil.rmtree(work, ignore_errors=True)


def _shard(shard: T.Tuple[str, T.Any], ev: Evidence, fails: T.List[Failure]) -> None:
    kind, payload = shard
    {'feat': _feat_shard, 'gen': _gen_shard, 'corpus': _corpus_shard}[kind](payload, ev, fails)


def run(ctx: Ctx) -> None:
    per = ctx.n(3, 60)
    nsched = 4 if ctx.quick else 6
    # the catalogue: every project in both tiers; the seed only selects the option sets (featproj.cases).  The hermetic
    # replay is what finds a missing edge at once; quick runs one further schedule per catalogue project, thorough six.
    fsched = 1 if ctx.quick else 6
    cs = featproj.cases(ctx.seed, ctx.tier)
    gen = [('gen', (s, per, nsched)) for s in shard_seeds(ctx, 16)]
    feat = [('feat', (ctx.seed, fsched, c)) for c in featproj.by_cost(cs)]
    ctx.ev.extra['catalogue_cases'] = len(cs)
    # one pool for both kinds: the 16 (long) generated-model shards start first, the catalogue projects - one small task
    # each, most expensive first - fill the cores as they become free
    # the repository's own test projects, really built: a seed-chosen handful in the quick tier, all of them (plain, flat
    # layout, both-libraries/unity) in the thorough tier
    projs = corpus_projects()
    variants: T.List[T.List[str]] = [[], ['--layout=flat'], ['-Ddefault_library=both', '-Dunity=on', '-Dunity_size=2']]
    rnd = random.Random(f'c05-corpus:{ctx.seed}')
    if ctx.quick:
        rnd.shuffle(projs)
        cc = [{'corpus': p, 'args': rnd.choice(variants)} for p in projs[:24]]
        nsh = 8
    else:
        cc = [{'corpus': p, 'args': v} for p in projs for v in variants]
        nsh = 48
    ctx.ev.extra['corpus_cases'] = len(cc)
    corpus = [('corpus', (ctx.seed, 2 if ctx.quick else 3, cc[i::nsh])) for i in range(nsh) if cc[i::nsh]]
    pmap(ctx, _shard, gen + feat + corpus)


def replay(ctx: Ctx, case: T.Any, doc: dict) -> T.Optional[Failure]:
    if isinstance(case, dict) and 'feature' in case:
        return check_feature(case, os.path.join(ctx.scratch, 'replay'), None, doc.get('seed', 1), 6)
    if isinstance(case, dict) and 'corpus' in case:
        return check_corpus(case, os.path.join(ctx.scratch, 'replay'), None, doc.get('seed', 1), 4)
    return check_model(case, os.path.join(ctx.scratch, 'replay'), None, doc.get('seed', 1), 6)
