"""C12 - `meson test` runs each test once, isolates serial tests and reports truthfully.

Generated: projects whose tests are all the same Python script `t.py id dur mode param`; the script itself
appends `S id iteration pid t_mono_ns` / `E ...` records to an event log (O_APPEND, one write() each,
CLOCK_MONOTONIC which is system wide), sleeps, and terminates the way the test specification says.
`meson setup --backend=none` once (in-process), then `meson test --no-rebuild ...` as fresh subprocesses.

Oracle (property sentence by sentence, see reports/C12.md): exactly-once per repetition / at most once when
the run may be cut short, serial exclusion and job bound from overlap of self-reported intervals,
classification table vs testlog.json, printed totals vs testlog.json, exit status, --slice partition.
Never a wall-clock oracle: times are only data recorded by the test processes themselves.
"""
from __future__ import annotations

import glob
import json
import os
import random
import re
import shutil
import signal
import time
import typing as T

from harness.core import Ctx, Evidence, Failure, HarnessError, fp, hyp_settings, make_scratch, minimize_list, pmap, shard_seeds
from harness.mesondrv import PY, Result, run_inproc, run_sub, write_tree

LEVEL = 'exploration'
RULE = ('Hypothesis-generated test sets (1-12 tests quick / 1-24 thorough: parallel/serial, priority, duration 0-150 ms, '
        'exit status 0/1/2/77/99/127/255, self-kill by signal, a 70000-character line without line break on stdout or stderr, binary output, hang past the timeout (SIGTERM-cooperative or SIGTERM-ignoring), '
        'TAP streams, should_fail/expected_fail, timeout, suites, env, workdir) x `meson test` invocations '
        '(--num-processes 1-8 by flag or MESON_NUM_PROCESSES/MESON_TESTTHREADS, --repeat 1-3, --maxfail 0-3, --suite/--no-suite, '
        'positional names and wildcards, --slice, --setup, -t, output flags) plus seeded deterministic schedule probes. '
        'One evaluation = one real `meson test` run (or one complete --slice i/n partition listing). '
        'non-trivial = (>=1 serial and >=2 parallel tests selected and J>=2) or a run that may be cut short '
        '(--maxfail / failure under --repeat) or a partition with n>=2 slices; distinct by fingerprint of (test set, invocation options).')
ASSUMPTIONS = [
    'overlap of two self-reported [start,end] intervals (CLOCK_MONOTONIC, both stamps taken by the test process itself) is a sound witness that both processes were running at a common instant; absence of overlap proves nothing',
    'the summary has no line for ERROR: the "Fail:" line is compared with FAIL+ERROR (+INTERRUPT after --maxfail); absent lines mean 0',
    'exit 77 together with should_fail/expected_fail is under-specified: SKIP and EXPECTEDFAIL are both accepted',
    'an invalid TAP stream (plan mismatch, Bail out!) may be FAIL or ERROR (both are failures)',
    'a run "may be cut short" when --repeat>1 and some selected test can fail, or --maxfail=M>0 and at least M selected tests can fail; then only at-most-once is demanded',
    'a testlog.json / --list entry is attributed to the unique test whose name occurs in it as a whole word',
]

PROJ = 'c12proj'
SUITES = ['sA', 'sB', 'sC']
SETUPS = {'su1': {'exclude': []}, 'su2': {'exclude': ['sB']}}
BAD = {'FAIL', 'ERROR', 'TIMEOUT', 'UNEXPECTEDPASS'}
NEVER_FINISHES = 'run/meson-test-never-finishes'
HANG_S = 12          # a hanger that is never killed ends by itself after this many seconds (and then reports exit 0)

T_PY = r'''
import os, signal, sys, time
tid, dur, mode, par = sys.argv[1], int(sys.argv[2]), sys.argv[3], sys.argv[4]
noise = sys.argv[5] if len(sys.argv) > 5 else ''
it = os.environ.get('MESON_TEST_ITERATION', '?')
pid = os.getpid()
fd = os.open(os.environ['C12_LOG'], os.O_WRONLY | os.O_APPEND | os.O_CREAT, 0o644)
state = [0]
def log(kind):
    os.write(fd, ('%s %s %s %d %d\n' % (kind, tid, it, pid, time.monotonic_ns())).encode())
def on_term(signum, frame):
    if state[0] == 1:
        state[0] = 2
        log('E')
    os._exit(1)
if mode == 'hangstub':
    signal.signal(signal.SIGTERM, signal.SIG_IGN)
else:
    signal.signal(signal.SIGTERM, on_term)
state[0] = 1
log('S')
if mode in ('hang', 'hangstub'):
    end = time.monotonic() + HANG_S
    while time.monotonic() < end:
        time.sleep(0.05)
    state[0] = 2
    log('E')
    os._exit(0)
time.sleep(dur / 1000.0)
if noise == 'longline':        # what a test prints is its own business: a long progress line, a blob without line break
    sys.stdout.write('.' * 70000)
    sys.stdout.flush()
elif noise == 'longerr':
    sys.stderr.write('#' * 70000)
    sys.stderr.flush()
elif noise == 'binary':
    os.write(1, bytes(range(256)) * 4)
if mode == 'tap':
    sys.stdout.write(TAP[par])
    sys.stdout.flush()
state[0] = 2
log('E')
if mode == 'exit':
    os._exit(int(par))
if mode == 'signal':
    os.kill(pid, int(par))
    time.sleep(5)
    os._exit(1)
os._exit(0)
'''

TAP_STREAMS = {
    'pass': '1..2\nok 1 - a\nok 2 - b\n',
    'fail': '1..2\nok 1 - a\nnot ok 2 - b\n',
    'skipall': '1..0 # SKIP nothing to do here\n',
    'badplan': '1..3\nok 1\nok 2\n',
    'bail': '1..2\nok 1\nBail out! giving up\n',
}


# ---------------------------------------------------------------------------
# model (from the documentation; see reports/C12.md for the sentence behind each line)

def allowed_results(t: dict) -> T.Set[str]:
    """Set of classifications the documentation permits for one run of test `t`."""
    mode, par, xf = t['mode'], t['par'], bool(t['xf'])
    if mode in ('hang', 'hangstub'):
        return {'TIMEOUT'}                      # test.yaml timeout: "a test that exceeds its time limit is always considered failed"
    if mode == 'exit':
        rc = int(par)
        if rc == 0:
            return {'UNEXPECTEDPASS'} if xf else {'OK'}
        if rc == 77:
            return {'SKIP', 'EXPECTEDFAIL'} if xf else {'SKIP'}
        if rc == 99:
            return {'ERROR'}                    # Unit-tests.md: "report these tests as ERROR, ignoring the setting of should_fail"
        return {'EXPECTEDFAIL'} if xf else {'FAIL'}
    if mode == 'signal':
        return {'EXPECTEDFAIL'} if xf else {'FAIL'}
    if mode == 'tap':
        if par == 'pass':
            return {'UNEXPECTEDPASS'} if xf else {'OK'}
        if par == 'fail':
            return {'EXPECTEDFAIL'} if xf else {'FAIL'}
        if par == 'skipall':
            return {'SKIP'}
        return {'ERROR', 'FAIL'}
    raise HarnessError(f'unknown mode {mode}')


def in_suites(t: dict, specs: T.Sequence[str]) -> bool:
    for sp in specs:
        name = sp.split(':', 1)[1] if ':' in sp else sp
        if name in t['suites']:
            return True
    return False


def name_match(t: dict, pat: str) -> bool:
    import fnmatch
    if ':' in pat:
        prj, pat = pat.split(':', 1)
        if prj != PROJ:
            return False
    return fnmatch.fnmatchcase(t['name'], pat)


def suite_selection(tests: T.List[dict], inv: dict) -> T.List[dict]:
    sel = []
    for t in tests:
        if in_suites(t, inv['nosuite']):
            continue                            # --no-suite: "Do not run tests belonging to the given suite."
        if inv['suite']:
            if not in_suites(t, inv['suite']):  # --suite: "Only run tests belonging to the given suite." (overrides setup excludes)
                continue
        elif inv['setup'] and in_suites(t, SETUPS[inv['setup']]['exclude']):
            continue                            # add_test_setup(exclude_suites:)
        sel.append(t)
    return sel


def selection(tests: T.List[dict], inv: dict) -> T.List[dict]:
    sel = suite_selection(tests, inv)
    if inv['names']:
        sel = [t for t in sel if any(name_match(t, p) for p in inv['names'])]
    return sel


# ---------------------------------------------------------------------------
# project generation

def _q(s: str) -> str:
    return "'" + s.replace('\\', '\\\\').replace("'", "\\'") + "'"


def render_project(tests: T.List[dict]) -> T.Dict[str, str]:
    lines = [f"project('{PROJ}')", f'py = find_program({_q(PY)})', "t = files('t.py')"]
    for t in tests:
        kw = []
        if not t['parallel']:
            kw.append('is_parallel: false')
        elif t.get('par_explicit'):
            kw.append('is_parallel: true')
        if t['prio']:
            kw.append(f"priority: {t['prio']}")
        if t['suites']:
            kw.append('suite: ' + (_q(t['suites'][0]) if len(t['suites']) == 1 else '[' + ', '.join(_q(s) for s in t['suites']) + ']'))
        if t['timeout'] is not None:
            kw.append(f"timeout: {t['timeout']}")
        if t['xf']:
            kw.append(f"{t['xf']}: true")
        if t['env']:
            kw.append("env: ['C12_TEST_ENV=1']")
        if t['workdir']:
            kw.append('workdir: meson.current_source_dir()')
        if t['mode'] == 'tap' or t.get('tapproto'):
            kw.append("protocol: 'tap'")
        args = f"['-S', '-E', t, {_q(t['name'])}, {_q(str(t['dur']))}, {_q(t['mode'])}, {_q(str(t['par']))}, {_q(t.get('noise', ''))}]"
        lines.append(f"test({_q(t['name'])}, py, args: {args}" + ''.join(', ' + k for k in kw) + ')')
    lines.append("add_test_setup('su1', env: ['C12_SETUP=su1'])")
    lines.append("add_test_setup('su2', exclude_suites: ['sB'], timeout_multiplier: 2)")
    # a default setup (environment only): a run without --setup is still "the" run whose log is testlog.json
    lines.append("add_test_setup('sudef', is_default: true, env: ['C12_DEFAULT_SETUP=1'])")
    script = f'HANG_S = {HANG_S}\nTAP = {TAP_STREAMS!r}\n' + T_PY
    return {'meson.build': '\n'.join(lines) + '\n', 't.py': script}


def norm_test(t: dict, idx: int) -> dict:
    """Make one (possibly shrunk/hand-written) test spec complete and inside the documented domain."""
    o = {
        'name': t.get('name') or 't%02d' % idx,
        'parallel': bool(t.get('parallel', True)),
        'prio': int(t.get('prio', 0)),
        'dur': max(0, min(400, int(t.get('dur', 0)))),
        'mode': t.get('mode', 'exit'),
        'par': t.get('par', 0),
        'xf': t.get('xf', '') or '',
        'timeout': t.get('timeout'),
        'suites': [s for s in t.get('suites', []) if s in SUITES],
        'env': bool(t.get('env', False)),
        'workdir': bool(t.get('workdir', False)),
        'tapproto': bool(t.get('tapproto', False)),
        'par_explicit': bool(t.get('par_explicit', False)),
        'taprc': int(t.get('taprc', 0) or 0),
        'noise': t.get('noise', '') if t.get('mode', 'exit') in ('exit', 'signal') else '',
    }
    if o['mode'] in ('hang', 'hangstub'):
        o['timeout'] = 1
        o['par'] = '-'
    else:
        o['tapproto'] = False
        if o['timeout'] is not None and 0 < o['timeout'] < 100:
            o['timeout'] = 100     # a finite limit must be far away from the 0-150 ms the script sleeps (machine may be loaded)
    return o


def gen_exclusions(t: dict, ev: T.Optional[Evidence]) -> dict:
    """Regions the docs leave undefined: rewrite by construction and count."""
    if t['mode'] == 'tap' and t['xf'] and t['par'] in ('skipall', 'badplan', 'bail'):
        if ev is not None:
            ev.exclude('should_fail/expected_fail with a TAP stream that skips everything or is invalid (docs silent): xf dropped')
        t = dict(t, xf='')
    if t['mode'] == 'tap' and t.get('taprc'):
        if ev is not None:
            ev.exclude('non-zero exit status (77 etc.) under protocol tap (docs silent): exit status forced to 0')
        t = dict(t, taprc=0)
    return t


# ---------------------------------------------------------------------------
# running

class Run:
    __slots__ = ('tid', 'it', 'pid', 's', 'e')

    def __init__(self, tid: str, it: str, pid: int, s: int):
        self.tid, self.it, self.pid, self.s = tid, it, pid, s
        self.e: T.Optional[int] = None

    def span(self) -> T.Tuple[int, int]:
        return self.s, (self.e if self.e is not None else self.s)


def parse_events(path: str) -> T.List[Run]:
    runs: T.List[Run] = []
    open_by_pid: T.Dict[T.Tuple[int, str, str], Run] = {}
    if not os.path.exists(path):
        return runs
    with open(path, encoding='ascii', errors='replace') as f:
        for line in f:
            p = line.split()
            if len(p) != 5 or p[0] not in ('S', 'E'):
                raise HarnessError(f'garbled event log line {line!r}')
            kind, tid, it, pid, ts = p[0], p[1], p[2], int(p[3]), int(p[4])
            key = (pid, tid, it)
            if kind == 'S':
                r = Run(tid, it, pid, ts)
                runs.append(r)
                open_by_pid[key] = r
            else:
                r0 = open_by_pid.get(key)
                if r0 is not None and r0.e is None and ts >= r0.s:
                    r0.e = ts
    return runs


def overlap(a: Run, b: Run) -> bool:
    a0, a1 = a.span()
    b0, b1 = b.span()
    return a0 < b1 and b0 < a1


def max_open(runs: T.List[Run]) -> T.Tuple[int, T.List[Run]]:
    evs = []
    for r in runs:
        s, e = r.span()
        if e > s:
            evs.append((s, 1, r))
            evs.append((e, 0, r))
    evs.sort(key=lambda x: (x[0], x[1]))
    cur: T.List[Run] = []
    best, witness = 0, []  # type: int, T.List[Run]
    for _, k, r in evs:
        if k == 1:
            cur.append(r)
            if len(cur) > best:
                best, witness = len(cur), list(cur)
        else:
            cur.remove(r)
    return best, witness


_WORD = re.compile(r'\bt\d\d\b')
_LISTLINE = re.compile(r':t\d\d$')
_SUMMARY = re.compile(r'^(Ok|Expected Fail|Fail|Unexpected Pass|Skipped|Ignored|Timeout):\s+(\d+)\s*$', re.M)


def names_in(text: str, known: T.Set[str]) -> T.List[str]:
    return [m for m in _WORD.findall(text) if m in known]


def inv_args(inv: dict, with_slice: bool = True) -> T.Tuple[T.List[str], T.Dict[str, str]]:
    args: T.List[str] = []
    env: T.Dict[str, str] = {}
    for s in inv['suite']:
        args += ['--suite', s]
    for s in inv['nosuite']:
        args += ['--no-suite', s]
    if inv['setup']:
        args += ['--setup', inv['setup']]
    if with_slice and inv['slice']:
        args += ['--slice', '%d/%d' % tuple(inv['slice'])]
    return args, env


def run_args(inv: dict) -> T.Tuple[T.List[str], T.Dict[str, str]]:
    args, env = inv_args(inv)
    j = inv['j']
    src = inv['jsrc']
    if src == 'flag':
        args += ['--num-processes', str(j)]
    elif src == 'flagj':
        args += ['-j', str(j)]
    elif src == 'env_np':
        env['MESON_NUM_PROCESSES'] = str(j)
    elif src == 'env_tt':
        env['MESON_TESTTHREADS'] = str(j)
    else:  # both: "If both environment variables are present, MESON_NUM_PROCESSES prevails."
        env['MESON_NUM_PROCESSES'] = str(j)
        env['MESON_TESTTHREADS'] = str(j + 3)
    if inv['repeat'] != 1 or inv.get('repeat_explicit'):
        args += ['--repeat', str(inv['repeat'])]
    if inv['maxfail']:
        args += ['--maxfail', str(inv['maxfail'])]
    if inv['tmul'] is not None:
        args += ['-t', str(inv['tmul'])]
    for fl in inv['flags']:
        args.append(fl)
    return args, env


def list_tests(bld: str, inv: dict, slc: T.Optional[T.Tuple[int, int]], known: T.Set[str]) -> T.Tuple[T.Optional[T.List[str]], Result]:
    args, env = inv_args(inv, with_slice=False)
    if slc:
        args += ['--slice', '%d/%d' % slc]
    r = run_sub(['test', '--no-rebuild', '--list'] + args + inv['names'], cwd=bld, env=env, timeout=300)
    if r.rc != 0:
        return None, r
    out = []
    for line in r.out.splitlines():
        if line.startswith('WARNING') or not _LISTLINE.search(line.rstrip()):
            continue                       # e.g. "WARNING: *:t04 test name is redundant and was not used"
        hit = names_in(line, known)
        if len(hit) == 1:
            out.append(hit[0])
        elif len(hit) > 1:
            raise HarnessError(f'ambiguous --list line {line!r}')
    return out, r


def proc_is_ours(pid: int, work: str) -> bool:
    """Is `pid` (still) a test process of the project under `work`?  (pid numbers are reused quickly here: look at the command line)"""
    try:
        with open(f'/proc/{pid}/cmdline', 'rb') as f:
            cl = f.read()
    except OSError:
        return False
    return work.encode() in cl and b't.py' in cl


def setup_project(tests: T.List[dict], work: str) -> str:
    src, bld = os.path.join(work, 'src'), os.path.join(work, 'bld')
    shutil.rmtree(work, ignore_errors=True)
    os.makedirs(src)
    write_tree(src, render_project(tests))
    r = run_inproc(['setup', '--backend=none', bld, src])
    if r.rc != 0 or not os.path.exists(os.path.join(bld, 'meson-private', 'meson_test_setup.dat')):
        shutil.rmtree(bld, ignore_errors=True)
        r = run_sub(['setup', '--backend=none', bld, src])
        if r.rc != 0:
            raise HarnessError(f'generated project does not configure (generator unsound): {r!r}\n' + render_project(tests)['meson.build'])
    return bld


def norm_inv(inv: dict, tests: T.List[dict], ev: T.Optional[Evidence]) -> dict:
    o = {
        'j': max(1, min(8, int(inv.get('j', 1)))),
        'jsrc': inv.get('jsrc', 'flag'),
        'repeat': max(1, min(3, int(inv.get('repeat', 1)))),
        'repeat_explicit': bool(inv.get('repeat_explicit', False)),
        'maxfail': max(0, min(3, int(inv.get('maxfail', 0)))),
        'suite': list(inv.get('suite', [])),
        'nosuite': list(inv.get('nosuite', [])),
        'names': list(inv.get('names', [])),
        'slice': list(inv['slice']) if inv.get('slice') else None,
        'setup': inv.get('setup') or None,
        'tmul': inv.get('tmul', 0.3),
        'flags': [f for f in inv.get('flags', [])],
        'slice_ns': sorted(set(int(n) for n in inv.get('slice_ns', []))),
        'list_only': bool(inv.get('list_only', False)),
    }
    if '--quiet' in o['flags'] and '--verbose' in o['flags']:
        o['flags'].remove('--verbose')
    # positional names must match something inside the suite selection (otherwise: documented error) -> drop + count
    ssel = suite_selection(tests, o)
    keep = [p for p in o['names'] if any(name_match(t, p) for t in ssel)]
    if len(keep) != len(o['names']) and ev is not None:
        ev.exclude('positional test name matching nothing in the suite selection (documented to be an error)', len(o['names']) - len(keep))
    o['names'] = keep
    nsel = len(selection(tests, o))
    if o['slice'] and (o['slice'][1] > nsel or o['slice'][0] > o['slice'][1] or o['slice'][0] < 1):
        if ev is not None:
            ev.exclude('--slice i/n with n larger than the selection (rejected with an error by design)')
        o['slice'] = None
    ns = [n for n in o['slice_ns'] if 1 <= n <= nsel]
    if len(ns) != len(o['slice_ns']) and ev is not None:
        ev.exclude('--slice i/n with n larger than the selection (rejected with an error by design)', len(o['slice_ns']) - len(ns))
    o['slice_ns'] = ns
    return o


KNOWN_MAXFAIL = ('--maxfail can trip with J>=2 and >=2 tests selected: manifestations of the known finding '
                 'maxfail/started-test-not-reported (cancelled test vanishes from the report, asyncio "Event loop is closed" noise) are masked')


def check_invocation(tests: T.List[dict], inv: dict, bld: str, work: str, ev: T.Optional[Evidence], tag: str,
                     strict: bool = False) -> T.Optional[Failure]:
    case: dict = {'tests': tests, 'inv': inv}
    if strict:
        case['strict'] = True
    by_name = {t['name']: t for t in tests}
    known = set(by_name)
    model_sel = selection(tests, inv)
    sel_names = sorted(t['name'] for t in model_sel)

    # -- which tests does this invocation select (slice contents are implementation-defined: ask --list)
    run_names = sel_names
    if inv['slice']:
        listed, r = list_tests(bld, inv, tuple(inv['slice']), known)
        if listed is None:
            return Failure('slice/list-rejected', case, f'`meson test --list --slice {inv["slice"]}` failed on a selection of {len(sel_names)} tests: {r!r}')
        if not set(listed) <= set(sel_names) or len(set(listed)) != len(listed):
            return Failure('slice/not-subset', case, f'--slice {inv["slice"]} lists {listed}, selection is {sel_names}')
        run_names = sorted(listed)
    run_set = set(run_names)
    allowed = {n: allowed_results(by_name[n]) for n in known}
    maybe_bad = [n for n in run_names if allowed[n] & BAD]
    surely_bad = [n for n in run_names if allowed[n] <= BAD]
    R, M, J = inv['repeat'], inv['maxfail'], inv['j']
    cut_short = (R > 1 and bool(maybe_bad)) or (M > 0 and len(maybe_bad) >= M)
    hangers = {n for n in known if by_name[n]['mode'] in ('hang', 'hangstub')}
    # Known genuine defect (reports/C12.md): when --maxfail trips, the other running tests are cancelled at whatever
    # await they are in; only the plain wait handles that, so e.g. a test that is just being killed for its timeout
    # is dropped without being reported.  The class is kept in the campaign, its two manifestations are masked;
    # the saved regression case replays it with strict=True.
    masked = (not strict) and M > 0 and len(maybe_bad) >= M and J >= 2 and len(run_names) >= 2
    if masked and ev is not None:
        ev.exclude(KNOWN_MAXFAIL)

    # -- run
    log = os.path.join(work, f'events-{tag}.log')
    for p in glob.glob(os.path.join(bld, 'meson-logs', 'testlog*')) + [log]:
        try:
            os.unlink(p)
        except OSError:
            pass
    args, env = run_args(inv)
    env['C12_LOG'] = log
    cmd = ['test', '--no-rebuild'] + args + inv['names']
    import subprocess as _sp
    try:
        r = run_sub(cmd, cwd=bld, env=env, timeout=300)
    except _sp.TimeoutExpired:
        # every generated test ends by itself after at most HANG_S seconds: a `meson test` that is still there after five minutes
        # waits for something that will never come.  Run once more (the first run may have met an overloaded machine) before it counts.
        for p in glob.glob(os.path.join(bld, 'meson-logs', 'testlog*')) + [log]:
            try:
                os.unlink(p)
            except OSError:
                pass
        try:
            r = run_sub(cmd, cwd=bld, env=env, timeout=600)
        except _sp.TimeoutExpired:
            started = sorted({run.tid for run in parse_events(log)}) if os.path.exists(log) else []
            return Failure(NEVER_FINISHES, case,
                           f'`meson {" ".join(cmd)}` did not finish within 300 s and, started again, within 600 s (every test of the set ends by '
                           f'itself after at most {HANG_S} s); tests that were started: {started}; selected (model): {run_names}')
    runs = parse_events(log)
    marker = work
    ctxmsg = f'\ncommand: meson {" ".join(cmd)} env={ {k: v for k, v in env.items() if k != "C12_LOG"} }\nselected (model): {run_names}\n'

    def fail(sig: str, msg: str) -> Failure:
        return Failure(sig, case, msg + ctxmsg + 'stdout tail: ' + r.out[-1500:] + ('\nstderr tail: ' + r.err[-600:] if r.err else ''))

    # leftovers (checked first so that nothing is left running whatever else fails)
    alive = []
    for run in runs:
        if proc_is_ours(run.pid, marker):
            deadline = time.monotonic() + 3.0    # grace only to avoid reporting a process that is already dying
            while time.monotonic() < deadline and proc_is_ours(run.pid, marker):
                time.sleep(0.05)
            if proc_is_ours(run.pid, marker):
                alive.append(run)
                try:
                    os.kill(run.pid, signal.SIGKILL)
                except OSError:
                    pass
    gc_noise = 'Exception ignored in' in r.err and 'Event loop is closed' in r.err
    if r.unhandled and not gc_noise:
        return fail('run/unhandled-exception', 'meson test printed a traceback')

    nontrivial_sched = J >= 2 and sum(1 for n in run_names if not by_name[n]['parallel']) >= 1 and \
        sum(1 for n in run_names if by_name[n]['parallel']) >= 2
    if ev is not None:
        cls = 'cut-short-possible' if cut_short else ('serial+parallel,J>=2' if nontrivial_sched else
                                                     ('J=1' if J == 1 else 'other'))
        ev.case({'tests': tests, 'inv': {k: v for k, v in inv.items() if k != 'slice_ns'}}, nontrivial=cut_short or nontrivial_sched, cls=cls,
                sample={'tests': [[t['name'], 'par' if t['parallel'] else 'SERIAL', t['dur'], t['mode'], t['par'], t['xf']] for t in tests],
                        'inv': inv})
        if R > 1:
            ev.event('f:repeat>1')
        if M:
            ev.event('f:maxfail')
        if inv['suite'] or inv['nosuite']:
            ev.event('f:suite-selection')
        if inv['names']:
            ev.event('f:names')
        if inv['slice']:
            ev.event('f:slice-run')
        if inv['setup']:
            ev.event('f:setup')
        if inv['jsrc'].startswith('env'):
            ev.event('f:jobs-from-env')
        if hangers & run_set:
            ev.event('f:timeout-test-selected')
        for n in run_names:
            ev.event('t:' + by_name[n]['mode'] + (':' + str(by_name[n]['par']) if by_name[n]['mode'] in ('exit', 'tap') else '') + ('+xf' if by_name[n]['xf'] else ''))

    # (1) exactly once per repetition
    count: T.Dict[T.Tuple[str, str], int] = {}
    for run in runs:
        if run.tid not in known:
            raise HarnessError(f'event for unknown test {run.tid}')
        count[(run.tid, run.it)] = count.get((run.tid, run.it), 0) + 1
    iters = [str(i) for i in range(1, R + 1)]
    for (tid, it), c in sorted(count.items()):
        if tid not in run_set:
            return fail('once/unselected-test-ran', f'test {tid} is not selected but was started {c} time(s) (iteration {it})')
        if it not in iters:
            return fail('once/bad-iteration-label', f'test {tid} ran with MESON_TEST_ITERATION={it!r}, --repeat is {R}')
        if c > 1:
            return fail('once/ran-twice', f'test {tid} was started {c} times in repetition {it}')
    if not cut_short:
        for tid in run_names:
            for it in iters:
                c = count.get((tid, it), 0)
                if c == 0 and tid not in hangers:   # a hanger may be killed before it could log its start
                    return fail('once/not-run', f'selected test {tid} was never started in repetition {it} (no failure/--maxfail could have cut the run short)')

    # (2) serial exclusion, (3) job bound
    for a in runs:
        if by_name[a.tid]['parallel']:
            continue
        for b in runs:
            if b is not a and overlap(a, b):
                return fail('serial/overlap', f'non-parallel test {a.tid} (pid {a.pid}) was alive during {a.span()} while test {b.tid} (pid {b.pid}) was alive during {b.span()}')
    mo, wit = max_open(runs)
    if mo > J:
        return fail('jobs/exceeded', f'{mo} tests were running at one instant with {J} job(s) requested via {inv["jsrc"]}: ' +
                    ', '.join(f'{w.tid}{w.span()}' for w in wit))

    # (4) classification vs testlog.json
    logs = [p for p in glob.glob(os.path.join(bld, 'meson-logs', 'testlog*.json')) if not p.endswith('.junit.xml')]
    entries: T.List[T.Tuple[str, str]] = []
    if not run_names:
        if runs:
            return fail('once/unselected-test-ran', 'nothing is selected but tests ran')
        if r.rc != 0:
            return fail('exit/nonzero-without-bad', f'nothing selected, exit status {r.rc}')
        return None
    if len(logs) != 1:
        return fail('testlog/missing', f'expected one meson-logs/testlog*.json, found {logs}')
    if not inv['setup'] and os.path.basename(logs[0]) != 'testlog.json':
        return fail('testlog/name', f'a run without --setup wrote {os.path.basename(logs[0])}, not testlog.json')
    with open(logs[0], encoding='utf-8') as f:
        for line in f:
            if not line.strip():
                continue
            d = json.loads(line)
            hit = names_in(d['name'], known)
            if len(hit) != 1:
                raise HarnessError(f'cannot attribute testlog entry {d["name"]!r}')
            entries.append((hit[0], d['result']))
    per: T.Dict[str, T.List[str]] = {}
    for n, res in entries:
        per.setdefault(n, []).append(res)
    for n, ress in sorted(per.items()):
        if n not in run_set:
            return fail('testlog/unselected-test', f'testlog.json reports unselected test {n}: {ress}')
        for res in ress:
            ok = res in allowed[n] or (cut_short and M > 0 and res == 'INTERRUPT')
            if not ok:
                t = by_name[n]
                return fail(f'classify/{t["mode"]}:{t["par"]}{"+xf" if t["xf"] else ""}->{res}',
                            f'test {n} ({t["mode"]} {t["par"]}, {t["xf"] or "no should_fail"}) is reported as {res}; documented: {sorted(allowed[n])}')
        if len(ress) > R:
            return fail('testlog/too-many-entries', f'test {n} has {len(ress)} testlog entries with --repeat {R}')
    if not masked:
        for n in run_names:
            started = sum(c for (tid, _), c in count.items() if tid == n)
            if started > len(per.get(n, [])):
                sig = 'maxfail/started-test-not-reported' if (M > 0 and cut_short) else 'testlog/started-test-not-reported'
                ended = sum(1 for x in runs if x.tid == n and x.e is not None)
                still = [x.pid for x in alive if x.tid == n]
                return fail(sig, f'test {n} was started {started} time(s) (it logged its own start; {ended} of these also logged their end) but testlog.json has {len(per.get(n, []))} '
                            f'entr(y/ies) for it and the printed totals do not count it' + (f'; its process {still} was still running after meson test had returned' if still else '') + '; testlog.json tally: '
                            f'{ {res: sum(1 for _, x in entries if x == res) for res in sorted({x for _, x in entries})} }')
    if not cut_short:
        for n in run_names:
            if len(per.get(n, [])) != R:
                return fail('testlog/entry-count', f'test {n}: {len(per.get(n, []))} testlog.json entries, expected {R} (one per repetition)')
    # TIMEOUT => the process is gone
    for run in alive:
        if run.tid in hangers and not masked:
            return fail('timeout/process-survives', f'test {run.tid} timed out but its process {run.pid} is still running after meson test returned')

    # (5) printed totals == tally of testlog.json
    tally: T.Dict[str, int] = {}
    for _, res in entries:
        tally[res] = tally.get(res, 0) + 1
    printed = {k: int(v) for k, v in _SUMMARY.findall(r.out)}
    if not printed:
        return fail('summary/missing', 'no summary totals were printed')
    want = {'Ok': tally.get('OK', 0), 'Expected Fail': tally.get('EXPECTEDFAIL', 0),
            'Fail': tally.get('FAIL', 0) + tally.get('ERROR', 0) + tally.get('INTERRUPT', 0),
            'Unexpected Pass': tally.get('UNEXPECTEDPASS', 0), 'Skipped': tally.get('SKIP', 0),
            'Ignored': tally.get('IGNORED', 0), 'Timeout': tally.get('TIMEOUT', 0)}
    for k, v in want.items():
        if printed.get(k, 0) != v:
            return fail(f'summary/mismatch:{k.replace(" ", "")}', f'printed "{k}: {printed.get(k, 0)}" but testlog.json tallies {v} ({tally}); printed={printed}')

    # (6) exit status
    bad_seen = any(res in BAD or res == 'INTERRUPT' for _, res in entries)
    if bad_seen and r.rc == 0:
        return fail('exit/zero-with-bad:' + '+'.join(sorted({res for _, res in entries if res in BAD or res == 'INTERRUPT'})),
                    f'exit status 0 although testlog.json holds {tally}')
    if not bad_seen and r.rc != 0:
        return fail('exit/nonzero-without-bad', f'exit status {r.rc} although no test failed: {tally}')
    if surely_bad and r.rc == 0:
        return fail('exit/zero-with-bad:model', f'exit status 0 although {surely_bad} must fail')
    if gc_noise and not masked:
        return fail('run/subprocess-transport-leak', 'meson test left a test subprocess transport unclosed (asyncio destructor traceback on stderr)')
    return None


def check_partition(tests: T.List[dict], inv: dict, n: int, bld: str, ev: T.Optional[Evidence]) -> T.Optional[Failure]:
    case = {'tests': tests, 'inv': dict(inv, slice_ns=[n])}
    known = {t['name'] for t in tests}
    sel_names = sorted(t['name'] for t in selection(tests, inv))
    full, r = list_tests(bld, inv, None, known)
    if ev is not None:
        ev.case({'tests': tests, 'inv': inv, 'partition': n}, nontrivial=n >= 2, cls='slice-partition',
                sample={'selection': sel_names, 'n': n, 'suite': inv['suite'], 'nosuite': inv['nosuite'], 'names': inv['names'], 'setup': inv['setup']})
    if full is None:
        return Failure('select/list-rejected', case, f'--list failed: {r!r}')
    if sorted(full) != sel_names:
        return Failure('select/list-mismatch', case, f'`meson test --list` with suite={inv["suite"]} no-suite={inv["nosuite"]} setup={inv["setup"]} names={inv["names"]} '
                       f'lists {sorted(full)}; documented selection: {sel_names}')
    parts = []
    for i in range(1, n + 1):
        p, r = list_tests(bld, inv, (i, n), known)
        if p is None:
            return Failure('slice/list-rejected', case, f'--slice {i}/{n} rejected for a selection of {len(sel_names)} tests: {r!r}')
        parts.append(p)
    flat = [x for p in parts for x in p]
    if sorted(flat) != sel_names:
        missing = sorted(set(sel_names) - set(flat))
        dup = sorted({x for x in flat if flat.count(x) > 1})
        return Failure('slice/not-partition', case, f'--slice i/{n} for i=1..{n} gives {parts}: missing {missing}, repeated {dup}; selection is {sel_names}')
    return None


def check_case(case: dict, work: str, ev: T.Optional[Evidence]) -> T.Optional[Failure]:
    """case = {'tests': [...], 'invs': [...]} (or 'inv': {...})."""
    strict = bool(case.get('strict', False))
    tests = [gen_exclusions(norm_test(t, i), ev) for i, t in enumerate(case['tests'])]
    has_hang = any(t['mode'] in ('hang', 'hangstub') for t in tests)
    if has_hang:
        # -t 0.25..0.4 is used to make the hangers cheap; every other test then needs a limit that a loaded
        # machine cannot reach (300 s x 0.25), or none at all
        tests = [t if t['mode'] in ('hang', 'hangstub') or (t['timeout'] is not None and (t['timeout'] <= 0 or t['timeout'] >= 300))
                 else dict(t, timeout=300) for t in tests]
    names = [t['name'] for t in tests]
    if len(set(names)) != len(names) or not tests:
        raise HarnessError('bad case: empty or duplicate test names')
    invs = case.get('invs') or [case['inv']]
    bld = setup_project(tests, work)
    try:
        for k, inv0 in enumerate(invs):
            inv = norm_inv(inv0, tests, ev)
            if not has_hang and inv['tmul'] is not None and inv['tmul'] < 1:
                inv['tmul'] = None if inv0.get('no_t') else inv['tmul'] * 10
            if not inv.get('list_only'):
                f = check_invocation(tests, inv, bld, work, ev, str(k), strict=strict)
                if f is not None:
                    return f
            for n in inv['slice_ns']:
                f = check_partition(tests, dict(inv, slice=None), n, bld, ev)
                if f is not None:
                    return f
    finally:
        shutil.rmtree(work, ignore_errors=True)
    return None


def shrink_failure(f: Failure, work: str, budget: int) -> Failure:
    """Bounded ddmin over the test list (schedule-dependent failures are not always reproducible: keep the best)."""
    case = f.case
    inv = case['inv']
    best = [f]

    def still(cand: list) -> bool:
        try:
            g = check_case({'tests': cand, 'inv': inv}, work, None)
        except HarnessError:
            return False
        if g is not None and g.sig == f.sig:
            best[0] = g
            return True
        return False

    minimize_list(case['tests'], still, max_tests=budget)
    return best[0]


# ---------------------------------------------------------------------------
# generators

def case_strategy(max_tests: int, max_invs: int):
    from hypothesis import strategies as st

    @st.composite
    def one_test(draw, idx: int, hang_budget: list) -> dict:
        kind = draw(st.sampled_from(['ok', 'ok', 'ok', 'ok', 'exit', 'exit', 'exit', 'tap', 'tap', 'signal', 'hang', 'hangstub']))
        t: dict = {'name': 't%02d' % idx}
        if kind in ('hang', 'hangstub'):
            if hang_budget[0] <= 0 or (kind == 'hangstub' and hang_budget[1] <= 0):
                kind = 'ok'
            else:
                hang_budget[0] -= 1
                if kind == 'hangstub':
                    hang_budget[1] -= 1
        if kind == 'ok':
            t.update(mode='exit', par=0)
        elif kind == 'exit':
            t.update(mode='exit', par=draw(st.sampled_from([1, 77, 99, 2, 127, 255, 1, 77, 99])))
        elif kind == 'signal':
            t.update(mode='signal', par=draw(st.sampled_from([int(signal.SIGKILL), int(signal.SIGUSR1)])))
        elif kind == 'tap':
            t.update(mode='tap', par=draw(st.sampled_from(['pass', 'pass', 'fail', 'skipall', 'badplan', 'bail'])),
                     taprc=draw(st.sampled_from([0, 0, 0, 0, 77])))
        else:
            t.update(mode=kind, par='-', tapproto=draw(st.sampled_from([False, False, True])))
        t['parallel'] = draw(st.sampled_from([True, True, True, False]))
        t['par_explicit'] = draw(st.booleans())
        t['prio'] = draw(st.sampled_from([0, 0, 0, 0, 1, -1, 5, 10, -50]))
        t['dur'] = draw(st.integers(0, 150))
        t['xf'] = draw(st.sampled_from(['', '', '', 'should_fail', 'expected_fail']))
        t['timeout'] = draw(st.sampled_from([None, None, 0, -1, 100, 300]))
        t['suites'] = draw(st.lists(st.sampled_from(SUITES), max_size=2, unique=True))
        t['env'] = draw(st.booleans())
        t['workdir'] = draw(st.sampled_from([False, False, True]))
        t['noise'] = draw(st.sampled_from(['', '', '', '', 'longline', 'longerr', 'binary']))
        return t

    @st.composite
    def one_inv(draw, names: T.List[str], quick: bool) -> dict:
        inv: dict = {}
        inv['j'] = draw(st.sampled_from([1, 2, 2, 3, 3, 4, 5, 6, 8]))
        inv['jsrc'] = draw(st.sampled_from(['flag', 'flag', 'flag', 'flagj', 'env_np', 'env_tt', 'env_both']))
        inv['repeat'] = draw(st.sampled_from([1, 1, 1, 1, 2, 3]))
        inv['repeat_explicit'] = draw(st.booleans())
        inv['maxfail'] = draw(st.sampled_from([0, 0, 0, 0, 1, 2, 3]))
        sspec = st.sampled_from(SUITES + [PROJ + ':' + s for s in SUITES])
        inv['suite'] = draw(st.one_of(st.just([]), st.just([]), st.lists(sspec, min_size=1, max_size=2, unique=True)))
        inv['nosuite'] = draw(st.one_of(st.just([]), st.just([]), st.just([]), st.lists(sspec, min_size=1, max_size=2, unique=True)))
        pats = st.one_of(st.sampled_from(names), st.sampled_from(names).map(lambda n: PROJ + ':' + n),
                         st.sampled_from(['t0*', 't1*', 't?[02468]', PROJ + ':t*[13579]']))
        inv['names'] = draw(st.one_of(st.just([]), st.just([]), st.just([]), st.lists(pats, min_size=1, max_size=3, unique=True)))
        inv['setup'] = draw(st.sampled_from([None, None, None, 'su1', 'su2']))
        inv['tmul'] = draw(st.sampled_from([0.25, 0.3, 0.4]))
        inv['no_t'] = draw(st.booleans())
        inv['flags'] = draw(st.lists(st.sampled_from(['--print-errorlogs', '--quiet', '--verbose', '--no-stdsplit']), max_size=2, unique=True))
        if draw(st.sampled_from([False, False, False, False, True])):
            n = draw(st.integers(1, 4))
            inv['slice'] = [draw(st.integers(1, n)), n]
        else:
            inv['slice'] = None
        inv['slice_ns'] = draw(st.one_of(st.just([]), st.just([]), st.lists(st.integers(1, 6), min_size=1, max_size=1 if quick else 3, unique=True)))
        return inv

    @st.composite
    def cases(draw) -> dict:
        n = draw(st.integers(1, max_tests))
        budget = [2, 1]
        tests = [draw(one_test(i, budget)) for i in range(n)]
        names = [t['name'] for t in tests]
        k = draw(st.integers(1, max_invs))
        invs = [draw(one_inv(names, max_invs <= 2)) for _ in range(k)]
        return {'tests': tests, 'invs': invs}

    return cases()


def _gen_shard(shard: T.Tuple[int, int, bool], ev: Evidence, fails: T.List[Failure]) -> None:
    import hypothesis
    from hypothesis import given
    seed, n, quick = shard
    work = make_scratch(f'c12-{seed}')
    buckets: T.Dict[str, Failure] = {}
    try:
        def body(case: dict) -> None:
            if NEVER_FINISHES in buckets:
                return          # every further case of that kind would wait out both limits again: the shard ends here
            # the failing invocation alone is the replay case
            for inv in case['invs']:
                f = check_case({'tests': case['tests'], 'inv': inv}, os.path.join(work, 'case'), ev)
                if f is not None:
                    if f.sig not in buckets and len(buckets) < 6:
                        buckets[f.sig] = f
                    break

        strat = case_strategy(12 if quick else 24, 2 if quick else 3)
        hypothesis.seed(seed)(hyp_settings(n)(given(strat)(body)))()
        for sig, f in buckets.items():
            fails.append(f if sig == NEVER_FINISHES else shrink_failure(f, os.path.join(work, 'shrink'), 10 if quick else 40))
    finally:
        shutil.rmtree(work, ignore_errors=True)


# -- deterministic, seeded schedule probes --------------------------------------

def T_(name: str, **kw: T.Any) -> dict:
    d = {'name': name, 'mode': 'exit', 'par': 0, 'parallel': True, 'dur': 100}
    d.update(kw)
    return d


def probes(seed: int) -> T.List[dict]:
    rnd = random.Random(seed * 7919 + 12)
    d = lambda lo, hi: rnd.randint(lo, hi)  # noqa: E731
    out: T.List[dict] = []
    # serial test behind long parallel ones and in front of further parallel ones
    out.append({'tests': [T_('t00', dur=d(90, 150), prio=9), T_('t01', dur=d(90, 150), prio=9), T_('t02', dur=d(60, 150), prio=9),
                          T_('t03', parallel=False, dur=d(60, 120), prio=5), T_('t04', dur=d(40, 150), prio=1), T_('t05', dur=d(40, 150), prio=1),
                          T_('t06', parallel=False, dur=d(30, 90)), T_('t07', dur=d(40, 150), prio=-3)],
                'invs': [{'j': rnd.choice([3, 4, 8]), 'repeat': rnd.choice([1, 2])}, {'j': 2, 'jsrc': 'env_np'}]})
    # more long parallel tests than jobs
    out.append({'tests': [T_('t%02d' % i, dur=d(100, 150)) for i in range(8)],
                'invs': [{'j': 2, 'jsrc': 'flag'}, {'j': 3, 'jsrc': 'env_both'}, {'j': 5, 'jsrc': 'env_tt', 'repeat': 2}]})
    # only a timeout is bad; the process has to be gone (cooperative and SIGTERM-ignoring)
    out.append({'tests': [T_('t00', dur=d(0, 60)), T_('t01', mode='hang', parallel=rnd.choice([True, False])), T_('t02', dur=d(0, 60), par=77),
                          T_('t03', dur=d(0, 50), mode='tap', par='pass')],
                'invs': [{'j': rnd.choice([1, 2, 3]), 'tmul': 0.3}, {'j': 2, 'names': ['t01', 't00'], 'tmul': 0.25}]})
    out.append({'tests': [T_('t00', mode='hangstub', parallel=False, prio=3), T_('t01', dur=d(20, 80)), T_('t02', dur=d(20, 80), xf='should_fail', par=1)],
                'invs': [{'j': 3, 'tmul': 0.25}]})
    # the documented classification table, with and without should_fail / expected_fail
    tbl = []
    for i, (rc, xf) in enumerate([(0, ''), (1, ''), (77, ''), (99, ''), (2, ''), (127, ''), (0, 'should_fail'), (1, 'expected_fail'),
                                  (99, 'should_fail'), (99, 'expected_fail'), (77, 'should_fail'), (255, 'should_fail')]):
        tbl.append(T_('t%02d' % i, par=rc, xf=xf, dur=d(0, 40), parallel=rnd.random() < 0.8, suites=[SUITES[i % 3]]))
    tbl.append(T_('t12', mode='signal', par=int(signal.SIGKILL), dur=d(0, 40)))
    tbl.append(T_('t13', mode='signal', par=int(signal.SIGUSR1), xf='expected_fail', dur=d(0, 40)))
    for i, v in enumerate(['pass', 'fail', 'skipall', 'badplan', 'bail']):
        tbl.append(T_('t%02d' % (14 + i), mode='tap', par=v, dur=d(0, 40)))
    tbl.append(T_('t19', mode='tap', par='pass', xf='should_fail', dur=d(0, 40)))
    tbl.append(T_('t20', mode='tap', par='fail', xf='expected_fail', dur=d(0, 40)))
    out.append({'tests': tbl, 'invs': [{'j': 4, 'slice_ns': [1, 2, 3, 4, 5]},
                                       {'j': 3, 'suite': ['sA'], 'nosuite': [], 'slice_ns': [2, 3], 'list_only': True},
                                       {'j': 3, 'nosuite': [PROJ + ':sB'], 'setup': 'su1', 'slice_ns': [4], 'list_only': True},
                                       # name patterns that select every other test: each slice of the SELECTION is non-empty
                                       {'j': 3, 'names': ['t?[02468]'], 'slice_ns': [2, 3], 'list_only': True},
                                       {'j': 3, 'names': [PROJ + ':t*[13579]', 't00'], 'slice_ns': [2, 4], 'list_only': True},
                                       {'j': 4, 'names': ['t0[02468]'], 'slice': [2, 2]}]})
    # exit status with exactly one kind of bad result each; skipped/expected-fail only => 0
    for k, tests in enumerate([[T_('t00'), T_('t01', xf='should_fail')],
                               [T_('t00'), T_('t01', par=99)],
                               [T_('t00', par=77), T_('t01', par=1, xf='expected_fail'), T_('t02', mode='tap', par='skipall')],
                               [T_('t00'), T_('t01', par=1), T_('t02'), T_('t03', par=2), T_('t04'), T_('t05')]]):
        for t in tests:
            t['dur'] = d(0, 50)
        out.append({'tests': tests, 'invs': [{'j': 1 + k % 3, 'maxfail': 2 if k == 3 else 0, 'repeat': 2 if k == 2 else 1}]})
    # failure under --repeat and --maxfail (cut short: at most once)
    out.append({'tests': [T_('t00', dur=d(0, 40)), T_('t01', par=1, dur=d(0, 40), parallel=False), T_('t02', dur=d(0, 40)), T_('t03', dur=d(50, 150)),
                          T_('t04', dur=d(50, 150)), T_('t05', par=2, dur=d(0, 30))],
                'invs': [{'j': 3, 'repeat': 3}, {'j': 2, 'maxfail': 1}, {'j': 4, 'maxfail': 3, 'repeat': 1}]})
    return out


def _probe_shard(shard: T.Tuple[dict, dict, int], ev: Evidence, fails: T.List[Failure]) -> None:
    tests, inv, idx = shard
    work = make_scratch(f'c12-probe{idx}')
    try:
        f = check_case({'tests': tests, 'inv': inv}, os.path.join(work, 'case'), ev)
        ev.event('probe_invocations')
        if f is not None:
            fails.append(f)
    finally:
        shutil.rmtree(work, ignore_errors=True)


def _shard(shard: tuple, ev: Evidence, fails: T.List[Failure]) -> None:
    if shard[0] == 'gen':
        _gen_shard(shard[1:], ev, fails)
    else:
        _probe_shard(shard[1:], ev, fails)


def selftest(ctx: Ctx) -> None:
    # the model against the documentation's own statements
    t = lambda **kw: norm_test(T_('t00', **kw), 0)  # noqa: E731
    table = [((0, ''), {'OK'}), ((77, ''), {'SKIP'}), ((99, ''), {'ERROR'}), ((1, ''), {'FAIL'}), ((99, 'should_fail'), {'ERROR'}),
             ((0, 'should_fail'), {'UNEXPECTEDPASS'}), ((3, 'expected_fail'), {'EXPECTEDFAIL'})]
    for (rc, xf), want in table:
        if allowed_results(t(par=rc, xf=xf)) != want:
            raise HarnessError(f'classification model self-test failed for rc={rc} xf={xf}')
    # Unit-tests.md "Run subsets of tests": A foo, B foo+bar, C bar, D baz
    ts = [dict(t(), name='A', suites=['sA']), dict(t(), name='B', suites=['sA', 'sB']), dict(t(), name='C', suites=['sB']), dict(t(), name='D', suites=['sC'])]
    base = {'suite': [], 'nosuite': [], 'names': [], 'setup': None}
    got = [x['name'] for x in selection(ts, dict(base, suite=['sA', PROJ + ':sB']))]
    if got != ['A', 'B', 'C'] or [x['name'] for x in selection(ts, dict(base, nosuite=['sB']))] != ['A', 'D']:
        raise HarnessError('selection model self-test failed')
    a, b = Run('a', '1', 1, 10), Run('b', '1', 2, 15)
    a.e, b.e = 20, 30
    c = Run('c', '1', 3, 20)
    c.e = 25
    if not overlap(a, b) or overlap(a, c) or max_open([a, b, c])[0] != 2:
        raise HarnessError('interval model self-test failed')


def run(ctx: Ctx) -> None:
    nshards = 32
    per = ctx.n(2, 30)
    shards: T.List[tuple] = [('gen', s, per, ctx.quick) for s in shard_seeds(ctx, nshards)]
    k = 0
    for p in probes(ctx.seed):
        for inv in p['invs']:
            shards.append(('probe', p['tests'], inv, k))
            k += 1
    pmap(ctx, _shard, shards)


def replay(ctx: Ctx, case: T.Any, doc: dict) -> T.Optional[Failure]:
    """Re-run one saved case.  Schedule-dependent cases get a few attempts; `alt_durs` ({test: [ms, ...]}) lets a saved
    case vary one duration per attempt (the known --maxfail finding needs a failure to land inside another test's
    kill window, whose position depends on process start-up cost)."""
    sig = str(doc.get('signature', ''))
    tries = int(case.get('attempts', 3 if sig.split('/')[0] in ('serial', 'jobs', 'once', 'maxfail', 'testlog') else 1))
    f = None
    for k in range(tries):
        c = dict(case)
        alt = case.get('alt_durs') or {}
        if alt:
            c['tests'] = [dict(t, dur=alt[t['name']][k % len(alt[t['name']])]) if t.get('name') in alt else t for t in case['tests']]
        f = check_case(c, os.path.join(ctx.scratch, 'replay'), None)
        if f is not None:
            return f
    return f
