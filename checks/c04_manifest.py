"""C04 - The generated Ninja manifest is well-formed and closed.

Generated target-graph projects (harness/projgen.py) and, in the thorough tier, the repository's own
test-case projects are configured with the real `meson setup` (ninja backend, fake ninja binary) and
build.ninja is judged by the independent Ninja implementation in harness/refninja.py.  In both tiers the
deterministic catalogue of feature projects (harness/featproj.py) is judged the same way, plus reachability of
the outputs each project declares as built by default / needed by its tests.
"""
from __future__ import annotations

import glob
import json
import os
import shutil
import typing as T

from harness import refninja
from harness.core import Ctx, Evidence, Failure, HarnessError, REPO, campaign, make_scratch, pmap, shard_seeds, fp
from harness.mesondrv import run_inproc, run_sub, write_tree
from harness import featproj, projgen

LEVEL = 'exploration'
RULE = ('Hypothesis project models (1-10 targets: executables, static/shared/both/default libraries, custom targets with 1-3 outputs, '
        'generators, configure_file, run/alias targets, tests/benchmarks with depends:, 0-2 subdirs, optional subproject, odd names, '
        'layout x default_library x unity x b_staticpic; 10% carry one certain output collision or reserved name) are written to disk and '
        'configured by the real meson; build.ninja is parsed by an independent Ninja implementation. thorough: + every project under '
        'test cases/{common,unit,native,linuxlike} that configures. non-trivial = >=3 targets with >=1 cross-target edge, or a predicted '
        'collision; distinct by hash of the model (or corpus path). In both tiers every project of the deterministic feature catalogue '
        'harness/featproj.py (precompiled headers, Rust, Java, Fortran with dyndep and with the pre-1.10 ninja paths, C/C++ mixes, link_depends:, '
        'objects:, extract_objects(), link_whole of a custom target, both_libraries(), generators, depfile:, vcs_tag()/configure_file(command:), '
        'run/alias targets, subproject and sibling-directory generated headers; the seed only selects option sets) is configured in a fresh '
        'process and judged by judge_manifest() plus reachability from all / meson-test-prereq / meson-benchmark-prereq of the outputs the project '
        'text declares as built by default / used by tests; class feature/<entry>, non-trivial = >=3 non-phony statements with >=1 statement '
        'consuming the output of another, distinct by hash of (entry, options).')
ASSUMPTIONS = [
    'validity of the manifest is judged by harness/refninja.py (no ninja binary exists in the sandbox); it is self-tested on the Ninja manual examples',
    'output basenames on Linux: executable <name>, static lib<name>.a, shared lib<name>.so[.version]',
]


def selftest(ctx: Ctx) -> None:
    try:
        refninja.selftest()
    except AssertionError as e:
        raise HarnessError(f'refninja self-test failed: {e}')


def judge_manifest(builddir: str, case: T.Any) -> T.Tuple[T.Optional[refninja.Manifest], T.Optional[Failure]]:
    path = os.path.join(builddir, 'build.ninja')
    if not os.path.exists(path):
        return None, Failure('manifest/not-written', case, 'meson setup succeeded but wrote no build.ninja')
    try:
        m = refninja.parse_file(path)
    except refninja.NinjaError as e:
        return None, Failure('manifest/invalid-syntax', case, f'build.ninja is not a valid Ninja manifest: {e}')
    if m.duplicate_outputs:
        o, e1, e2 = m.duplicate_outputs[0]
        kind = 'implicit' if (o in e1.implicit_outs or o in e2.implicit_outs) else 'explicit'
        return m, Failure(f'manifest/duplicate-producer:{kind}', case,
                          f'path {o!r} is produced by two build statements (lines {e1.lineno} and {e2.lineno})')
    cyc = m.find_cycle()
    if cyc:
        return m, Failure('manifest/cycle', case, f'dependency cycle: {" -> ".join(cyc)}')
    for e in m.edges:
        for kind, lst in (('explicit', e.ins), ('implicit', e.implicit), ('order-only', e.order_only)):
            for p in lst:
                if p in m.producer:
                    continue
                full = p if os.path.isabs(p) else os.path.join(builddir, p)
                if not os.path.lexists(full):
                    return m, Failure(f'manifest/dangling-input:{kind}', case,
                                      f'{kind} input {p!r} of the statement at line {e.lineno} (outputs {e.outs[:2]}) neither exists after '
                                      f'configuration nor is produced by any statement')
        try:
            e.command()
            e.get('description')
            e.get('depfile')
            e.get('rspfile_content')
        except refninja.NinjaError as ex:
            return m, Failure('manifest/invalid-variables', case, f'{ex}')
    for d in m.defaults:
        if d not in m.producer:
            return m, Failure('manifest/default-unknown', case, f'default target {d!r} has no producer')
    try:
        refninja.dyndep_files(m)      # a `dyndep` binding must name one of the statement's inputs (Ninja manual, "Dynamic Dependencies")
    except refninja.NinjaError as ex:
        return m, Failure('manifest/dyndep-not-an-input', case, f'{ex}')
    return m, None


def expected_basenames(t: dict, default_library: str) -> T.List[str]:
    k, nm = t['kind'], t['name']
    ver = ('.' + t['version']) if t.get('version') else ''
    if k == 'exe':
        return [nm]
    if k == 'static':
        return [f'lib{nm}.a']
    if k == 'shared':
        return [f'lib{nm}.so{ver}']
    if k == 'both':
        return [f'lib{nm}.a', f'lib{nm}.so{ver}']
    if k == 'library':
        return {'shared': [f'lib{nm}.so{ver}'], 'static': [f'lib{nm}.a'], 'both': [f'lib{nm}.a', f'lib{nm}.so{ver}']}[default_library]
    if k == 'ct':
        return list(t['outputs'])
    return []


def check_reachability(m: refninja.Manifest, model: dict, case: T.Any) -> T.Optional[Failure]:
    by_id = {t['id']: t for t in model['targets']}
    dl = model['options']['default_library']
    by_base: T.Dict[str, T.List[str]] = {}
    for p in m.producer:
        by_base.setdefault(os.path.basename(p), []).append(p)

    def paths_of(t: dict) -> T.List[str]:
        res = []
        for b in expected_basenames(t, dl):
            res.extend(by_base.get(b, []))
        return res

    all_edges, _ = m.closure(['all'])

    def unreached(ps: T.List[str], edges: T.Set[int]) -> T.List[str]:
        # a path is reached when the statement producing it is in the closure (outputs of one statement come together)
        return [p for p in ps if id(m.producer[p]) not in edges]

    for t in model['targets']:
        if t['kind'] in projgen.BUILD_KINDS:
            bbd = t['build_by_default']
        elif t['kind'] == 'ct':
            bbd = t['build_by_default'] or t['install']
        else:
            continue
        ps = paths_of(t)
        if not ps:
            return Failure('manifest/target-has-no-statement', case,
                           f'no build statement produces {expected_basenames(t, dl)} for target {t["id"]} ({t["kind"]} {t["name"]!r})')
        if bbd:
            missing = unreached(ps, all_edges)
            if missing:
                return Failure(f'reach/all-misses:{"custom" if t["kind"] == "ct" else "build"}-target', case,
                               f'target {t["id"]} ({t["kind"]} {t["name"]!r}) is built by default but {missing} is not reachable from `all`')
    for ts in model['tests']:
        agg = 'meson-benchmark-prereq' if ts['benchmark'] else 'meson-test-prereq'
        if agg not in m.producer:
            return Failure('reach/no-prereq-aggregate', case, f'{agg} is not defined')
        edges, _ = m.closure([agg])
        for tid, why in [(ts['exe'], 'runs')] + [(d, 'depends on') for d in ts['depends']] + [(d, 'takes-as-argument') for d in ts.get('arg_targets', [])]:
            t = by_id[tid]
            ps = paths_of(t)
            missing = unreached(ps, edges)
            if len(ps) > 1 and t['kind'] in ('both', 'library') and len(missing) < len(ps):
                missing = []     # a both_libraries object used as a dependency stands for ONE of its libraries
            if missing:
                return Failure(f'reach/prereq-misses:{why.split()[0]}', case,
                               f'{"benchmark" if ts["benchmark"] else "test"} {ts["name"]!r} {why} {t["id"]} ({t["kind"]} {t["name"]!r}) but {missing} '
                               f'is not reachable from {agg}')
    return None


RSP_THRESHOLDS = [None, None, None, 0, 300, 600, 1000]


def nontrivial(model: dict) -> bool:
    if model.get('collision'):
        return True
    ts = model['targets']
    cross = any(projgen._refs(t) for t in ts)
    return len(ts) >= 3 and cross


def check_model(model: dict, workdir: str, ev: T.Optional[Evidence] = None, confirm: bool = True) -> T.Optional[Failure]:
    src = os.path.join(workdir, 'src')
    bld = os.path.join(workdir, 'bld')
    shutil.rmtree(workdir, ignore_errors=True)
    os.makedirs(src)
    try:
        projgen.write_project(model, src)
        args = ['setup'] + projgen.setup_args(model) + [bld, src]
        # response-file threshold (bytes of command line above which a statement uses the NAME_RSP form of its rule):
        # derived from the model so that a third of the projects mix plain and _RSP statements of the same rule, and
        # some use _RSP everywhere.  In-process the module-level constant is set (it is read from the environment at
        # import time); the confirming subprocess gets MESON_RSP_THRESHOLD.
        thr = RSP_THRESHOLDS[fp(model)[0] % len(RSP_THRESHOLDS)]
        import mesonbuild.backend.ninjabackend as nb
        from mesonbuild import mesonlib
        old_thr = nb.rsp_threshold
        nb.rsp_threshold = mesonlib.get_rsp_threshold() if thr is None else thr
        try:
            r = run_inproc(args)
        finally:
            nb.rsp_threshold = old_thr
        f = _judge(model, r, bld)
        if ev is not None:
            ev.event(f'rsp_threshold:{thr}')
        if f is not None and confirm:
            shutil.rmtree(bld, ignore_errors=True)
            r2 = run_sub(args, env=None if thr is None else {'MESON_RSP_THRESHOLD': str(thr)})
            f2 = _judge(model, r2, bld)
            if f2 is None:
                if ev is not None:
                    ev.inproc_only += 1
                f = None
            else:
                f = f2
        if ev is not None:
            cls = 'collision' if model.get('collision') else f'ok/{model["options"]["layout"]}'
            ev.case(model, nontrivial=nontrivial(model), cls=cls,
                    sample={'targets': [(t['kind'], t['dir'], t['name']) for t in model['targets']], 'options': model['options'],
                            'collision': model.get('collision'), 'tests': len(model['tests'])})
        return f
    finally:
        shutil.rmtree(workdir, ignore_errors=True)


def _judge(model: dict, r: T.Any, bld: str) -> T.Optional[Failure]:
    if r.unhandled:
        return Failure('setup/unhandled-exception', model, f'meson setup died with an internal error:\n{r.text[-1500:]}')
    if model.get('collision'):
        if r.rc == 0:
            return Failure('collision/not-rejected', model,
                           f'{model["collision"]}: meson setup succeeded; colliding outputs must be rejected at configure time')
        if 'ERROR' not in r.text:
            return Failure('collision/no-error-message', model, f'{model["collision"]}: exit {r.rc} without an ERROR message\n{r.text[-800:]}')
        return None
    if r.rc != 0:
        return Failure('setup/valid-project-rejected', model, f'a project without colliding outputs failed to configure (exit {r.rc}):\n{r.text[-1500:]}')
    m, f = judge_manifest(bld, model)
    if f is not None:
        return f
    assert m is not None
    return check_reachability(m, model, model)


def _gen_shard(shard: T.Tuple[int, int], ev: Evidence, fails: T.List[Failure]) -> None:
    seed, n = shard
    work = make_scratch(f'c04-{seed}')
    try:
        campaign(projgen.project_models(profile='graph'), lambda model: check_model(model, os.path.join(work, 'case'), ev), n, seed, fails)
    finally:
        shutil.rmtree(work, ignore_errors=True)


# -- catalogue of feature projects (harness/featproj.py) -------------------------

def feature_nontrivial(m: refninja.Manifest) -> bool:
    """The rule of the generated models (>=3 targets with >=1 cross-target edge) read on the manifest: at least three
    non-phony build statements of which at least one consumes the output of another one."""
    real = [e for e in m.edges if not e.is_phony and e.rule.name != 'REGENERATE_BUILD' and not (e.outs and e.outs[0].startswith('meson-internal__'))]
    cross = any(pe is not None and not pe.is_phony for e in real for pe in (m.producer.get(i) for i in e.all_ins))
    return len(real) >= 3 and cross


def _judge_feature(case: dict, proj: 'featproj.Project', r: T.Any, bld: str) -> T.Tuple[T.Optional[refninja.Manifest], T.Optional[Failure]]:
    if r.unhandled:
        return None, Failure('setup/unhandled-exception', case, f'meson setup died with an internal error:\n{r.text[-1500:]}')
    if r.rc != 0:
        return None, Failure('setup/valid-project-rejected', case, f'a project without colliding outputs failed to configure (exit {r.rc}):\n{r.text[-1500:]}')
    m, f = judge_manifest(bld, case)
    if f is not None or m is None:
        return m, f
    by_base: T.Dict[str, T.List[str]] = {}
    for p in m.producer:
        by_base.setdefault(os.path.basename(p), []).append(p)
    closures: T.Dict[str, T.Set[int]] = {}
    for base, agg in proj.expect:
        if agg not in closures:
            if agg not in m.producer:
                return m, Failure('reach/no-prereq-aggregate', case, f'{agg} is not defined')
            closures[agg] = m.closure([agg])[0]
        ps = by_base.get(base, [])
        if not ps:
            return m, Failure('manifest/target-has-no-statement', case, f'no build statement produces {base!r}')
        missing = [p for p in ps if id(m.producer[p]) not in closures[agg]]
        if missing:
            if agg == 'all':
                return m, Failure('reach/all-misses:build-target', case, f'{base!r} is built by default but {missing} is not reachable from `all`')
            return m, Failure('reach/prereq-misses:feature', case,
                              f'{base!r} is run by / an argument of / a depends: entry of a {"benchmark" if "benchmark" in agg else "test"} '
                              f'but {missing} is not reachable from {agg}')
    return m, None


def check_feature(case: dict, workdir: str, ev: T.Optional[Evidence] = None) -> T.Optional[Failure]:
    """One catalogue project: configured in a fresh process (authoritative, nothing to re-confirm), judge_manifest(), and
    reachability of what the project text declares as built by default / needed by its tests."""
    name = case['feature']
    miss = featproj.missing_tools(case)
    if miss:
        if ev is not None:
            ev.exclude(f'feature/{name}: tool not installed ({", ".join(miss)})')
        return None
    src = os.path.join(workdir, 'src')
    bld = os.path.join(workdir, 'bld')
    shutil.rmtree(workdir, ignore_errors=True)
    os.makedirs(src)
    try:
        proj = featproj.build(case)
        env = proj.write(src)
        r = run_sub(['setup'] + proj.setup_args() + [bld, src], env=env or None, timeout=300)
        m, f = _judge_feature(case, proj, r, bld)
        if ev is not None:
            ev.case(case, nontrivial=m is not None and feature_nontrivial(m), cls=f'feature/{name}',
                    sample={'feature': name, 'opts': case.get('opts'), 'statements': len(m.edges) if m is not None else None,
                            'expect': proj.expect})
        if f is not None:
            f.sig = f'{f.sig}@feature/{name}'
            f.msg = f'catalogue project {name} {case.get("opts")}: {f.msg}'
        return f
    finally:
        shutil.rmtree(workdir, ignore_errors=True)


def _feat_shard(case: dict, ev: Evidence, fails: T.List[Failure]) -> None:
    work = make_scratch('c04-feat')
    try:
        f = check_feature(case, os.path.join(work, 'case'), ev)
        if f is not None:
            fails.append(f)
    finally:
        shutil.rmtree(work, ignore_errors=True)


def _shard(shard: T.Tuple[str, T.Any], ev: Evidence, fails: T.List[Failure]) -> None:
    kind, payload = shard
    (_feat_shard if kind == 'feat' else _gen_shard)(payload, ev, fails)


# -- corpus -------------------------------------------------------------------

def corpus_projects() -> T.List[str]:
    out = []
    for sub in ('common', 'unit', 'native', 'linuxlike'):
        for d in sorted(glob.glob(os.path.join(REPO, 'test cases', sub, '*'))):
            if os.path.isfile(os.path.join(d, 'meson.build')):
                out.append(d)
    return out


CORPUS_VARIANTS: T.List[T.List[str]] = [[], ['--layout=flat'], ['-Ddefault_library=both', '-Dunity=on', '-Dunity_size=2']]


def _corpus_shard(shard: T.List[T.Any], ev: Evidence, fails: T.List[Failure]) -> None:
    work = make_scratch('c04-corpus')
    sigs = set()
    try:
        for d in shard:
            extra: T.List[str] = []
            if isinstance(d, (tuple, list)):
                d, extra = d[0], list(d[1])
            src = os.path.join(work, 'src')
            bld = os.path.join(work, 'bld')
            shutil.rmtree(src, ignore_errors=True)
            shutil.rmtree(bld, ignore_errors=True)
            shutil.copytree(d, src, symlinks=True)
            case = {'corpus': os.path.relpath(d, REPO)}
            if extra:
                case['args'] = extra
            try:
                r = run_sub(['setup'] + extra + [bld, src], timeout=180)
            except Exception:
                ev.event('corpus_timeout')
                continue
            if r.rc != 0 or 'MESON_SKIP_TEST' in r.text:
                ev.event('corpus_not_configurable')
                continue
            m, f = judge_manifest(bld, case)
            ev.case(case, nontrivial=m is not None and len(m.edges) > 30, cls='corpus', sample=case)
            if f is not None and extra:
                # under a non-default option set the failing input is (project, option set): several recorded findings of
                # the layout=flat family are told apart this way
                tag = 'flat' if '--layout=flat' in extra else 'both-unity'
                f.sig = f'{f.sig}@corpus/{os.path.basename(d)}:{tag}'
            if f is not None and f.sig not in sigs:
                sigs.add(f.sig)
                fails.append(f)
    finally:
        shutil.rmtree(work, ignore_errors=True)


# (project, option set) pairs every run takes: the recorded layout=flat findings seen on corpus projects, and the
# unity + extract_all_objects + assembly case that was repaired
CORPUS_FIXED: T.List[T.Tuple[str, T.List[str]]] = [
    ('test cases/common/259 preprocess', ['--layout=flat']),
    ('test cases/common/277 generator custom_tgt subdir', ['--layout=flat']),
    ('test cases/common/49 custom target', ['--layout=flat']),
    ('test cases/common/105 generatorcustom', ['--layout=flat']),
    ('test cases/common/127 generated assembly', ['-Ddefault_library=both', '-Dunity=on', '-Dunity_size=2']),
    ('test cases/common/127 generated assembly', []),
]



# -- matrix of "targets a test runs or depends on" (one project, every accepted kind x role x test/benchmark) ---------------

def prereq_matrix(ctx: Ctx) -> None:
    """One generated project in which every kind of build product that test()/benchmark() accept (executable, jar,
    custom_target, indexed custom_target) appears in every role (program run, argument, depends:) and is NOT built by
    default, so only the prereq aggregate can pull it in.  Oracle: the producing statement is reachable from
    meson-test-prereq / meson-benchmark-prereq."""
    import shutil as _sh
    have_java = bool(_sh.which('javac'))
    kinds = ['exe', 'ct', 'cti'] + (['jar'] if have_java else [])
    if not have_java:
        ctx.ev.exclude('prereq matrix: jar() rows (no javac)')
    work = os.path.join(ctx.scratch, 'prereq-matrix')
    src, bld = os.path.join(work, 'src'), os.path.join(work, 'bld')
    os.makedirs(src)
    lines = ["project('prereq matrix', %s)" % ', '.join(["'c'"] + (["'java'"] if have_java else [])),
             "py = find_program('python3')", "runner = executable('runner', 'main.c')"]
    files = {'main.c': 'int main(void) { return 0; }\n', 'gen.py': "import sys\nfor p in sys.argv[1:]:\n    open(p, 'w').write('#!/bin/sh\\nexit 0\\n')\n"}
    want: T.List[T.Tuple[str, str, str]] = []      # (aggregate, output basename, description)
    n = 0
    for bench in (False, True):
        fn, agg = ('benchmark', 'meson-benchmark-prereq') if bench else ('test', 'meson-test-prereq')
        for kind in kinds:
            for role in ('program', 'argument', 'depends'):
                n += 1
                v = f'v{n}'
                if kind == 'exe':
                    files[f'm{n}.c'] = 'int main(void) { return 0; }\n'
                    lines.append(f"{v} = executable('x{n}', 'm{n}.c', build_by_default: false)")
                    out, ref = f'x{n}', v
                elif kind == 'jar':
                    files[f'J{n}.java'] = f'public class J{n} {{ public static void main(String[] a) {{ }} }}\n'
                    lines.append(f"{v} = jar('j{n}', 'J{n}.java', main_class: 'J{n}', build_by_default: false)")
                    out, ref = f'j{n}.jar', v
                elif kind == 'ct':
                    lines.append(f"{v} = custom_target('c{n}', output: 'c{n}.sh', command: [py, files('gen.py'), '@OUTPUT@'], build_by_default: false)")
                    out, ref = f'c{n}.sh', v
                else:
                    lines.append(f"{v} = custom_target('i{n}', output: ['i{n}a.sh', 'i{n}b.sh'], command: [py, files('gen.py'), '@OUTPUT@'], build_by_default: false)")
                    out, ref = f'i{n}b.sh', f'{v}[1]'
                if role == 'program':
                    lines.append(f"{fn}('t{n}', {ref})")
                elif role == 'argument':
                    lines.append(f"{fn}('t{n}', runner, args: [{ref}])")
                else:
                    lines.append(f"{fn}('t{n}', runner, depends: [{v}])")
                want.append((agg, out, f'{fn} t{n}: {kind} as {role}'))
    files['meson.build'] = '\n'.join(lines) + '\n'
    write_tree(src, files)
    r = run_sub(['setup', bld, src], timeout=300)
    if r.rc != 0:
        raise HarnessError(f'prereq matrix project does not configure:\n{r.text[-1500:]}')
    case = {'special': 'prereq-matrix', 'meson.build': files['meson.build']}
    m, f = judge_manifest(bld, case)
    if f is not None:
        ctx.fail(f)
        return
    assert m is not None
    by_base: T.Dict[str, T.List[str]] = {}
    for p in m.producer:
        by_base.setdefault(os.path.basename(p), []).append(p)
    closures: T.Dict[str, T.Set[int]] = {}
    for agg, out, what in want:
        if agg not in closures:
            if agg not in m.producer:
                ctx.fail(Failure('reach/no-prereq-aggregate', case, f'{agg} is not defined'))
                return
            closures[agg] = m.closure([agg])[0]
        ps = by_base.get(out, [])
        ctx.ev.case({'special': what}, nontrivial=True, cls='prereq-matrix', sample=what)
        if not ps:
            ctx.fail(Failure('manifest/target-has-no-statement', case, f'{what}: no statement produces {out}'))
        elif any(id(m.producer[p]) not in closures[agg] for p in ps):
            ctx.fail(Failure(f'reach/prereq-misses:{what.split(": ")[1].replace(" ", "-")}', case,
                             f'{what}: {out} is not reachable from {agg} (the target is not built by default, so `meson test` would run without it)'))
    shutil.rmtree(work, ignore_errors=True)


def run(ctx: Ctx) -> None:
    prereq_matrix(ctx)
    per = ctx.n(50, 400)
    # the catalogue of feature projects runs completely in both tiers (the seed only selects option sets); its shards
    # share the pool with the generated-model shards
    cs = featproj.cases(ctx.seed, ctx.tier)
    ctx.ev.extra['catalogue_cases'] = len(cs)
    feat = [('feat', c) for c in featproj.by_cost(cs)]
    pmap(ctx, _shard, [('gen', (s, per)) for s in shard_seeds(ctx, 16)] + feat)
    if ctx.quick:
        fixed = [(os.path.join(REPO, p), v) for p, v in CORPUS_FIXED]
        pmap(ctx, _corpus_shard, [[x] for x in fixed])
        ctx.ev.extra['corpus_projects'] = len(fixed)
    if not ctx.quick:
        projs = [(p, v) for p in corpus_projects() for v in CORPUS_VARIANTS]
        shards = [projs[i::48] for i in range(48)]
        pmap(ctx, _corpus_shard, shards)
        ctx.ev.extra['corpus_projects'] = len(projs)


def replay(ctx: Ctx, case: T.Any, doc: dict) -> T.Optional[Failure]:
    if isinstance(case, dict) and case.get('special') == 'prereq-matrix':
        c2 = Ctx(ctx.prop, ctx.tier, ctx.seed)
        prereq_matrix(c2)
        return next(iter(c2.failures.values()), None)
    if isinstance(case, dict) and 'feature' in case:
        return check_feature(case, os.path.join(ctx.scratch, 'replay'), None)
    if isinstance(case, dict) and 'corpus' in case:
        fails: T.List[Failure] = []
        _corpus_shard([(os.path.join(REPO, case['corpus']), case.get('args', []))], Evidence(), fails)
        return fails[0] if fails else None
    return check_model(case, os.path.join(ctx.scratch, 'replay'), None)
