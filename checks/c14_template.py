"""C14 - Template substitution replaces exactly the placeholders and nothing else.

Oracle: harness/refconf.py (hand-written scanners built from Configuration.md, configure_file.yaml and the pinned
fixtures; every rule cites its source there) + a reference-free metamorphic relation (a marker inserted into ordinary
text is copied exactly once and changing it changes nothing else) + validity predicates for the header generated
without a template.  Driven through do_conf_str / dump_conf_header in-process (volume) and through the real
configure_file() (sample; disagreements re-confirmed in a fresh subprocess).
"""
from __future__ import annotations

import io
import itertools
import os
import random
import shutil
import subprocess
import typing as T

from harness import refconf
from harness.core import Ctx, Evidence, Failure, HarnessError, REPO, campaign, minimize_list, pmap, shard_seeds

LEVEL = 'exploration'
RULE = ('case = (format in meson/cmake/cmake@, template = concatenation of fragments, data = dict name -> str|int|bool). '
        'Fragments: @N@, \\@N\\@, runs of 1-5 backslashes before @ / @N@ / @N\\@, lone @, @@, @N, N@, "@bad name@", ${N}, $N, '
        '\\${N}, $${N}, ${N, {N}, ${${N}}, names with . + / or non-ASCII letters, #mesondefine / #cmakedefine / #cmakedefine01 '
        'lines (indent, tabs, trailing blanks, trailing text, missing name, glued, "# cmakedefine", foreign-format directive), '
        'filler with and without @ $ # \\ { }, arbitrary unicode text, LF / CRLF / CR / no final terminator; N over defined, '
        'undefined and prefix-of-another names; values: plain, empty, outer blanks, multi-line, placeholder-looking (@B@, ${B}, '
        '\\@, ...), ints (neg, 0, big), bools. Three engines over the same judge: exhaustive enumeration of all strings <= L '
        'over small alphabets (escape/brace scanner corners), a seeded bulk generator (volume, ddmin-shrunk), Hypothesis '
        '(structure + arbitrary text, shrunk). Header mode: random key sets (shuffled insertion order) x c/nasm/json x '
        'macro_name x descriptions. Real configure_file(): batched projects, --backend=none. '
        'non-trivial = the reference scan saw >= 2 different placeholder-like kinds, or a value that looks like a placeholder '
        'was substituted, or a CRLF/CR line ending, or (header mode) >= 2 keys inserted out of order; cases excluded as '
        'undocumented are never counted as non-trivial. distinct by sha1 of (format, template, data).')
ASSUMPTIONS = [
    'a variable name is a non-empty run of [-A-Za-z0-9_] (Configuration.md only says "@varname@"; every pinned fixture uses such names; '
    'blank, quote and backslash are pinned as non-name characters by config6.h.in); candidates containing . + / or non-ASCII '
    'characters are excluded and counted',
    'line = text up to LF, CRLF or a lone CR (Python universal-newline rule applied by open(newline=""))',
    'an undefined @NAME@ / ${NAME} may be rendered as the empty string or left in place (not documented); it must be reported either way',
    'a directive line may keep or drop its indentation and trailing blanks; if it has no terminator a final LF may be appended '
    '(pinned by test_do_conf_file_by_format)',
    '"sorted" for the generated header = code-point order (pinned for keys() by "14 configure file/meson.build")',
]

FORMATS = ('meson', 'cmake', 'cmake@')
M1, M2 = ';:1:;', ';:22222:;'       # locality markers: no name character at their borders, no special character

# signatures of the genuine defects confirmed on the pinned tree (each has a deterministic probe in PROBES)
K_RESCAN = 'meson/mesondefine-value-rescanned'
K_EOL = 'define-line/eol-not-preserved'
K_SKIP = 'cmake/placeholder-after-empty-value-skipped'
K_DEFMISS = 'cmake/define-line-missing-not-reported'
K_NONAME = 'cmake/define-without-name-crash'

PROBES: T.List[T.Tuple[str, dict]] = [
    (K_RESCAN, {'fmt': 'meson', 'frags': ['#mesondefine T\n', '#mesondefine W\n', 'v=@T@\n'],
                'data': {'T': '@X@', 'X': 'boom', 'W': '@NOPE@'}}),
    (K_EOL, {'fmt': 'meson', 'frags': ['a\r\n', '#mesondefine T\r\n', 'b\r\n'], 'data': {'T': 1}}),
    (K_EOL, {'fmt': 'cmake', 'frags': ['a\r\n', '#cmakedefine T\r\n', 'b\r\n'], 'data': {'T': 1}}),
    (K_SKIP, {'fmt': 'cmake@', 'frags': ['@E@', '@B@'], 'data': {'E': '', 'B': 'b'}}),
    (K_SKIP, {'fmt': 'cmake', 'frags': ['${E}', '${B}'], 'data': {'E': '', 'B': 'b'}}),
    (K_DEFMISS, {'fmt': 'cmake', 'frags': ['#cmakedefine A ${NOPE}\n'], 'data': {'A': 1}}),
    (K_NONAME, {'fmt': 'cmake', 'frags': ['#cmakedefine\n'], 'data': {'A': 1}}),
]


# ---------------------------------------------------------------------------
# driving the implementation

class Impl:
    """lazy handles on the code under test"""
    def __init__(self) -> None:
        from mesonbuild import mlog
        from mesonbuild.build import ConfigurationData
        from mesonbuild.mesonlib import MesonException
        from mesonbuild.utils import universal
        lg = getattr(mlog, '_logger', None)   # the bool-substitution deprecation notice would flood stdout
        if lg is not None and hasattr(lg, 'log_disable_stdout'):
            lg.log_disable_stdout = True
        self.CD = ConfigurationData
        self.ME = MesonException
        self.u = universal

    def conf_str(self, tpl: str, data: T.Dict[str, T.Any], fmt: str) -> T.Tuple[str, T.Any]:
        """('ok', (text, missing)) | ('meson-error', msg) | ('crash', 'Type: msg')"""
        cd = self.CD({k: (v, None) for k, v in data.items()})
        lines = io.StringIO(tpl, newline='').readlines()   # what do_conf_file does with the file
        try:
            res, missing, _ = self.u.do_conf_str('template.in', lines, cd, fmt)
        except self.ME as e:
            return 'meson-error', str(e)
        except RecursionError as e:
            return 'crash', 'RecursionError: %s' % e
        except Exception as e:   # anything that is not a MesonException is a crash of the scanner
            return 'crash', '%s: %s' % (type(e).__name__, e)
        return 'ok', (''.join(res), set(missing))


_IMPL: T.Optional[Impl] = None


def impl() -> Impl:
    global _IMPL
    if _IMPL is None:
        _IMPL = Impl()
    return _IMPL


def cmake_value_hazard(fmt: str, data: T.Dict[str, T.Any]) -> bool:
    return fmt != 'meson' and any(isinstance(v, str) and any(c in v for c in '@${}') for v in data.values())


def short(s: str, n: int = 300) -> str:
    r = repr(s)
    return r if len(r) <= n else r[:n] + '...'


def nontrivial_kinds(R: refconf.Ref) -> bool:
    k = R.kinds
    ph = k & {'at-variable', 'escaped-variable', 'backslash-run-before-at', 'even-run-then-at', 'brace-variable', 'mesondefine',
              'cmakedefine', 'cmakedefine-with-value', 'undefined-variable', 'lone-at', 'lone-dollar',
              'backslash-before-opener', 'foreign-directive', 'mesondefine-extra-tokens', 'indented-directive'}
    return len(ph) >= 2 or 'value-looks-like-placeholder' in k or 'crlf' in k or 'cr' in k


def judge(case: dict, ev: T.Optional[Evidence] = None, strict_known: bool = False, cls: str = 'str') -> T.Optional[Failure]:
    """One template case against the reference.  strict_known=True: known-finding classes are NOT tolerated (probes /
    replays of the findings themselves)."""
    fmt = case['fmt']
    tpl = ''.join(case['frags'])
    data = case['data']
    I = impl()
    if cmake_value_hazard(fmt, data):
        if ev is not None:
            ev.case(case, cls=cls + ':excluded')
            ev.exclude('cmake formats: a data value contains @ $ { } (CMake re-scan semantics not claimed by the property; '
                       'self-referencing values do not terminate)')
        return None
    R = refconf.render(tpl, data, fmt, 'empty')
    if R.grey:
        if ev is not None:
            ev.case(case, cls=cls + ':excluded')
            ev.exclude(R.grey[0])
        st, val = I.conf_str(tpl, data, fmt)    # (K_NONAME, '#cmakedefine' without a name, is fixed in /repo: must be a clean rejection)
        if st == 'crash':
            return Failure(f'{fmt}/crash:{val.split(":")[0]}', case,
                           f'format {fmt}: template {short(tpl)} with {data!r} raised {val} (outside the documented region, '
                           'but only a MesonException is a clean rejection)')
        return None
    known = set(R.known)
    if ev is not None:
        ev.case(case, nontrivial=nontrivial_kinds(R), cls=f'{cls}:{fmt}')
        for k in sorted(R.kinds):
            ev.event('kind:' + k)
    st, val = I.conf_str(tpl, data, fmt)
    if st == 'crash':
        return Failure(f'{fmt}/crash:{val.split(":")[0]}', case, f'format {fmt}: template {short(tpl)} with {data!r} raised {val}')
    if R.error:
        if ev is not None:
            ev.event('expected-error:' + R.error)
        if st != 'meson-error':
            return Failure(f'{fmt}/error-not-raised:{R.error}', case,
                           f'format {fmt}: template {short(tpl)} must be rejected with a MesonException ({R.error}, pinned by '
                           f'test_do_conf_file_by_format) but produced {short(val[0])}')
        return None
    if st == 'meson-error':
        return Failure(f'{fmt}/unexpected-MesonException', case,
                       f'format {fmt}: template {short(tpl)} with {data!r} was rejected: {val}; reference renders {short(R.text())}')
    got, missing = val
    if not strict_known and K_RESCAN in known:     # (K_SKIP was a known finding, fixed in /repo: enforced everywhere)
        if ev is not None:
            ev.exclude('known finding %s: output not compared' % K_RESCAN)
        return None
    m = refconf.match(R, got)
    R_used = R
    if not m.ok and 'undefined-variable' in R.kinds:
        R2 = refconf.render(tpl, data, fmt, 'keep')
        m2 = refconf.match(R2, got)
        if m2.ok:
            m, R_used = m2, R2
    if not m.ok:
        sig = f'{fmt}/text:{m.kind}'
        if strict_known and K_RESCAN in known and m.kind == 'mesondefine':
            sig = K_RESCAN
        if K_SKIP in known and K_RESCAN not in known:
            sig = K_SKIP
        return Failure(sig, case,
                       f'format {fmt}, data {data!r}\n template {short(tpl)}\n expected {short(R.text())}\n got      {short(got)}\n'
                       f' first disagreement at output offset {m.where} in a {m.kind!r} segment of the reference')
    if 'eol' in m.deviations:     # (was a known finding, fixed in /repo: enforced everywhere)
        return Failure(K_EOL, case,
                       f'format {fmt}: template {short(tpl)} -> {short(got)}: the terminator of the directive line was replaced by LF '
                       f'(expected {short(R.text())}; property: "copies every other byte (including line endings) unchanged")')
    required = set(R_used.missing)
    allowed = required | R_used.missing_def | R_used.missing_opt
    required |= R_used.missing_def     # (K_DEFMISS was a known finding, fixed in /repo: enforced everywhere)
    if not required <= missing:
        lost = sorted(required - missing)
        sig = f'{fmt}/missing-set:unreported'
        if set(lost) <= R_used.missing_def:
            sig = K_DEFMISS
        return Failure(sig, case,
                       f'format {fmt}: template {short(tpl)} with {data!r}: undefined name(s) {lost} not reported '
                       f'(reported: {sorted(missing)})')
    if not missing <= allowed:
        return Failure(f'{fmt}/missing-set:spurious', case,
                       f'format {fmt}: template {short(tpl)} with {data!r}: reported {sorted(missing - allowed)} which is not an '
                       'undefined placeholder name of the template')
    return None


def judge_probe(sig: str, case: dict) -> T.Optional[Failure]:
    """Probe of a confirmed finding: returns the Failure while the defect is present."""
    if sig == K_NONAME:
        st, val = impl().conf_str(''.join(case['frags']), case['data'], case['fmt'])
        if st == 'crash':
            return Failure(K_NONAME, case, f"format {case['fmt']}: template {short(''.join(case['frags']))} raised {val} "
                           '(a line "#cmakedefine" without a variable name; only a MesonException is a clean rejection)')
        return None
    return judge(case, None, strict_known=True)


def locality(case: dict) -> T.Optional[Failure]:
    """reference-free: the marker M1 (ordinary text) is copied exactly once; replacing it by M2 changes only that span"""
    fmt, data = case['fmt'], case['data']
    tpl = ''.join(case['frags'])
    if tpl.count(M1) != 1 or M2 in tpl or cmake_value_hazard(fmt, data):
        return None
    if any(isinstance(v, str) and (M1 in v or M2 in v) for v in data.values()):
        return None
    I = impl()
    s1, v1 = I.conf_str(tpl, data, fmt)
    s2, v2 = I.conf_str(tpl.replace(M1, M2), data, fmt)
    if s1 != s2:
        return Failure(f'{fmt}/locality:outcome', case, f'format {fmt}: {short(tpl)} gives {s1} but with the filler {M1!r} '
                       f'replaced by {M2!r} gives {s2}')
    if s1 != 'ok':
        return None
    (o1, m1), (o2, m2) = v1, v2
    if o1.count(M1) != 1 or o1.replace(M1, M2) != o2 or m1 != m2:
        return Failure(f'{fmt}/locality', case,
                       f'format {fmt}, data {data!r}: template {short(tpl)} -> {short(o1)}; same template with filler {M1!r} -> {M2!r} '
                       f'-> {short(o2)}; expected the two outputs to differ exactly in that span (missing {sorted(m1)} vs {sorted(m2)})')
    return None


# ---------------------------------------------------------------------------
# generators (shared pools)

NAMES = ['A', 'B', 'AB', 'var1', 'a-b', 'X_1', '0', 'T', 'E', 'I', 'Z', 'U', 'UNDEF', 'P', 'Q', 'A1']
PLAIN_VALUES: T.List[T.Any] = ['v', 'foo', 'bar baz', '"str"', '1.2.3', '', '', ' lead', 'trail ', 'x y', 'ünï', 'B', 'A', '#', '()',
                               'a\nb', 0, 1, -1, 42, -7, 10 ** 12, True, False]
SPECIAL_VALUES: T.List[T.Any] = ['@B@', '@U@', '${B}', '\\@', '@', 'a@b', '\\\\@B@', '\\@B\\@', '@A@@B@', '\\', '@@', '${', '}',
                                 '#mesondefine A', 'x @var1@ y', '\\\\', '$B', '@A', 'OFF', 'no', '0', 'X-NOTFOUND']
STATIC_FRAGS = ['@', '@', '@@', '$', '$', '{', '}', '}', '#', '\\', '\\\\', ' ', ' ', '"', 'text', 'é', '@ @', 'user@example.com, x@y.org',
                '\t', '/*c*/', '=', ';', M1, M1, M1,
                '${', '${}', '${${A}}', '@A.b@', '${A B}', '@é@']
EOLS = ['\n'] * 6 + ['\r\n'] * 3 + ['\r']


def frag_for(kind: int, n: str, k: int) -> str:
    bs = '\\' * k
    return [
        f'@{n}@', f'@{n}@', f'@{n}@', f'\\@{n}\\@', f'@{n}', f'{n}@', f'${{{n}}}', f'${{{n}}}', f'${n}', f'\\${{{n}}}', f'$${{{n}}}',
        f'{{{n}}}', f'${{{n}', f'@{n} {n}@', f'@{n}@{n}@', f'{bs}@', f'{bs}@{n}@', f'{bs}@{n}\\@', f'{bs}@{n}', f'@{n}{bs}@',
        f'@{n}@@{n}@', f'${{{n}}}${{{n}}}', f'@${{{n}}}@', f'"@{n}@"', f'{bs}${{{n}}}',
    ][kind]


N_FRAG_KINDS = 25
#               @n@ x3      \@n\@ @n n@ ${n} x2  $n \${n} $${n} {n} ${n  @n n@ @n@n@ bs@ bs@n@ bs@n\@ bs@n @n bs@ @n@@n@ ${n}${n} @${n}@ "@n@" bs${n}
_FRAG_W = [6, 6, 6,  5,  2,  2,  6, 6,     2,  3,    2,    2,  1,  2,    3,    4,  6,    5,     3,   3,     2,     2,       2,     3,    3]
FRAG_POOL = [i for i, w in enumerate(_FRAG_W) for _ in range(w)]
assert len(_FRAG_W) == N_FRAG_KINDS


def directive_for(fmt: str, shape: int, n: str, ind: str, sep: str, trail: str, rest: str) -> str:
    if fmt == 'meson':
        return [
            f'{ind}#mesondefine{sep}{n}{trail}', f'{ind}#mesondefine{sep}{n}{trail}', f'{ind}#mesondefine{sep}{n}{trail}',
            f'#mesondefine {n}', f'#mesondefine {n}', f'#mesondefine {n} {rest}', '#mesondefine', f'#mesondefine{n}',
            f'# mesondefine {n}', f'x #mesondefine {n}', f'#cmakedefine {n}', f'#cmakedefine01 {n}', f'  #cmakedefine {n} {rest}',
            f'x #cmakedefine {n}',
        ][shape]
    return [
        f'{ind}#cmakedefine{sep}{n}{trail}', f'#cmakedefine {n}', f'#cmakedefine {n} {rest}', f'#cmakedefine {n} {rest}',
        f'{ind}#cmakedefine {n} {rest}{trail}', f'#cmakedefine01 {n}', f'{ind}#cmakedefine01{sep}{n}{trail}', f'# cmakedefine {n}',
        '#cmakedefine', '#cmakedefine01', f'#cmakedefine {n}  two  blanks', f'#cmakedefine {n} B', f'#cmakedefine01 {n} {rest}',
        f'#mesondefine {n}',
    ][shape]


N_DIR_SHAPES = 14
# meson: 0-4 well-formed, 5 extra tokens (error), 6 no token, 7 glued, 8 "# mesondefine", 9 mid-line, 10-12 foreign (error), 13 mid-line foreign
# cmake: 0-6 well-formed (5,6 = 01), 7 "# cmakedefine", 8/9 no name, 10 blank runs, 11 bare key, 12 01+text, 13 foreign (error)
_DIR_W = {'meson': [8, 6, 6, 6, 6, 2, 1, 1, 2, 2, 1, 1, 1, 1], 'cmake': [8, 6, 8, 8, 6, 5, 3, 1, 1, 1, 1, 1, 1, 2]}
DIR_POOL = {k: [i for i, w in enumerate(v) for _ in range(w)] for k, v in _DIR_W.items()}
INDENTS = ['', '', '', ' ', '\t', '  ']
SEPS = [' ', ' ', ' ', '\t', '  ']
TRAILS = ['', '', '', ' ', '\t', '  ']
FILLER_ALPHA = 'abz XY09_-.,;:()[]<>/*+=!?"\'%&|~^éß→ '
SPECIAL_ALPHA = '@@$#\\\\{}AB \t"'


def gen_case(rnd: random.Random, fmt: str) -> dict:
    """seeded bulk generator (same pools as the Hypothesis strategy)"""
    data: T.Dict[str, T.Any] = {}
    special_rate = 0.35 if fmt == 'meson' else 0.02
    for n in rnd.sample(NAMES, rnd.randint(0, 9)):
        if n in ('U', 'UNDEF'):
            continue
        if n in ('P', 'Q') or rnd.random() < special_rate * 0.3:
            data[n] = rnd.choice(SPECIAL_VALUES) if rnd.random() < special_rate * 2 else rnd.choice(PLAIN_VALUES)
        else:
            data[n] = rnd.choice(PLAIN_VALUES)
    if rnd.random() < 0.3:
        data['E'] = ''
    style = rnd.choice(['lf', 'lf', 'crlf', 'cr', 'mixed', 'mixed'])
    sepp = 0.0 if fmt == 'meson' else 0.15   # cmake formats: a separator between some placeholders
    frags: T.List[str] = []
    nlines = rnd.randint(1, 5)
    for li in range(nlines):
        r = rnd.random()
        if r < 0.3:
            rest = ' '.join(frag_for(rnd.choice(FRAG_POOL), rnd.choice(NAMES), rnd.randint(1, 5))
                            for _ in range(rnd.randint(1, 3))) if rnd.random() < 0.8 else 'x'
            frags.append(directive_for(fmt, rnd.choice(DIR_POOL['meson' if fmt == 'meson' else 'cmake']),
                                       rnd.choice(NAMES[:12] if rnd.random() < 0.9 else NAMES),
                                       rnd.choice(INDENTS), rnd.choice(SEPS), rnd.choice(TRAILS), rest))
        else:
            for _ in range(rnd.randint(0, 6)):
                q = rnd.random()
                if sepp and frags and rnd.random() < sepp:
                    frags.append(rnd.choice(' ;,"='))
                if q < 0.55:
                    frags.append(frag_for(rnd.choice(FRAG_POOL), rnd.choice(NAMES), rnd.randint(1, 5)))
                elif q < 0.7:
                    frags.append(rnd.choice(STATIC_FRAGS))
                elif q < 0.85:
                    frags.append(''.join(rnd.choice(FILLER_ALPHA) for _ in range(rnd.randint(1, 6))))
                else:
                    frags.append(''.join(rnd.choice(SPECIAL_ALPHA) for _ in range(rnd.randint(1, 6))))
        if li == nlines - 1 and rnd.random() < 0.4:
            break
        frags.append({'lf': '\n', 'crlf': '\r\n', 'cr': '\r'}.get(style) or rnd.choice(EOLS))
    return {'fmt': fmt, 'frags': frags, 'data': data}


def case_strategy(fmt: str) -> T.Any:
    from hypothesis import strategies as st
    name = st.sampled_from(NAMES)
    plain = st.sampled_from(PLAIN_VALUES)
    special = st.sampled_from(SPECIAL_VALUES)
    word = st.text(alphabet='abcXYZ019 _-."', max_size=6)
    if fmt == 'meson':
        value = st.one_of(plain, plain, special, word, st.integers(-10 ** 6, 10 ** 6), st.booleans(), st.text(max_size=5))
    else:
        value = st.one_of(plain, plain, plain, word, st.integers(-10 ** 6, 10 ** 6), st.booleans(), special)
    data = st.dictionaries(st.sampled_from([n for n in NAMES if n not in ('U', 'UNDEF')]), value, max_size=7)
    chars = st.characters(blacklist_categories=['Cs'])
    inline = st.one_of(
        st.builds(frag_for, st.sampled_from(FRAG_POOL), name, st.integers(1, 5)),
        st.builds(frag_for, st.sampled_from(FRAG_POOL), name, st.integers(1, 5)),
        st.builds(frag_for, st.sampled_from(FRAG_POOL), name, st.integers(1, 5)).map(lambda x: x + ' '),
        st.sampled_from(STATIC_FRAGS),
        st.text(alphabet=FILLER_ALPHA, min_size=1, max_size=6),
        st.text(alphabet=SPECIAL_ALPHA, min_size=1, max_size=6),
        st.text(alphabet=chars, max_size=5),
    )
    rest = st.lists(st.builds(frag_for, st.sampled_from(FRAG_POOL), name, st.integers(1, 5)), min_size=1, max_size=3).map(' '.join)
    directive = st.builds(directive_for, st.just(fmt), st.sampled_from(DIR_POOL['meson' if fmt == 'meson' else 'cmake']), name, st.sampled_from(INDENTS),
                          st.sampled_from(SEPS), st.sampled_from(TRAILS), rest)
    eol = st.sampled_from(EOLS)
    line = st.one_of(st.lists(inline, max_size=5), st.lists(inline, max_size=5), directive.map(lambda d: [d]))
    lines = st.lists(st.tuples(line, eol), min_size=1, max_size=5)
    tail = st.one_of(st.just([]), line)

    def build(ls: T.List[T.Tuple[T.List[str], str]], tl: T.List[str], d: dict, crlf: bool) -> dict:
        frags: T.List[str] = []
        for fr, e in ls:
            frags.extend(fr)
            frags.append('\r\n' if crlf else e)
        frags.extend(tl)
        return {'fmt': fmt, 'frags': frags, 'data': d}

    return st.builds(build, lines, tail, data, st.booleans())


def text_strategy(fmt: str) -> T.Any:
    """arbitrary text (the 'fuzz' profile): any unicode except surrogates, biased towards the special characters"""
    from hypothesis import strategies as st
    chars = st.characters(blacklist_categories=['Cs'])
    piece = st.one_of(st.text(alphabet=chars, max_size=8), st.text(alphabet='@$#\\{}ABU \n\r\t', max_size=8),
                      st.sampled_from(['#mesondefine ', '#cmakedefine ', '#cmakedefine01 ', '@A@', '${A}', '\\@', '\r\n']))
    data = st.dictionaries(st.sampled_from(['A', 'B', 'AB']), st.one_of(st.sampled_from(['v', '', 'x y', 7, 0, True, False]),
                                                                           st.text(alphabet='ab @\\', max_size=4)), max_size=3)
    return st.builds(lambda fr, d: {'fmt': fmt, 'frags': fr, 'data': d}, st.lists(piece, max_size=8), data)


# ---------------------------------------------------------------------------
# shards: template text

def _run_one(case: dict, ev: Evidence, cls: str) -> T.Optional[Failure]:
    f = judge(case, ev, cls=cls)
    if f is None and M1 in case['frags']:
        f = locality(case)
        ev.event('locality-pairs')
    return f


def _shrink_frags(f: Failure) -> Failure:
    case = f.case
    if not isinstance(case, dict) or 'frags' not in case:
        return f
    best = [f]

    def still(frs: list) -> bool:
        c = dict(case, frags=frs)
        g = judge(c, None) or (locality(c) if M1 in frs else None)
        if g is not None and g.sig == f.sig:
            best[0] = g
            return True
        return False

    frs = minimize_list(list(case['frags']), still, max_tests=400)
    # then drop data entries
    keys = sorted(best[0].case['data'])

    def still_d(ks: list) -> bool:
        c = dict(best[0].case, data={k: best[0].case['data'][k] for k in ks})
        g = judge(c, None) or (locality(c) if M1 in c['frags'] else None)
        if g is not None and g.sig == f.sig:
            best[0] = g
            return True
        return False

    if len(keys) >= 2:
        minimize_list(keys, still_d, max_tests=100)
    del frs
    return best[0]


def _bulk_shard(shard: T.Tuple[int, int], ev: Evidence, fails: T.List[Failure]) -> None:
    seed, n = shard
    rnd = random.Random(seed)
    seen: T.Dict[str, Failure] = {}
    for i in range(n):
        fmt = FORMATS[i % 3] if i % 4 else 'meson'
        case = gen_case(rnd, fmt)
        f = _run_one(case, ev, 'bulk')
        if f is not None and f.sig not in seen and len(seen) < 8:
            seen[f.sig] = f
    for f in seen.values():
        fails.append(_shrink_frags(f))


def _hyp_shard(shard: T.Tuple[int, int, str, str], ev: Evidence, fails: T.List[Failure]) -> None:
    seed, n, fmt, profile = shard
    strat = case_strategy(fmt) if profile == 'frag' else text_strategy(fmt)
    cls = 'hyp' if profile == 'frag' else 'text'
    campaign(strat, lambda case: _run_one(case, ev, cls), n, seed, fails)


ENUM_ALPHA = {
    'meson': ['\\', '@', 'A', 'U', ' '],
    'cmake': ['$', '{', '}', '@', 'A', 'E', '\\'],
    'cmake@': ['@', 'A', 'U', 'E', '\\', '$'],
}
ENUM_DATA = {'A': 'v', 'E': ''}


def _enum_shard(shard: T.Tuple[str, T.Tuple[str, ...], int], ev: Evidence, fails: T.List[Failure]) -> None:
    """all strings prefix+tail with len <= maxlen (prefix () with maxlen 1 = the single characters)"""
    fmt, prefix, maxlen = shard
    alpha = ENUM_ALPHA[fmt]
    seen: T.Set[str] = set()
    n = nt = nex = 0
    for L in range(0, maxlen - len(prefix) + 1):
        for tail in itertools.product(alpha, repeat=L):
            tpl = ''.join(prefix) + ''.join(tail)
            if not tpl:
                continue
            n += 1
            R = refconf.render(tpl, ENUM_DATA, fmt, 'empty')
            if R.grey or K_RESCAN in R.known:
                nex += 1
            elif len(R.kinds) >= 2:
                nt += 1
            f = judge({'fmt': fmt, 'frags': [tpl], 'data': ENUM_DATA}, None)
            if f is not None and f.sig not in seen:
                seen.add(f.sig)
                fails.append(f)    # shortest-first per shard: already minimal for this prefix
    ev.evaluations += n
    ev.add_distinct(nt)
    ev.event(f'enum:{fmt}', n)
    if nex:
        ev.exclude(f'enumeration ({fmt}): string falls into an undocumented region or a known-finding class (only the no-crash oracle applied)', nex)
    if len(prefix) == 2 and prefix[0] == alpha[1] and prefix[1] == alpha[2]:
        ev.case({'fmt': fmt, 'frags': [''.join(prefix) + alpha[1] + alpha[0] + alpha[1]], 'data': ENUM_DATA}, cls='enum-sample:' + fmt, n=0)


# ---------------------------------------------------------------------------
# header generated without a template

HDR_KEY_ALPHA = 'ABab01_-Zz'


def gen_header_case(rnd: random.Random) -> dict:
    keys: T.List[str] = []
    for _ in range(rnd.randint(0, 7)):
        k = ''.join(rnd.choice(HDR_KEY_ALPHA) for _ in range(rnd.randint(1, 4)))
        if k not in keys:
            keys.append(k)
    vals = [x for x in PLAIN_VALUES + SPECIAL_VALUES if not (isinstance(x, str) and '\n' in x)]
    data = [[k, rnd.choice(vals)] for k in keys]
    descs = {k: rnd.choice(['a description', 'x', 'with @A@ and ${B}', 'ünï']) for k in keys if rnd.random() < 0.3}
    of = rnd.choice(['c', 'c', 'nasm', 'json'])
    macro = rnd.choice([None, None, 'GUARD_H', 'CONFIG_H_']) if of == 'c' else None
    return {'mode': 'header', 'of': of, 'macro': macro, 'items': data, 'descs': descs}


def header_strategy() -> T.Any:
    from hypothesis import strategies as st
    key = st.text(alphabet=HDR_KEY_ALPHA, min_size=1, max_size=4)
    noline = st.characters(blacklist_categories=['Cs', 'Cc', 'Zl', 'Zp'])
    val = st.one_of(st.sampled_from([x for x in PLAIN_VALUES + SPECIAL_VALUES if not (isinstance(x, str) and '\n' in x)]),
                    st.integers(-10 ** 9, 10 ** 9), st.booleans(), st.text(alphabet=noline, max_size=6))
    items = st.lists(st.tuples(key, val).map(list), max_size=7, unique_by=lambda kv: kv[0])
    return st.builds(lambda it, of, mac, ds: {'mode': 'header', 'of': of, 'macro': mac if of == 'c' else None, 'items': it,
                                              'descs': {kv[0]: d for kv, d in zip(it, ds) if d}},
                     items, st.sampled_from(['c', 'c', 'nasm', 'json']), st.sampled_from([None, None, 'GUARD_H']),
                     st.lists(st.sampled_from(['', '', 'desc', 'two words', '@A@']), min_size=7, max_size=7))


def header_preconditions(case: dict) -> T.Optional[str]:
    for k, v in case['items']:
        if isinstance(v, str) and any(c in v for c in '\n\r\x0b\x0c\x1c\x1d\x1e\x85  '):
            return 'header mode: value containing a line separator'
        if case['macro'] and k == case['macro']:
            return 'header mode: macro_name equal to a key'
    return None


def judge_header(case: dict, ev: T.Optional[Evidence], scratch: str) -> T.Optional[Failure]:
    I = impl()
    pre = header_preconditions(case)
    if pre:
        if ev is not None:
            ev.case(case, cls='header:excluded')
            ev.exclude(pre)
        return None
    items = case['items']
    data = {k: v for k, v in items}
    descs = case['descs']
    cd = I.CD({k: (v, descs.get(k)) for k, v in items})    # insertion order = generation order (unsorted)
    path = os.path.join(scratch, 'hdr-%d.out' % os.getpid())
    of = case['of']
    if ev is not None:
        ks = [k for k, _ in items]
        ev.case(case, nontrivial=len(ks) >= 2 and ks != sorted(ks), cls='header:' + of)
    try:
        I.u.dump_conf_header(path, cd, of, case['macro'])
    except I.ME as e:
        return Failure(f'header-{of}/unexpected-MesonException', case, f'dump_conf_header rejected {items!r}: {e}')
    except Exception as e:
        return Failure(f'header-{of}/crash:{type(e).__name__}', case, f'dump_conf_header({items!r}, {of}) raised {type(e).__name__}: {e}')
    with open(path, encoding='utf-8', newline='') as fh:
        got = fh.read()
    r = refconf.check_header(got, data, descs if of != 'json' else {}, of, case['macro'])
    if r is not None:
        return Failure(f'header-{of}/{r[0]}', case, f'header without template, output_format={of}, macro_name={case["macro"]!r}, '
                       f'data (insertion order) {items!r}: {r[1]}\n output {short(got, 600)}')
    return None


def _header_shard(shard: T.Tuple[int, int, int], ev: Evidence, fails: T.List[Failure]) -> None:
    from harness.core import make_scratch
    seed, nbulk, nhyp = shard
    scratch = make_scratch('C14h')
    try:
        rnd = random.Random(seed)
        seen: T.Dict[str, Failure] = {}
        for _ in range(nbulk):
            case = gen_header_case(rnd)
            f = judge_header(case, ev, scratch)
            if f is not None and f.sig not in seen:
                seen[f.sig] = f
        for f in seen.values():
            best = [f]

            def still(items: list, f: Failure = f, best: list = best) -> bool:
                g = judge_header(dict(f.case, items=items, descs={k: d for k, d in f.case['descs'].items() if k in [i[0] for i in items]}),
                                 None, scratch)
                if g is not None and g.sig == f.sig:
                    best[0] = g
                    return True
                return False
            minimize_list(list(f.case['items']), still, max_tests=200)
            fails.append(best[0])
        campaign(header_strategy(), lambda case: judge_header(case, ev, scratch), nhyp, seed, fails)
    finally:
        shutil.rmtree(scratch, ignore_errors=True)


# ---------------------------------------------------------------------------
# the real configure_file()

def meson_str(s: str) -> str:
    out = ["'"]
    for c in s:
        o = ord(c)
        if c == '\\':
            out.append('\\\\')
        elif c == "'":
            out.append("\\'")
        elif c == '\n':
            out.append('\\n')
        elif c == '\r':
            out.append('\\r')
        elif c == '\t':
            out.append('\\t')
        elif o < 0x20 or o == 0x7f:
            out.append('\\x%02x' % o)
        elif o < 0x7f:
            out.append(c)
        elif o <= 0xffff:
            out.append('\\u%04x' % o)
        else:
            out.append('\\U%08x' % o)
    out.append("'")
    return ''.join(out)


def meson_val(v: T.Any) -> str:
    if isinstance(v, bool):
        return 'true' if v else 'false'
    if isinstance(v, int):
        return str(v)
    return meson_str(v)


def project_ok(case: dict) -> bool:
    """can this case be written as a meson project without touching unrelated machinery?"""
    vals = [v for _, v in case['items']] if case.get('mode') == 'header' else list(case['data'].values())
    for v in vals:
        if isinstance(v, str) and ('\x00' in v):
            return False
        if isinstance(v, int) and not isinstance(v, bool) and abs(v) > 2 ** 31:
            return False
    if case.get('mode') != 'header':
        tpl = ''.join(case['frags'])
        if '\x00' in tpl:
            return False
        if case.get('encoding') == 'iso-8859-1' and any(ord(c) > 255 for c in tpl + ''.join(v for v in vals if isinstance(v, str))):
            return False
    return True


def write_project(root: str, cases: T.List[dict]) -> None:
    from harness.mesondrv import write_tree
    lines = ["project('c14', meson_version: '>=1.3.0')"]
    files: T.Dict[str, T.Union[str, bytes]] = {}
    for i, c in enumerate(cases):
        as_dict = c.get('as_dict', False)
        if c.get('mode') == 'header':
            items = c['items']
            if as_dict and not c['descs']:
                conf = '{' + ', '.join(f'{meson_str(k)}: {meson_val(v)}' for k, v in items) + '}'
            else:
                lines.append(f'cd{i} = configuration_data()')
                for k, v in items:
                    d = c['descs'].get(k)
                    lines.append(f'cd{i}.set({meson_str(k)}, {meson_val(v)}' + (f', description: {meson_str(d)}' if d else '') + ')')
                conf = f'cd{i}'
            kw = f"output: 'o{i}.out', configuration: {conf}, output_format: '{c['of']}'"
            if c['macro']:
                kw += f", macro_name: '{c['macro']}'"
            lines.append(f'configure_file({kw})')
        else:
            enc = c.get('encoding', 'utf-8')
            files[f't{i}.in'] = ''.join(c['frags']).encode(enc)
            if as_dict:
                conf = '{' + ', '.join(f'{meson_str(k)}: {meson_val(v)}' for k, v in c['data'].items()) + '}'
            else:
                lines.append(f'cd{i} = configuration_data()')
                for k, v in c['data'].items():
                    lines.append(f'cd{i}.set({meson_str(k)}, {meson_val(v)})')
                conf = f'cd{i}'
            kw = f"input: 't{i}.in', output: 'o{i}.out', configuration: {conf}, format: '{c['fmt']}'"
            if enc != 'utf-8':
                kw += f", encoding: '{enc}'"
            lines.append(f'configure_file({kw})')
    files['meson.build'] = '\n'.join(lines) + '\n'
    write_tree(root, files)


def parse_missing(out: str, i: int) -> T.Set[str]:
    res: T.Set[str] = set()
    tag = f" in the input file 't{i}.in' are not present in the given configuration data"
    for line in out.splitlines():
        k = line.find(tag)
        if k < 0:
            continue
        a = line.find('The variable(s) ')
        if a < 0 or a > k:
            continue
        for part in line[a + len('The variable(s) '):k].split(', '):
            part = part.strip()
            if len(part) >= 2 and part[0] == part[-1] and part[0] in '\'"':
                res.add(part[1:-1])
    return res


def judge_project_output(c: dict, i: int, bdir: str, out: str) -> T.Optional[Failure]:
    """compare what configure_file() wrote for case i"""
    path = os.path.join(bdir, f'o{i}.out')
    if not os.path.exists(path):
        return Failure('configure_file/no-output', c, f'configure_file() succeeded but {path} does not exist')
    with open(path, 'rb') as fh:
        raw = fh.read()
    enc = c.get('encoding', 'utf-8')
    try:
        got = raw.decode(enc)
    except UnicodeDecodeError as e:
        return Failure('configure_file/output-encoding', c, f'output of configure_file() is not valid {enc}: {e}')
    if c.get('mode') == 'header':
        data = {k: v for k, v in c['items']}
        r = refconf.check_header(got, data, c['descs'] if c['of'] != 'json' else {}, c['of'], c['macro'])
        if r is not None:
            return Failure(f'configure_file/header-{c["of"]}/{r[0]}', c, f'configure_file(output_format: {c["of"]}) with {c["items"]!r}: {r[1]}\n output {short(got, 600)}')
        return None
    fmt, tpl, data = c['fmt'], ''.join(c['frags']), c['data']
    R = refconf.render(tpl, data, fmt, 'empty')
    m = refconf.match(R, got)
    if not m.ok and 'undefined-variable' in R.kinds:
        R2 = refconf.render(tpl, data, fmt, 'keep')
        if refconf.match(R2, got).ok:
            m, R = refconf.match(R2, got), R2
    if not m.ok:
        return Failure(f'configure_file/{fmt}/text:{m.kind}', c,
                       f'configure_file(format: {fmt}, encoding: {enc}), data {data!r}\n template {short(tpl)}\n expected {short(R.text())}\n got      {short(got)}')
    missing = parse_missing(out, i)
    allowed = R.missing | R.missing_def | R.missing_opt
    if not R.missing <= missing:
        return Failure(f'configure_file/{fmt}/missing-warning:unreported', c,
                       f'configure_file(format: {fmt}): undefined name(s) {sorted(R.missing - missing)} of template {short(tpl)} are not named in a '
                       f'"The variable(s) ... are not present" warning (named: {sorted(missing)})')
    if not missing <= allowed:
        return Failure(f'configure_file/{fmt}/missing-warning:spurious', c,
                       f'configure_file(format: {fmt}): warning names {sorted(missing - allowed)} which are not undefined placeholders of {short(tpl)}')
    return None


def run_project(cases: T.List[dict], scratch: str, tag: str, inproc: bool) -> T.Tuple[T.Any, str]:
    from harness.mesondrv import run_inproc, run_sub
    root = os.path.join(scratch, tag)
    shutil.rmtree(root, ignore_errors=True)
    os.makedirs(root)
    write_project(os.path.join(root, 'src'), cases)
    args = ['setup', '--backend=none', os.path.join(root, 'build'), os.path.join(root, 'src')]
    r = run_inproc(args) if inproc else run_sub(args)
    return r, os.path.join(root, 'build')


def judge_single_project(c: dict, scratch: str, tag: str, inproc: bool) -> T.Optional[Failure]:
    r, bdir = run_project([c], scratch, tag, inproc)
    expect_error = c.get('expect_error')
    if r.unhandled:
        return Failure('configure_file/unhandled-exception', c, f'meson setup crashed on configure_file() case: {r.text[-1500:]}')
    if expect_error:
        if r.rc == 0:
            return Failure(f'configure_file/error-not-raised:{expect_error}', c, f'configure_file() accepted a template that must be rejected ({expect_error})')
        return None
    if r.rc != 0:
        return Failure('configure_file/unexpected-error', c, f'meson setup failed (rc={r.rc}) on a valid template: {r.text[-1200:]}')
    return judge_project_output(c, 0, bdir, r.out)


def _project_shard(shard: T.Tuple[int, int, int], ev: Evidence, fails: T.List[Failure]) -> None:
    from harness.core import make_scratch
    seed, nbatches, per = shard
    scratch = make_scratch('C14p')
    rnd = random.Random(seed)
    seen: T.Dict[str, Failure] = {}
    try:
        for b in range(nbatches):
            batch: T.List[dict] = []
            singles: T.List[dict] = []
            tries = 0
            while len(batch) < per and tries < per * 30:
                tries += 1
                if rnd.random() < 0.2:
                    c = gen_header_case(rnd)
                    if header_preconditions(c) or not project_ok(c):
                        continue
                    c['as_dict'] = rnd.random() < 0.3
                    batch.append(c)
                    continue
                c = gen_case(rnd, rnd.choice(FORMATS))
                c['as_dict'] = rnd.random() < 0.3
                if rnd.random() < 0.25:
                    c['encoding'] = 'iso-8859-1'
                if cmake_value_hazard(c['fmt'], c['data']) or not project_ok(c):
                    continue
                R = refconf.render(''.join(c['frags']), c['data'], c['fmt'], 'empty')
                if R.grey or K_RESCAN in R.known:
                    ev.exclude('configure_file sample: undocumented region or known-finding class')
                    continue
                if R.error:
                    if len(singles) < 1:
                        c['expect_error'] = R.error
                        singles.append(c)
                    continue
                batch.append(c)
            r, bdir = run_project(batch, scratch, 'b', True)
            results: T.List[T.Tuple[dict, T.Optional[Failure]]] = []
            if r.rc != 0 or r.unhandled:
                # some case broke the whole project: judge them one by one
                for c in batch:
                    results.append((c, judge_single_project(c, scratch, 's', True)))
            else:
                for i, c in enumerate(batch):
                    results.append((c, judge_project_output(c, i, bdir, r.out)))
            for c in singles:
                results.append((c, judge_single_project(c, scratch, 's', True)))
            for c, f in results:
                cls = 'configure_file:header' if c.get('mode') == 'header' else 'configure_file:' + c['fmt']
                nt = False
                if c.get('mode') != 'header':
                    nt = nontrivial_kinds(refconf.render(''.join(c['frags']), c['data'], c['fmt'], 'empty'))
                ev.case(c, nontrivial=nt, cls=cls)
                if c.get('encoding'):
                    ev.event('configure_file:encoding=' + c['encoding'])
                if c.get('as_dict'):
                    ev.event('configure_file:configuration-as-dict')
                if f is None:
                    continue
                # DESIGN 1.2/5: confirm in a fresh process before it may become a violation
                g = judge_single_project(c, scratch, 'confirm', False)
                if g is None:
                    ev.inproc_only += 1
                    continue
                if g.sig not in seen:
                    seen[g.sig] = g
        fails.extend(seen.values())
    finally:
        shutil.rmtree(scratch, ignore_errors=True)


# ---------------------------------------------------------------------------
# self-test of the reference model (exit 2 when it disagrees with the docs / pinned fixtures)

def _fixture(rel: str) -> str:
    with open(os.path.join(REPO, 'test cases', 'common', rel), encoding='utf-8', newline='') as fh:
        return fh.read()


def _expect(cond: bool, what: str) -> None:
    if not cond:
        raise HarnessError('reference model self-test failed: ' + what)


def selftest(ctx: Ctx) -> None:
    d14 = '14 configure file'
    # (template, data, format, program) - data copied from "14 configure file/meson.build"
    fx = [
        ('config.h.in', {'var': 'mystring', 'other': 'string 2', 'second': ' bonus', 'BE_TRUE': True}, 'meson', 'prog.c', 'config.h'),
        ('config5.h.in', {'var': '@var2@', 'var2': 'error'}, 'meson', 'prog5.c', 'config5.h'),
        ('config6.h.in', {'var1': 'foo', 'var2': 'bar', 'var3': 'baz', 'var4': 'qux'}, 'meson', 'prog6.c', 'config6.h'),
        ('config7.h.in', {'var1': 'foo', 'var2': 'bar'}, 'cmake', 'prog7.c', 'config7.h'),
        ('config10.h.in', {'var': 'foo'}, 'cmake', 'prog10.c', 'config10.h'),
    ]
    gcc = shutil.which('gcc') or shutil.which('cc')
    work = os.path.join(ctx.scratch, 'selftest')
    os.makedirs(work, exist_ok=True)
    for tname, data, fmt, prog, hname in fx:
        tpl = _fixture(f'{d14}/{tname}')
        R = refconf.render(tpl, data, fmt)
        _expect(not R.grey and not R.error, f'{tname}: reference calls the pinned fixture undocumented/erroneous: {R.grey} {R.error}')
        text = R.text()
        ptxt = _fixture(f'{d14}/{prog}')
        # every strcmp(MESSAGEn, "...") of the program must hold for the C value of the rendered #define
        pos, n = 0, 0
        while True:
            k = ptxt.find('strcmp(', pos)
            if k < 0:
                break
            comma = ptxt.find(',', k)
            macro = ptxt[k + len('strcmp('):comma].strip()
            want = refconf.c_string_literal_after(ptxt[comma:], ',')
            have = refconf.c_string_literal_after(text, f'#define {macro} ')
            _expect(want is not None and have is not None, f'{tname}: cannot locate {macro}')
            _expect(refconf.c_unescape(have) == refconf.c_unescape(want),
                    f'{tname}: {macro} renders as C value {refconf.c_unescape(have)!r}, {prog} expects {refconf.c_unescape(want)!r}')
            n += 1
            pos = comma
        _expect(n >= 1, f'{prog}: no strcmp found')
        if gcc:
            with open(os.path.join(work, hname), 'w', encoding='utf-8', newline='') as fh:
                fh.write(text)
            exe = os.path.join(work, prog + '.exe')
            p = subprocess.run([gcc, '-w', '-I', work, '-o', exe, os.path.join(REPO, 'test cases', 'common', d14, prog)],
                               capture_output=True, text=True)
            _expect(p.returncode == 0, f'{prog} does not compile against the reference rendering of {tname}: {p.stderr[-500:]}')
            _expect(subprocess.run([exe]).returncode == 0, f'{prog} fails against the reference rendering of {tname}')
    # header without template: dumpprog.c / prog9.c of the same fixture, "31 define10"
    if gcc:
        def q(s: str) -> str:   # set_quoted as pinned by dumpprog.c
            return '"' + s.replace('"', '\\"') + '"'
        dump = {'SHOULD_BE_STRING': q('string'), 'SHOULD_BE_STRING2': q('A "B" C'), 'SHOULD_BE_STRING3': q('A "" C'),
                'SHOULD_BE_STRING4': q('A " C'), 'SHOULD_BE_RETURN': 'return', 'SHOULD_BE_DEFINED': True, 'SHOULD_BE_UNDEFINED': False,
                'SHOULD_BE_ONE': 1, 'SHOULD_BE_ZERO': 0, 'SHOULD_BE_QUOTED_ONE': '"1"', 'INTEGER_AS_STRING': q('12'),
                'SHOULD_BE_UNQUOTED_STRING': 'string'}
        hdrs = [('config3.h', dump, {'SHOULD_BE_STRING': 'A string', 'SHOULD_BE_ZERO': 'Absolutely zero'}, None, 'dumpprog.c', d14),
                ('config9a.h', {'A_STRING': '"foo"', 'A_INT': 42, 'A_DEFINED': True, 'A_UNDEFINED': False, 'A_PATH': '"/random/path"'}, {}, None, None, d14),
                ('config9b.h', {'B_STRING': '"foo"', 'B_INT': 42, 'B_DEFINED': True, 'B_UNDEFINED': False}, {}, 'G_H', 'prog9.c', d14)]
        for hname, data, descs, macro, prog, d in hdrs:
            text = refconf.render_header(data, descs, 'c', macro)
            _expect(refconf.check_header(text, data, descs, 'c', macro) is None, f'{hname}: canonical header fails its own validity predicate')
            with open(os.path.join(work, hname), 'w', encoding='utf-8') as fh:
                fh.write(text)
            if prog:
                exe = os.path.join(work, prog + '.exe')
                p = subprocess.run([gcc, '-w', '-I', work, '-o', exe, os.path.join(REPO, 'test cases', 'common', d, prog)], capture_output=True, text=True)
                _expect(p.returncode == 0, f'{prog} does not compile against the reference header: {p.stderr[-500:]}')
                _expect(subprocess.run([exe], capture_output=True).returncode == 0, f'{prog} fails against the reference header')
        R = refconf.render(_fixture('31 define10/config.h.in'), {'ONE': 1, 'ZERO': 0}, 'meson')
        with open(os.path.join(work, 'config.h'), 'w') as fh:
            fh.write(R.text())
        exe = os.path.join(work, 'p10.exe')
        p = subprocess.run([gcc, '-w', '-I', work, '-iquote', work, '-o', exe, os.path.join(REPO, 'test cases', 'common', '31 define10', 'prog.c')],
                           capture_output=True, text=True)
        _expect(p.returncode == 0 and subprocess.run([exe]).returncode == 0, '31 define10/prog.c fails against the reference rendering')
    else:
        ctx.note('no C compiler: fixture programs checked by C-literal comparison only')

    # vectors pinned by unittests/allplatformstests.py::test_do_conf_file_by_format (+ Configuration.md examples)
    def one(tpl: str, data: dict, fmt: str) -> refconf.Ref:
        return refconf.render(tpl, data, fmt)
    vec = [
        ('#define VERSION_STR "@version@"\n', {'version': '1.2.3'}, 'meson', '#define VERSION_STR "1.2.3"\n'),          # Configuration.md:26-33
        ('#mesondefine TOKEN\n', {'TOKEN': True}, 'meson', '#define TOKEN\n'),                                        # Configuration.md:52-55
        ('#mesondefine TOKEN\n', {'TOKEN': False}, 'meson', '#undef TOKEN\n'),
        ('#mesondefine TOKEN\n', {'TOKEN': 4}, 'meson', '#define TOKEN 4\n'),
        ('#mesondefine TOKEN\n', {'TOKEN': '"value"'}, 'meson', '#define TOKEN "value"\n'),                          # Configuration.md:62,70
        ('#mesondefine VAR', {}, 'meson', '/* #undef VAR */'),
        ('#cmakedefine VAR ${VAR}', {}, 'cmake', '/* #undef VAR */'),
        ('#cmakedefine VAR @VAR@', {}, 'cmake@', '/* #undef VAR */'),
        ('#cmakedefine VAR ${VAR}', {'VAR': False}, 'cmake', '/* #undef VAR */'),
        ('#cmakedefine VAR', {'VAR': True}, 'cmake', '#define VAR'),
        ('#cmakedefine VAR ${VAR}', {'VAR': True}, 'cmake', '#define VAR 1'),
        ('#cmakedefine VAR @VAR@', {'VAR': True}, 'cmake@', '#define VAR 1'),
        ('#cmakedefine VAR ${VAR}', {'VAR': 'value'}, 'cmake', '#define VAR value'),
        ('#cmakedefine VAR @VAR@', {'VAR': 10}, 'cmake@', '#define VAR 10'),
        ('#cmakedefine01 VAR', {'VAR': True}, 'cmake', '#define VAR 1'),
        ('#cmakedefine01 VAR', {'VAR': 0}, 'cmake', '#define VAR 0'),
        ('#cmakedefine01 VAR', {'VAR': False}, 'cmake', '#define VAR 0'),
        ('#cmakedefine01 VAR', {}, 'cmake', '#define VAR 0'),
        ('#cmakedefine VAR', {'VAR': 5}, 'cmake', '#define VAR'),
        ('#cmakedefine VAR xxx @VAR@ yyy @VAR@', {'VAR': 'value'}, 'cmake@', '#define VAR xxx value yyy value'),
        ('#define VAR xxx @VAR@ yyy @VAR@', {'VAR': 'value'}, 'cmake@', '#define VAR xxx value yyy value'),
        ('#cmakedefine VAR xxx ${VAR} yyy ${VAR}', {'VAR': 'value'}, 'cmake', '#define VAR xxx value yyy value'),
        ('#define VAR xxx ${VAR} yyy ${VAR}', {'VAR': 'value'}, 'cmake', '#define VAR xxx value yyy value'),
        ('@VAR@\r\n@VAR@\r\n', {'VAR': 'foo'}, 'meson', 'foo\r\nfoo\r\n'),                                          # test_do_conf_file_preserve_newlines
    ]
    for tpl, data, fmt, want in vec:
        R = one(tpl, data, fmt)
        _expect(not R.grey and R.error is None and R.text() == want, f'{fmt} {tpl!r} {data!r}: reference renders {R.text()!r} (grey={R.grey}), pinned {want!r}')
        _expect(refconf.match(R, want).ok, f'matcher rejects pinned output {want!r}')
        if any(sg[0] == 'def' for sg in R.segs) and not want.endswith('\n'):
            # the unit test feeds lines without terminator and pins a final LF in the result
            _expect(refconf.match(R, want + '\n').ok, f'matcher rejects pinned output {want!r} + LF')
    for tpl, fmt in [('#mesondefine VAR xxx', 'meson'), ('#cmakedefine VAR', 'meson'), ('#mesondefine VAR', 'cmake'), ('#mesondefine VAR', 'cmake@')]:
        _expect(one(tpl, {'VAR': 'value'}, fmt).error is not None, f'{fmt} {tpl!r}: pinned as MesonException')
    _expect(refconf.split_lines('a\r\nb\rc\n\nd') == [('a', '\r\n'), ('b', '\r'), ('c', '\n'), ('', '\n'), ('d', '')], 'split_lines')
    R = one('@A@ @U@', {'A': 'x'}, 'meson')
    _expect(R.missing == {'U'} and R.text() == 'x ', 'missing set')
    _expect(not refconf.match(one('a@A@b', {'A': 'x'}, 'meson'), 'a@A@b').ok, 'matcher accepts an unsubstituted placeholder')
    _expect(refconf.check_header('#pragma once\n#define B 1\n#define A 1\n', {'A': 1, 'B': 1}, {}, 'c', None) is not None, 'check_header accepts unsorted keys')
    _expect(refconf.check_header('#pragma once\n#define A 1\n', {'A': 1, 'B': 1}, {}, 'c', None) is not None, 'check_header accepts a missing key')
    _expect(refconf.check_header('{"b": 1, "a": 1}', {'a': 1, 'b': 1}, {}, 'json', None) is not None, 'check_header accepts unsorted json')
    _expect(refconf.check_header('{"a": 1}', {'a': True}, {}, 'json', None) is not None, 'check_header confuses true and 1')


# ---------------------------------------------------------------------------

def run(ctx: Ctx) -> None:
    # 1. probes of the confirmed findings (deterministic; each yields its Failure while the defect exists)
    for sig, case in PROBES:
        f = judge_probe(sig, case)
        ctx.ev.case(case, nontrivial=True, cls='finding-probe')
        ctx.fail(f)
    # 2. exhaustive enumeration over small alphabets
    shards = []
    for fmt, L in (('meson', ctx.n(7, 9)), ('cmake', ctx.n(6, 7)), ('cmake@', ctx.n(6, 8))):
        alpha = ENUM_ALPHA[fmt]
        shards.append((fmt, (), 1))
        for a in alpha:
            for b in alpha:
                shards.append((fmt, (a, b), L))
    pmap(ctx, _enum_shard, shards)
    ctx.ev.extra['exhaustive_scope'] = ('all strings up to the stated length over the per-format alphabets '
                                        f'{ENUM_ALPHA} with data {ENUM_DATA} (lengths: meson {ctx.n(7, 9)}, cmake {ctx.n(6, 7)}, cmake@ {ctx.n(6, 8)}); '
                                        'everything else is sampled')
    ctx.exhaustive = False
    # 3. seeded bulk generator
    nb = ctx.n(25000, 400000)
    pmap(ctx, _bulk_shard, [(s, nb) for s in shard_seeds(ctx, 16)])
    # 4. Hypothesis: fragment grammar + arbitrary text
    nh = ctx.n(1000, 20000)
    seeds = shard_seeds(ctx, 48)
    sh = []
    for i, s in enumerate(seeds):
        fmt = FORMATS[i % 3]
        prof = 'frag' if (i // 3) % 4 else 'text'
        sh.append((s, nh if prof == 'frag' else nh // 2, fmt, prof))
    pmap(ctx, _hyp_shard, sh)
    # 5. header without template
    pmap(ctx, _header_shard, [(s, ctx.n(3000, 60000), ctx.n(300, 5000)) for s in shard_seeds(ctx, 16)])
    # 6. the real configure_file()
    pmap(ctx, _project_shard, [(s, ctx.n(5, 60), 12) for s in shard_seeds(ctx, 16)])


def replay(ctx: Ctx, case: T.Any, doc: dict) -> T.Optional[Failure]:
    sig = doc.get('signature', '')
    if sig.startswith('configure_file/'):
        from harness.core import make_scratch
        scratch = make_scratch('C14r')
        try:
            return judge_single_project(case, scratch, 'replay', False)
        finally:
            shutil.rmtree(scratch, ignore_errors=True)
    if isinstance(case, dict) and case.get('mode') == 'header':
        return judge_header(case, None, ctx.scratch)
    if sig in (K_RESCAN, K_EOL, K_SKIP, K_DEFMISS, K_NONAME):
        return judge_probe(sig, case)
    f = judge(case, None, strict_known=True)
    if f is None and M1 in case.get('frags', []):
        f = locality(case)
    return f
