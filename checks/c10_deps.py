"""C10 - Dependencies resolve by the documented fallback policy, from verified sources.

(A) decision table + lookup sequences: every cell is one real `meson setup --backend=none` on a generated
    project (private PKG_CONFIG_LIBDIR, pkg-config wrapper that logs its invocations); the oracle is the
    state machine in harness/refdeps.py, transcribed from the docs.
(B) wrap integrity: generated [wrap-file] wraps (file:// and http://127.0.0.1 URLs), archives built on the
    fly each carrying a unique marker; oracle: a marker may sit under subprojects/ only if the archive it
    came from is *verified* (harness/refdeps.verified_variants), successful runs are fully prepared,
    nodownload fetches nothing, a failed patch/diff step leaves no directory.
"""
from __future__ import annotations

import io
import itertools
import json
import os
import random
import shutil
import tarfile
import threading
import typing as T
import zipfile

from harness.core import Ctx, Evidence, Failure, HarnessError, pmap, make_scratch
from harness import refdeps as R

LEVEL = 'fault_enumeration'
RULE = ('(A) cross product system{absent,1.0,2.0} x constraint{none,>=1.5,<1.5,>=3} x provider{none, subproject dir, wrap [provide] '
        'foo=foo_dep, wrap dependency_names; subproject overriding or not} x sp version{1.0,2.0} x wrap_mode x force_fallback_for{-,foo,sp} '
        'x pre-step{none, subproject(), parent override 1.0/2.0} x required{true,false,auto,disabled(+enabled/default samples)} x '
        '(allow_fallback,fallback){unset/true/false x none, explicit with/without variable}, pruned of undefined combinations; one '
        '`meson setup --backend=none` per cell (quick: seeded sample; thorough: all). Sequences: all patterns XX, XXX, XY, XYX, XSX, XSY, '
        'SXY, OXY over 6 lookup variants x a configuration grid (quick: core grid; thorough: extended grid). Multi-name lookups dependency(a, b[, c]) x which names the system has x which were overridden beforehand x middle step {nothing, subproject overriding one or both names, late override_dependency}: a successful configuration in which the first lookup found something must give the repeated lookup the same (found, name, version). Search-path histories: configured with pkg_config_path=A, reconfigured with pkg_config_path=B (each holding another version or nothing, with and without fallback / version constraint / static) must resolve like a fresh configuration with B. non-trivial (A) = at least two '
        'of {system present, provider present, force flag, nofallback}. (B) wrap-file cases: source/patch acquisition spec (primary URL, '
        'fallback URL, packagecache, packagefiles with/without hash) x corruption class per location {good, flipped-but-extractable, '
        'truncated, other valid archive, garbage, missing} x recorded hash {right, upper-case, hash of other archive, hash of truncated '
        'archive, random} x patch {none, archive, patch_directory ok/missing} x diff {none, applies, rejects, missing} x build file in '
        '{source, patch, nowhere} x wrap_mode{default,nodownload} x two runs {setup, subprojects download}^2 on the same tree; quick: seeded '
        'sample + systematic single-fault list, thorough: larger sample. non-trivial (B) = at least one corruption or fault. distinct = '
        'fingerprint of the case.')
ASSUMPTIONS = [
    'the "system" is pkg-config only: CMAKE is pointed at a non-existent binary so that the cmake lookup method is unavailable',
    'an http URL on 127.0.0.1 served by a thread of the check and file:// URLs stand for remote URLs (same urllib code path)',
    'sha256 hex digests are compared case-insensitively (an upper-case hash in the wrap denotes the same hash)',
    'time.sleep in the download retry loop is stubbed from the harness side (in-process attribute patch / sitecustomize for subprocess runs)',
]

CONS = [None, '>=1.5', '<1.5', '>=3']
SPKINDS = [('none', False), ('none', True), ('var', False), ('var', True), ('names', True)]   # (wrap, sp_ovr)
WRAP_MODES = ['default', 'nofallback', 'forcefallback', 'nodownload']
FFF = [[], ['foo'], ['sp']]
AFFB = [('unset', 'none'), ('true', 'none'), ('false', 'none'), ('unset', 'var'), ('unset', 'novar')]

_PC_WRAPPER = '''#!/bin/sh
echo "$@" >> "$C10_PCLOG"
exec {real} "$@"
'''
_SITE = 'import time\ntime.sleep = lambda s=0: None\n'


# ---------------------------------------------------------------------------------------------------------
# process-level preparation

_prepared: T.Dict[str, T.Any] = {}


def _prep() -> T.Dict[str, T.Any]:
    """Once per (worker) process: clean pkg-config environment, wrapper script, sleep stub, scratch."""
    if _prepared.get('pid') == os.getpid():
        return _prepared
    _prepared.clear()
    _prepared['pid'] = os.getpid()
    for k in list(os.environ):
        if k.startswith('PKG_CONFIG') or k in ('CMAKE', 'MESON_PACKAGE_CACHE_DIR', 'http_proxy', 'HTTP_PROXY', 'https_proxy',
                                               'HTTPS_PROXY', 'all_proxy', 'ALL_PROXY'):
            os.environ.pop(k)
    os.environ['no_proxy'] = '127.0.0.1,localhost'
    real = shutil.which('pkg-config')
    if not real:
        raise HarnessError('pkg-config not installed')
    root = make_scratch('C10w')
    wrapper = os.path.join(root, 'pcwrap.sh')
    with open(wrapper, 'w') as f:
        f.write(_PC_WRAPPER.format(real=real))
    os.chmod(wrapper, 0o755)
    site = os.path.join(root, 'site')
    os.makedirs(site)
    with open(os.path.join(site, 'sitecustomize.py'), 'w') as f:
        f.write(_SITE)
    _prepared.update(root=root, wrapper=wrapper, site=site, n=0)
    # in-process: the retry loop in wrap.py sleeps 1+2+4+8+16 s
    import types
    import mesonbuild.wrap.wrap as W
    W.time = types.SimpleNamespace(sleep=lambda s=0: None, time=__import__('time').time)
    return _prepared


def _cleanup_proc() -> None:
    if _prepared.get('pid') == os.getpid() and _prepared.get('root'):
        srv = _prepared.get('server')
        if srv is not None:
            srv.shutdown()
        shutil.rmtree(_prepared['root'], ignore_errors=True)
        _prepared.clear()


def _reset_dep_caches() -> None:
    """Class-level / lru caches of the dependency machinery that would leak one cell into the next in-process."""
    from mesonbuild.dependencies.pkgconfig import PkgConfigInterface, PkgConfigCLI
    from mesonbuild.mesonlib import PerMachine
    PkgConfigInterface.class_impl = PerMachine({}, {})
    PkgConfigInterface.class_cli_impl = PerMachine({}, {})
    PkgConfigInterface.pkg_bin_per_machine = PerMachine(None, None)
    for n in ('version', 'cflags', 'libs', 'variable', 'list_all'):
        getattr(PkgConfigCLI, n).cache_clear()
    try:
        from mesonbuild.cmake.executor import CMakeExecutor
        CMakeExecutor.class_cmakebin = PerMachine(None, None)
        CMakeExecutor.class_cmakevers = PerMachine(None, None)
    except Exception:
        pass


def _newdir() -> str:
    p = _prep()
    p['n'] += 1
    d = os.path.join(p['root'], f"c{p['n']}")
    os.makedirs(d)
    return d


# ---------------------------------------------------------------------------------------------------------
# (A) project generation, run, judge

def _dep_call(i: int, st: list, cons: T.Optional[str], static: bool = False, name: str = 'foo') -> str:
    _, req, af, fb = st
    kw = []
    if static:
        # dependency.yaml: "Tells the dependency provider to try to get static libraries": which variant, not whether
        # and from where - the policy outcome is the same (the fallback subproject is then built with default_library=static)
        kw.append('static: true')
    if cons:
        kw.append(f"version: '{cons}'")
    if req in ('true', 'false'):
        kw.append(f'required: {req}')
    elif req in ('auto', 'enabled', 'disabled'):
        kw.append(f"required: get_option('f_{req}')")
    if af != 'unset':
        kw.append(f'allow_fallback: {af}')
    if fb == 'var':
        kw.append("fallback: ['sp', 'foo_dep']")
    elif fb == 'novar':
        kw.append("fallback: 'sp'")
    args = ', '.join([f"'{name}'"] + kw)
    return (f"d{i} = dependency({args})\n"
            f"message('R{i}:found=@0@;type=@1@;ver=@2@'.format(d{i}.found(), d{i}.type_name(), d{i}.version()))\n")


def tree_a(cfg: dict, steps: T.Sequence[list]) -> T.Dict[str, str]:
    files: T.Dict[str, str] = {}
    # the name the project asks for (family "name-case": a spelling with capitals; ini keys of a wrap's [provide] section
    # are case-insensitive, pkg-config names and meson.override_dependency() names are used as written)
    name = cfg.get('depname', 'foo')
    body = "project('main', version: '0.1')\n"
    for i, st in enumerate(steps):
        if st[0] == 'sub':
            body += f"s{i} = subproject('sp')\nmessage('R{i}:sub')\n"
        elif st[0] == 'ovr':
            body += f"meson.override_dependency('{name}', declare_dependency(version: '{st[1]}'))\nmessage('R{i}:ovr')\n"
        else:
            body += _dep_call(i, st, cfg['cons'], bool(cfg.get('static')), name)
    files['src/meson.build'] = body
    files['src/meson.options'] = ("option('f_auto', type: 'feature', value: 'auto')\n"
                                  "option('f_enabled', type: 'feature', value: 'enabled')\n"
                                  "option('f_disabled', type: 'feature', value: 'disabled')\n")
    need_sp = cfg['wrap'] != 'none' or cfg['sp_ovr'] or any(st[0] == 'sub' or (st[0] == 'dep' and st[3] != 'none') for st in steps)
    if need_sp:
        sp = f"project('sp', version: '{cfg['spver']}')\nmessage('SP-CONFIGURED')\nfoo_dep = declare_dependency(version: '{cfg['spver']}')\n"
        if cfg['sp_ovr']:
            sp += f"meson.override_dependency('{name}', foo_dep)\n"
        files['src/subprojects/sp/meson.build'] = sp
    if cfg['wrap'] == 'var':
        files['src/subprojects/sp.wrap'] = f'[wrap-file]\ndirectory = sp\n\n[provide]\n{name} = foo_dep\n'
    elif cfg['wrap'] == 'names':
        files['src/subprojects/sp.wrap'] = f'[wrap-file]\ndirectory = sp\n\n[provide]\ndependency_names = {name}\n'
    if cfg['sys'] is not None:
        files[f'pc/{name}.pc'] = f"Name: {name}\nDescription: generated\nVersion: {cfg['sys']}\n"
    else:
        files['pc/.keep'] = ''
    return files


class ObsA:
    def __init__(self) -> None:
        self.rc = 0
        self.results: T.List[T.Optional[list]] = []
        self.error_at: T.Optional[int] = None
        self.consulted = False
        self.spconf = False
        self.crash = False
        self.tail = ''

    def brief(self) -> str:
        return f'rc={self.rc} results={self.results} error_at={self.error_at} consulted={self.consulted} sp_configured={self.spconf}'


def run_a(case: dict, sub: bool = False) -> ObsA:
    from harness import mesondrv as md
    p = _prep()
    cfg, steps = case['cfg'], case['steps']
    d = _newdir()
    try:
        md.write_tree(d, tree_a(cfg, steps))
        log = os.path.join(d, 'pc.log')
        env = {'PKG_CONFIG': p['wrapper'], 'PKG_CONFIG_LIBDIR': os.path.join(d, 'pc'), 'C10_PCLOG': log,
               'CMAKE': '/nonexistent/cmake'}
        depname = cfg.get('depname', 'foo')

        def setup_args(wm: str, fff: T.List[str], reconf: bool) -> T.List[str]:
            fff = [depname if x == 'foo' else x for x in fff]
            if reconf:
                a = ['setup', '--reconfigure', f'-Dwrap_mode={wm}', '-Dforce_fallback_for=' + ','.join(fff)]
            else:
                a = ['setup', '--backend=none', f'--wrap-mode={wm}']
                if fff:
                    a.append('--force-fallback-for=' + ','.join(fff))
            return a + [os.path.join(d, 'src'), os.path.join(d, 'b')]

        def one(a: T.List[str]) -> T.Any:
            if sub:
                return md.run_sub(a, cwd=d, env=env)
            _reset_dep_caches()
            return md.run_inproc(a, cwd=d, env=env)

        reconf = False
        if case.get('prior'):
            # the build directory has a history: it was configured before with other fallback options (dependencies
            # found then sit in the persistent cache).  The judged run is the reconfiguration with this cell's options;
            # the policy is a function of the options and the circumstances, not of that history.
            r0 = one(setup_args(case['prior']['wm'], case['prior']['fff'], False))
            reconf = r0.rc == 0
            if os.path.exists(log):
                os.unlink(log)
        r = one(setup_args(cfg['wm'], cfg['fff'], reconf))
        o = ObsA()
        o.rc = r.rc
        o.crash = r.unhandled or r.rc not in (0, 1)
        o.tail = (r.out[-1500:] + '\n' + r.err[-600:]).strip()
        seen: T.Dict[int, str] = {}
        for m in r.messages():
            if m.startswith('R') and ':' in m:
                head, rest = m.split(':', 1)
                if head[1:].isdigit():
                    seen[int(head[1:])] = rest
        for i, st in enumerate(steps):
            if i not in seen:
                o.results.append(None)
                if o.error_at is None:
                    o.error_at = i
                continue
            if st[0] != 'dep':
                o.results.append(None)
                continue
            f = dict(x.split('=', 1) for x in seen[i].split(';'))
            if f['found'] != 'true':
                o.results.append(['nf'])
            elif f['type'] == 'pkgconfig':
                o.results.append(['sys', f['ver']])
            elif f['type'] == 'internal':
                o.results.append(['int', f['ver']])
            else:
                o.results.append(['other:' + f['type'], f['ver']])
        if o.rc == 0:
            o.error_at = None
        elif o.error_at is None:
            o.error_at = len(steps)    # failed after the last step
        o.spconf = 'SP-CONFIGURED' in r.sub_messages('sp')
        if os.path.exists(log):
            with open(log) as fh:
                o.consulted = any(line.split()[-1:] == [depname] for line in fh)
        return o
    finally:
        shutil.rmtree(d, ignore_errors=True)


def _tok(r: T.Optional[list]) -> str:
    if r is None:
        return 'err'
    return {'sys': 'system', 'int': 'internal', 'nf': 'notfound'}.get(r[0], r[0])


def judge_a(case: dict, o: ObsA) -> T.Optional[Failure]:
    cfg, steps = case['cfg'], case['steps']
    alts = R.alternatives(cfg, steps)
    if not alts:
        raise HarnessError(f'invalid case reached the judge: {case}')
    if o.crash:
        return Failure('policy/crash', case, f'meson setup crashed (rc={o.rc}) on {case}:\n{o.tail[-1200:]}')
    ref = alts[0]
    if ref.argerr_at is not None:
        # undocumented combination: only cleanliness is demanded (and everything before it must match)
        k = ref.argerr_at
        if o.results[:k] == ref.results[:k] and (o.error_at is None or o.error_at >= k):
            return None
    matches = []
    for s in alts:
        n = len(steps) if s.error_at is None else s.error_at
        exp = s.results[:n] + [None] * (len(steps) - n)
        if s.argerr_at is None and exp == o.results and s.error_at == o.error_at:
            matches.append(s)
    if not matches:
        # first differing step against the first alternative -> signature
        k = 0
        while k < len(steps) and not (ref.error_at == k or o.error_at == k) and ref.results[k] == o.results[k]:
            k += 1
        k = min(k, len(steps) - 1)
        want = 'error' if ref.error_at == k else _tok(ref.results[k])
        got = 'error' if o.error_at == k else _tok(o.results[k])
        if want == got:
            want += ':' + str((ref.results[k] or [0, ''])[-1])
            got += ':' + str((o.results[k] or [0, ''])[-1])
        path = ref.paths[k] or steps[k][0]
        exp_all = sorted({json.dumps([s.results, s.error_at]) for s in alts})
        return Failure(f'policy/{path}:want-{want}:got-{got}', case,
                       f'configuration {cfg}, steps {steps}:\n  acceptable per documented policy (results per step, error_at): '
                       f'{exp_all}\n  observed: {o.brief()}\n  decided by clause: {path}\n{o.tail[-900:]}')
    if all(not s.consulted for s in matches) and o.consulted:
        s = matches[0]
        path = next((p for p in s.paths if p in ('forced', 'override', 'disabled')), 'no-lookup')
        return Failure(f'policy/system-consulted:{path}', case,
                       f'configuration {cfg}, steps {steps}: pkg-config was asked for foo although the policy ({path}) says the '
                       f'system is not consulted; observed {o.brief()}')
    if all(s.spconf != o.spconf for s in matches):
        s = matches[0]
        path = next((p for p in reversed(s.paths) if p), 'none')
        return Failure(f'policy/sp-configured={o.spconf}:{path}', case,
                       f'configuration {cfg}, steps {steps}: subproject configured={o.spconf}, policy says {s.spconf} ({path}); '
                       f'observed {o.brief()}')
    # adjacent identical lookups must agree (direct reading of the consistency sentence)
    for i in range(len(steps) - 1):
        if steps[i][0] == 'dep' and steps[i] == steps[i + 1] and o.results[i + 1] is not None and o.results[i] != o.results[i + 1]:
            return Failure('consistency/same-args-differ', case, f'{steps[i]} repeated gave {o.results[i]} then {o.results[i + 1]}')
    return None


def classify_a(case: dict) -> T.Tuple[str, bool, bool]:
    alts = R.alternatives(case['cfg'], case['steps'])
    weak = len({s.key() for s in alts}) > 1
    s = alts[0]
    last = next((p for p in reversed(s.paths) if p), 'none')
    cls = ('A-hist/' if case.get('prior') else 'A-static/' if case['cfg'].get('static') else 'A-seq/' if case.get('seq') else 'A-cell/') + last
    if s.error_at is not None:
        cls += '+error'
    return cls, weak, R.nontrivial_a(case['cfg'], case['steps'])


def _fam(sig: str) -> str:
    return sig.split(':')[0].split('@')[0]


def check_a(case: dict, ev: Evidence, known: T.Optional[T.Set[str]] = None) -> T.Optional[Failure]:
    o = run_a(case)
    f = judge_a(case, o)
    cls, weak, nt = classify_a(case)
    ev.case({'cfg': case['cfg'], 'steps': case['steps']}, nontrivial=nt, cls=cls)
    if weak:
        ev.event('A-weak-cells')
    if f is None:
        return None
    if known is not None and f.sig in known:
        ev.event('failure-of-already-reported-signature')
        return None
    o2 = run_a(case, sub=True)
    f2 = judge_a(case, o2)
    if f2 is None:
        ev.inproc_only += 1
        return None
    if known is not None:
        known.update((f.sig, f2.sig))
    return shrink_a(f2)


def shrink_a(f: Failure) -> Failure:
    """Drop steps that are not needed for the same signature family (searched in-process, result confirmed by subprocess)."""
    case = f.case
    steps = list(case['steps'])
    changed = True
    while changed and len(steps) > 1:
        changed = False
        for i in range(len(steps)):
            cand = steps[:i] + steps[i + 1:]
            if not any(s[0] == 'dep' for s in cand):
                continue
            c2 = {'cfg': case['cfg'], 'steps': cand, 'seq': case.get('seq', False)}
            if not R.alternatives(c2['cfg'], cand):
                continue
            g = judge_a(c2, run_a(c2))
            if g is not None and _fam(g.sig) == _fam(f.sig):
                steps, changed = cand, True
                break
    if steps != list(case['steps']):
        c2 = {'cfg': case['cfg'], 'steps': steps, 'seq': case.get('seq', False)}
        g2 = judge_a(c2, run_a(c2, sub=True))
        if g2 is not None and _fam(g2.sig) == _fam(f.sig):
            return g2
    return f


def valid_a(cfg: dict, steps: T.Sequence[list]) -> T.Optional[str]:
    """None if the case is inside the documented domain, else the exclusion reason."""
    for st in steps:
        if st[0] == 'dep' and st[3] == 'novar' and not cfg['sp_ovr']:
            return "fallback: 'sp' without variable while the subproject does not call override_dependency (docs: 'must')"
    if cfg['wrap'] == 'names' and not cfg['sp_ovr']:
        return 'wrap dependency_names without override_dependency in the subproject'
    if not R.alternatives(cfg, steps):
        return 'override_dependency after the name was already resolved/overridden (error, undocumented)'
    return None


def table_a(ev: T.Optional[Evidence] = None) -> T.List[dict]:
    cells: T.List[dict] = []

    def add(cfg: dict, steps: list) -> None:
        why = valid_a(cfg, steps)
        if why:
            if ev is not None:
                ev.exclude(why)
            return
        cells.append({'cfg': cfg, 'steps': steps})

    for sysv, cons, (wrap, ovr), wm, fff in itertools.product([None, '1.0', '2.0'], CONS, SPKINDS, WRAP_MODES, FFF):
        for pre in ('none', 'sub', 'ovr1', 'ovr2'):
            if pre.startswith('ovr') and (wrap, ovr) in (('none', True), ('var', True)):
                continue   # parent override x overriding subproject: same clause as the other provider kinds, pruned for budget
            for spver in (('1.0', '2.0') if pre in ('none', 'sub') else ('2.0',)):
                cfg = {'sys': sysv, 'cons': cons, 'wrap': wrap, 'sp_ovr': ovr, 'spver': spver, 'wm': wm, 'fff': fff}
                pre_steps = {'none': [], 'sub': [['sub']], 'ovr1': [['ovr', '1.0']], 'ovr2': [['ovr', '2.0']]}[pre]
                for req in ('true', 'false', 'auto'):
                    for af, fb in AFFB:
                        add(cfg, pre_steps + [['dep', req, af, fb]])
                # disabled: outcome is independent of everything else; one spelling per cfg/pre
                add(cfg, pre_steps + [['dep', 'disabled', 'unset', 'var' if wrap == 'none' else 'none']])
    # reduced sub-tables: aliases (enabled/default), nopromote, unrelated force_fallback_for entry, fallback+allow_fallback
    for sysv, cons, (wrap, ovr), wm, fff in itertools.product([None, '2.0'], [None, '>=3'], SPKINDS,
                                                              ['nopromote', 'default', 'nofallback'], [['bar'], ['foo', 'sp'], []]):
        cfg = {'sys': sysv, 'cons': cons, 'wrap': wrap, 'sp_ovr': ovr, 'spver': '2.0', 'wm': wm, 'fff': fff}
        for req in ('enabled', 'default', 'false'):
            for af, fb in AFFB:
                if wm == 'nopromote' or fff or req != 'false':
                    add(cfg, [['dep', req, af, fb]])
        if wm == 'default' and not fff:
            for req, af, fb in itertools.product(('true', 'false'), ('true', 'false'), ('var', 'novar')):
                add(cfg, [['dep', req, af, fb]])
    return cells


SEQ_VARIANTS = [['dep', 'true', 'unset', 'none'], ['dep', 'false', 'unset', 'none'], ['dep', 'false', 'true', 'none'],
                ['dep', 'true', 'false', 'none'], ['dep', 'true', 'unset', 'var'], ['dep', 'false', 'unset', 'var']]


def seq_patterns() -> T.List[list]:
    V = SEQ_VARIANTS
    S, O = ['sub'], ['ovr', '2.0']
    pats: T.List[list] = []
    for x in V:
        pats += [[x, x], [x, x, x], [x, S, x], [S, x, x], [O, x, x]]
        for y in V:
            if x is not y:
                pats += [[x, y], [x, y, x], [x, S, y], [S, x, y], [O, x, y], [x, y, S]]
    return pats


def seq_cases(extended: bool, ev: T.Optional[Evidence] = None) -> T.List[dict]:
    if extended:
        grid = ((a, b, c, d, e, f) for a, b, c, d, e, f in itertools.product(
            [None, '1.0', '2.0'], [None, '>=1.5'], [('var', False), ('names', True), ('none', True), ('var', True)],
            ['default', 'nofallback', 'forcefallback'], [[], ['sp'], ['foo']], ['2.0', '1.0'])
            if (f == '2.0' or b is not None) and (e != ['foo'] or d == 'nofallback'))
    else:
        grid = itertools.product([None, '2.0'], [None], [('var', False), ('names', True)],
                                 ['default', 'nofallback', 'forcefallback'], [[], ['sp']], ['2.0'])
    out: T.List[dict] = []
    pats = seq_patterns()
    for sysv, cons, (wrap, ovr), wm, fff, spver in grid:
        if wm == 'forcefallback' and fff:
            continue
        cfg = {'sys': sysv, 'cons': cons, 'wrap': wrap, 'sp_ovr': ovr, 'spver': spver, 'wm': wm, 'fff': fff}
        for steps in pats:
            why = valid_a(cfg, steps)
            if why:
                if ev is not None:
                    ev.exclude(why)
                continue
            out.append({'cfg': cfg, 'steps': steps, 'seq': True})
    return out


def _shard_a(shard: T.List[dict], ev: Evidence, fails: T.List[Failure]) -> None:
    _prep()
    sigs: T.Set[str] = set()
    try:
        for case in shard:
            f = check_a(case, ev, sigs)
            if f is not None:
                sigs.add(f.sig)
                if len({_fam(x.sig) for x in fails} | {_fam(f.sig)}) <= 6 and len(fails) < 12:
                    fails.append(f)
    finally:
        _cleanup_proc()


# ---------------------------------------------------------------------------------------------------------
# (A-multi) lookups with several names: dependency('foo', 'bar').  Model-free reading of the consistency sentence: when the
# configuration succeeds and the first lookup found a dependency, the repeated lookup gives the same one, whatever happens between them (a
# subproject that overrides one of the names, a late meson.override_dependency() - which meson may refuse; a refusal is an
# error and ends the configuration, that is outside the sentence).

def multi_cases() -> T.List[dict]:
    out = []
    for names in (['foo', 'bar'], ['bar', 'foo'], ['foo', 'bar', 'baz']):
        for sysmask in range(4):
            for premask in range(4):
                for mid in (['none'], ['sub', 'foo'], ['sub', 'bar'], ['sub', 'foo', 'bar'], ['ovr', 'foo'], ['ovr', 'bar'], ['ovr', 'baz']):
                    for req in ('false', 'true'):
                        if req == 'true' and not (sysmask or premask):
                            continue          # nothing can satisfy the first lookup: a plain error
                        out.append({'multi': True, 'names': names, 'sys': sysmask, 'pre': premask, 'mid': mid, 'req': req})
    return out


def tree_multi(case: dict) -> T.Dict[str, str]:
    two = ['foo', 'bar']
    call = "dependency({}, required: {})".format(', '.join(f"'c10{n}'" for n in case['names']), case['req'])
    body = "project('main', version: '0.1')\n"
    for i, n in enumerate(two):
        if case['pre'] >> i & 1:
            body += f"meson.override_dependency('c10{n}', declare_dependency(version: '5.{i}'))\n"
    body += f"d1 = {call}\nmessage('L1:@0@;@1@;@2@'.format(d1.found(), d1.found() ? d1.name() : '-', d1.found() ? d1.version() : '-'))\n"
    mid = case['mid']
    if mid[0] == 'sub':
        body += "subproject('sp')\n"
    elif mid[0] == 'ovr':
        body += f"meson.override_dependency('c10{mid[1]}', declare_dependency(version: '9.0'))\n"
    body += f"d2 = {call}\nmessage('L2:@0@;@1@;@2@'.format(d2.found(), d2.found() ? d2.name() : '-', d2.found() ? d2.version() : '-'))\n"
    files = {'src/meson.build': body, 'pc/.keep': ''}
    if mid[0] == 'sub':
        sp = "project('sp', version: '2.0')\n"
        for n in mid[1:]:
            sp += f"meson.override_dependency('c10{n}', declare_dependency(version: '2.0'))\n"
        files['src/subprojects/sp/meson.build'] = sp
    for i, n in enumerate(two):
        if case['sys'] >> i & 1:
            files[f'pc/c10{n}.pc'] = f"Name: c10{n}\nDescription: generated\nVersion: 1.{i}\n"
    return files


def check_multi(case: dict, sub: bool = False) -> T.Optional[Failure]:
    from harness import mesondrv as md
    p = _prep()
    d = _newdir()
    try:
        md.write_tree(d, tree_multi(case))
        env = {'PKG_CONFIG': p['wrapper'], 'PKG_CONFIG_LIBDIR': os.path.join(d, 'pc'), 'C10_PCLOG': os.path.join(d, 'pc.log'),
               'CMAKE': '/nonexistent/cmake'}
        a = ['setup', '--backend=none', os.path.join(d, 'src'), os.path.join(d, 'b')]
        if sub:
            r = md.run_sub(a, cwd=d, env=env)
        else:
            _reset_dep_caches()
            r = md.run_inproc(a, cwd=d, env=env)
        if r.unhandled or r.rc not in (0, 1):
            return Failure('consistency-multi/crash', case, f'meson setup crashed (rc={r.rc}) on {case}:\n{r.text[-1200:]}')
        if r.rc != 0:
            return None
        got = {m[:2]: m[3:] for m in r.messages() if m[:3] in ('L1:', 'L2:')}
        if 'L1' not in got or 'L2' not in got:
            raise HarnessError(f'multi-name case printed no L1/L2 messages: {case}\n{r.text[-600:]}')
        if got['L1'].startswith('false') and got['L2'].startswith('true'):
            # nothing provided any of the names at the first lookup and a later step did: "an overridden dependency wins" and
            # "repeated lookups return the same dependency" pull in different directions here; not judged (the single-name
            # sequences treat not-found -> override -> found the same way)
            return None
        if got['L1'] != got['L2']:
            return Failure('consistency-multi/same-args-differ', case,
                           f"dependency({', '.join(case['names'])}, required: {case['req']}) gave (found;name;version) {got['L1']} and, repeated with the "
                           f"same arguments after step {case['mid']} in the same configuration, {got['L2']} (system has mask {case['sys']}, "
                           f"overridden beforehand mask {case['pre']} over [foo, bar])")
        return None
    finally:
        shutil.rmtree(d, ignore_errors=True)


# (A-pcpath) the search path is an input of the lookup: a directory configured with pkg_config_path=A and then reconfigured
# with pkg_config_path=B must resolve the dependency as a fresh configuration with pkg_config_path=B does (model-free differential)

def pcpath_cases() -> T.List[dict]:
    out = []
    for a_ver, b_ver in (('1.0', '2.0'), ('1.0', None), (None, '2.0'), ('2.0', '1.0')):
        for fb in (False, True):
            for cons in (None, '>=1.5'):
                for static in (False, True):
                    out.append({'pcpath': True, 'a': a_ver, 'b': b_ver, 'fallback': fb, 'cons': cons, 'static': static})
    return out


def check_pcpath(case: dict, sub: bool = False) -> T.Optional[Failure]:
    from harness import mesondrv as md
    p = _prep()
    d = _newdir()
    try:
        kw = ["required: false"] + ([f"version: '{case['cons']}'"] if case['cons'] else []) + (["fallback: ['sp', 'foo_dep']"] if case['fallback'] else []) \
            + (['static: true'] if case['static'] else [])
        files = {'src/meson.build': "project('main', version: '0.1')\nd0 = dependency('c10pp', " + ', '.join(kw) + ")\n"
                 "message('R0:found=@0@;type=@1@;ver=@2@'.format(d0.found(), d0.type_name(), d0.found() ? d0.version() : '-'))\n",
                 'pcA/.keep': '', 'pcB/.keep': ''}
        if case['fallback']:
            files['src/subprojects/sp/meson.build'] = "project('sp', version: '9.0')\nfoo_dep = declare_dependency(version: '9.0')\n"
        for k, ver in (('A', case['a']), ('B', case['b'])):
            if ver is not None:
                files[f'pc{k}/c10pp.pc'] = f'Name: c10pp\nDescription: generated\nVersion: {ver}\n'
        md.write_tree(d, files)
        env = {'PKG_CONFIG': p['wrapper'], 'PKG_CONFIG_LIBDIR': os.path.join(d, 'none'), 'C10_PCLOG': os.path.join(d, 'pc.log'), 'CMAKE': '/nonexistent/cmake'}

        def one(a: T.List[str]) -> T.Any:
            if sub:
                return md.run_sub(a, cwd=d, env=env)
            _reset_dep_caches()
            return md.run_inproc(a, cwd=d, env=env)

        def res(r: T.Any) -> str:
            return next((m for m in r.messages() if m.startswith('R0:')), 'no-message rc=%d' % r.rc)
        r1 = one(['setup', '--backend=none', f'-Dpkg_config_path={d}/pcA', os.path.join(d, 'src'), os.path.join(d, 'aged')])
        if r1.rc != 0:
            raise HarnessError(f'pcpath case does not configure: {case}\n{r1.text[-500:]}')
        r2 = one(['setup', '--reconfigure', f'-Dpkg_config_path={d}/pcB', os.path.join(d, 'src'), os.path.join(d, 'aged')])
        r3 = one(['setup', '--backend=none', f'-Dpkg_config_path={d}/pcB', os.path.join(d, 'src'), os.path.join(d, 'fresh')])
        if r2.unhandled or r3.unhandled:
            return Failure('policy-pcpath/crash', case, f'meson setup crashed on {case}:\n{(r2 if r2.unhandled else r3).text[-1000:]}')
        if (r2.rc, res(r2)) != (r3.rc, res(r3)):
            return Failure('policy-pcpath/reconfigured-differs-from-fresh', case,
                           f"dependency('c10pp', {', '.join(kw)}): configured with pkg_config_path=pcA ({case['a']}), reconfigured with pkg_config_path=pcB "
                           f"({case['b']}) gives {res(r2)} (exit {r2.rc}); a fresh configuration with pkg_config_path=pcB gives {res(r3)} (exit {r3.rc})")
        return None
    finally:
        shutil.rmtree(d, ignore_errors=True)


def _shard_multi(shard: T.List[dict], ev: Evidence, fails: T.List[Failure]) -> None:
    _prep()
    sigs: T.Set[str] = set()
    try:
        for case in shard:
            if case.get('pcpath'):
                f = check_pcpath(case)
                ev.case(case, nontrivial=case['a'] != case['b'], cls='A-pcpath')
                if f is not None:
                    f2 = check_pcpath(case, sub=True)
                    if f2 is None:
                        ev.inproc_only += 1
                    elif f2.sig not in sigs:
                        sigs.add(f2.sig)
                        fails.append(f2)
                continue
            f = check_multi(case)
            ev.case(case, nontrivial=case['mid'][0] != 'none' and (case['sys'] or case['pre']) != 0, cls='A-multi/' + case['mid'][0])
            if f is not None:
                f2 = check_multi(case, sub=True)
                if f2 is None:
                    ev.inproc_only += 1
                elif f2.sig not in sigs:
                    sigs.add(f2.sig)
                    fails.append(f2)
    finally:
        _cleanup_proc()


# ---------------------------------------------------------------------------------------------------------
# (B) wrap integrity

DIRNAME = 'sp-1.0'


def _targz(members: T.List[T.Tuple[str, bytes]], mtime_flip: bool = False) -> bytes:
    raw = io.BytesIO()
    with tarfile.open(fileobj=raw, mode='w', format=tarfile.GNU_FORMAT) as tf:
        for name, data in members:
            ti = tarfile.TarInfo(name)
            ti.size = len(data)
            ti.mtime = 1700000000
            ti.mode = 0o644
            tf.addfile(ti, io.BytesIO(data))
    import gzip
    out = io.BytesIO()
    with gzip.GzipFile(fileobj=out, mode='wb', mtime=1700000000, filename='') as gz:
        gz.write(raw.getvalue())
    b = bytearray(out.getvalue())
    if mtime_flip:
        b[5] ^= 0x01      # one bit in the gzip MTIME header field: still a valid, fully extractable archive
    return bytes(b)


def _zip(members: T.List[T.Tuple[str, bytes]], comment_flip: bool = False) -> bytes:
    out = io.BytesIO()
    with zipfile.ZipFile(out, 'w', zipfile.ZIP_DEFLATED) as zf:
        zf.comment = b'c10-archive'
        for name, data in members:
            zi = zipfile.ZipInfo(name, date_time=(2023, 11, 14, 12, 0, 0))
            zi.external_attr = 0o644 << 16
            zf.writestr(zi, data)
    b = bytearray(out.getvalue())
    if comment_flip:
        b[-1] ^= 0x01     # last byte of the archive comment
    return bytes(b)


SP_BUILD = "project('sp', version: '{v}')\nmessage('SP-CONFIGURED')\nfoo_dep = declare_dependency(version: '{v}')\n"
DATA_TXT = 'line one\nline two\nline three\n'
DIFF_OK = ('--- a/data.txt\n+++ b/data.txt\n@@ -1,3 +1,4 @@\n line one\n line two\n+DIFF-APPLIED\n line three\n')
DIFF_BAD = ('--- a/data.txt\n+++ b/data.txt\n@@ -1,3 +1,3 @@\n line one\n-this line is not in the file\n+DIFF-APPLIED\n line three\n')


def make_variants(case: dict) -> T.Dict[str, bytes]:
    """All archive byte strings of a case, keyed by variant id == marker id.  Deterministic."""
    fmt = case['fmt']
    lead = '' if case.get('nolead') else DIRNAME + '/'
    pack = _targz if fmt == 'tar.gz' else _zip
    out: T.Dict[str, bytes] = {}

    def src(marker: str, ver: str, flip: bool = False) -> bytes:
        mem = [(lead + 'MARK-' + marker, marker.encode()), (lead + 'data.txt', DATA_TXT.encode())]
        if case['buildfile'] == 'source':
            mem.append((lead + 'meson.build', SP_BUILD.format(v=ver).encode()))
        mem.append((lead + 'pad.bin', bytes((i * 37 + len(marker)) % 251 for i in range(3000))))
        return pack(mem, flip)

    def pat(marker: str, flip: bool = False) -> bytes:
        mem = [(DIRNAME + '/MARK-' + marker, marker.encode())]
        if case['buildfile'] == 'patch':
            mem.append((DIRNAME + '/meson.build', SP_BUILD.format(v='1.0').encode()))
        mem.append((DIRNAME + '/overlay.txt', b'overlay ' + marker.encode()))
        mem.append((DIRNAME + '/pad.bin', bytes((i * 41 + len(marker)) % 241 for i in range(2000))))
        return pack(mem, flip)

    out['sG'] = src('sG', '1.0')
    out['sF'] = src('sF', '1.0', True)
    out['sO'] = src('sO', '9.9')
    t = src('sT', '1.0')
    out['sT'] = t[:len(t) * 6 // 10]
    out['sX'] = bytes((i * 131 + 7) % 256 for i in range(1500))     # garbage, no marker
    out['pG'] = pat('pG')
    out['pF'] = pat('pF', True)
    out['pO'] = pat('pO')
    t = pat('pT')
    out['pT'] = t[:len(t) * 6 // 10]
    out['pX'] = bytes((i * 113 + 11) % 256 for i in range(1200))
    return out


def resolve_hash(h: T.Optional[str], variants: T.Dict[str, bytes]) -> T.Optional[str]:
    """hash field spec -> hex string: 'G'/'O'/'T'/'F' = sha256 of that variant, 'Gup' upper-case, 'rnd', None = key absent."""
    if h is None:
        return None
    role, kind = h[0], h[1:]
    if kind == 'rnd':
        return R.sha256(b'c10-random-' + role.encode())
    if kind == 'Gup':
        return R.sha256(variants[role + 'G']).upper()
    return R.sha256(variants[role + kind])


class Server:
    """Tiny HTTP server on 127.0.0.1 serving an in-memory dict; logs every request path."""
    def __init__(self) -> None:
        import http.server
        outer = self
        self.files: T.Dict[str, bytes] = {}
        self.log: T.List[str] = []

        class H(http.server.BaseHTTPRequestHandler):
            def do_GET(self) -> None:   # noqa: N802
                outer.log.append(self.path)
                data = outer.files.get(self.path)
                if data is None:
                    self.send_response(404)
                    self.send_header('Content-Length', '0')
                    self.end_headers()
                    return
                self.send_response(200)
                self.send_header('Content-Length', str(len(data)))
                self.end_headers()
                self.wfile.write(data)

            def log_message(self, *a: T.Any) -> None:
                pass

        self.httpd = http.server.ThreadingHTTPServer(('127.0.0.1', 0), H)
        self.port = self.httpd.server_address[1]
        self.thread = threading.Thread(target=self.httpd.serve_forever, kwargs={'poll_interval': 0.05}, daemon=True)
        self.thread.start()

    def shutdown(self) -> None:
        self.httpd.shutdown()
        self.httpd.server_close()


def _server() -> Server:
    p = _prep()
    if p.get('server') is None:
        p['server'] = Server()
    return p['server']


def build_b(case: dict, root: str) -> T.Dict[str, T.Any]:
    """Materialise the tree for a (B) case. Returns bookkeeping (variants, recorded hashes, url prefix)."""
    from harness import mesondrv as md
    variants = make_variants(case)
    ext = case['fmt']
    srv_dir = os.path.join(root, 'remote')
    os.makedirs(srv_dir)
    src_root = os.path.join(root, 'src')
    sub = os.path.join(src_root, 'subprojects')
    os.makedirs(sub)
    http = case['scheme'] == 'http'
    server = _server() if http else None
    tag = os.path.basename(root)
    if server is not None:
        server.log.clear()
        for k in [k for k in server.files if k.startswith(f'/{tag}/')]:
            del server.files[k]

    def url(name: str, vid: T.Optional[str]) -> str:
        if vid is not None and vid in variants:
            if server is not None:
                server.files[f'/{tag}/{name}'] = variants[vid]
            else:
                with open(os.path.join(srv_dir, name), 'wb') as f:
                    f.write(variants[vid])
        if server is not None:
            return f'http://127.0.0.1:{server.port}/{tag}/{name}'
        return 'file://' + os.path.join(srv_dir, name)

    lines = ['[wrap-file]', f'directory = {DIRNAME}']
    rec: T.Dict[str, T.Optional[str]] = {}
    for role, key in (('source', 's'), ('patch', 'p')):
        spec = case[role]
        if spec is None or spec.get('mode') == 'dir':
            continue
        fname = f'sp-{role}.{ext}'
        lines.append(f'{role}_filename = {fname}')
        if spec['mode'] == 'url':
            lines.append(f'{role}_url = ' + url(f'primary-{fname}', spec.get('primary')))
            if spec.get('fallback') != '-':
                lines.append(f'{role}_fallback_url = ' + url(f'fallback-{fname}', spec.get('fallback')))
            if spec.get('cache'):
                os.makedirs(os.path.join(sub, 'packagecache'), exist_ok=True)
                with open(os.path.join(sub, 'packagecache', fname), 'wb') as f:
                    f.write(variants[spec['cache']])
        else:
            if spec.get('files'):
                os.makedirs(os.path.join(sub, 'packagefiles'), exist_ok=True)
                with open(os.path.join(sub, 'packagefiles', fname), 'wb') as f:
                    f.write(variants[spec['files']])
        h = resolve_hash(spec.get('hash'), variants)
        rec[role] = h
        if h is not None:
            lines.append(f'{role}_hash = {h}')
    if case.get('nolead'):
        lines.append('lead_directory_missing = true')
    pspec = case['patch']
    if pspec is not None and pspec.get('mode') == 'dir':
        lines.append('patch_directory = overlaydir')
        if pspec['exists']:
            files = {'subprojects/packagefiles/overlaydir/MARK-pD': 'pD', 'subprojects/packagefiles/overlaydir/overlay.txt': 'overlay pD'}
            if case['buildfile'] == 'patch':
                files['subprojects/packagefiles/overlaydir/meson.build'] = SP_BUILD.format(v='1.0')
            md.write_tree(src_root, files)
    if case['diff'] != 'none':
        lines.append('diff_files = sp/fix.diff')
        if case['diff'] != 'missing':
            md.write_tree(src_root, {'subprojects/packagefiles/sp/fix.diff': DIFF_OK if case['diff'] == 'ok' else DIFF_BAD})
    lines += ['', '[provide]', 'foo = foo_dep', '']
    md.write_tree(src_root, {
        'subprojects/sp.wrap': '\n'.join(lines),
        'meson.build': ("project('main', version: '0.1')\nd = dependency('foo')\n"
                        "message('R0:found=@0@;type=@1@;ver=@2@'.format(d.found(), d.type_name(), d.version()))\n"),
    })
    os.makedirs(os.path.join(root, 'pc'))
    return {'variants': variants, 'rec': rec, 'server': server, 'src': src_root, 'sub': sub}


def _listing(d: str) -> T.List[str]:
    return sorted(os.listdir(d)) if os.path.isdir(d) else []


def snapshot_b(sub: str) -> T.Dict[str, T.Any]:
    markers: T.List[str] = []
    for base, dirs, files in os.walk(sub):
        rel = os.path.relpath(base, sub)
        if rel == '.':
            dirs[:] = [x for x in dirs if x not in ('packagecache', 'packagefiles')]
        for f in files:
            if f.startswith('MARK-'):
                markers.append(f[5:])
    d = os.path.join(sub, DIRNAME)
    data = ''
    if os.path.isfile(os.path.join(d, 'data.txt')):
        with open(os.path.join(d, 'data.txt'), errors='replace') as fh:
            data = fh.read()
    return {'markers': sorted(set(markers)), 'dir': os.path.isdir(d), 'buildfile': os.path.isfile(os.path.join(d, 'meson.build')),
            'diffed': 'DIFF-APPLIED' in data, 'cache': _listing(os.path.join(sub, 'packagecache')),
            'toplevel': sorted(x for x in _listing(sub) if x not in ('packagecache', 'packagefiles', 'sp.wrap', '.wraplock'))}


def source_clean(case: dict) -> bool:
    s = case['source']
    if s['hash'] not in ('sG', 'sGup') and not (s['mode'] == 'files' and s['hash'] is None):
        return False
    if s['mode'] == 'url':
        return s.get('primary') == 'sG' and s.get('fallback') in ('-', 'sG') and s.get('cache') in (None, 'sG')
    return s.get('files') == 'sG'


def patch_state(case: dict, variants: T.Dict[str, bytes], rec: dict, nodownload: bool) -> str:
    """'none' | 'clean' (must succeed) | 'unsat' (patch/diff stage cannot succeed) | 'maybe'."""
    p = case['patch']
    diff = case['diff']
    st = 'none'
    if p is not None:
        if p.get('mode') == 'dir':
            st = 'clean' if p['exists'] else 'unsat'
        else:
            spec = dict(p, hash=rec.get('patch'))
            ok = R.verified_variants(spec, variants, nodownload)
            sound = {v for v in ok if v[1] in 'GFO'}
            if not sound:
                st = 'unsat'       # nothing verified, or only a verified-but-corrupt (truncated) archive
            else:
                allgood = p.get('hash') in ('pG', 'pGup') or (p['mode'] == 'files' and p.get('hash') is None)
                if p['mode'] == 'url':
                    allgood = allgood and p.get('primary') == 'pG' and p.get('fallback') in ('-', 'pG') and p.get('cache') in (None, 'pG') \
                        and not (nodownload and p.get('cache') is None)
                else:
                    allgood = allgood and p.get('files') == 'pG'
                st = 'clean' if allgood else 'maybe'
    if diff in ('bad', 'missing'):
        return 'unsat'
    if diff == 'ok' and st == 'none':
        return 'clean'
    return st


def run_b(case: dict, sub_proc: bool = False) -> T.Tuple[T.List[dict], dict]:
    """Execute the runs of a case on one tree; returns per-run observations and the bookkeeping."""
    from harness import mesondrv as md
    p = _prep()
    root = _newdir()
    try:
        bk = build_b(case, root)
        nod = case['wm'] == 'nodownload'
        env = {'PKG_CONFIG': p['wrapper'], 'PKG_CONFIG_LIBDIR': os.path.join(root, 'pc'), 'C10_PCLOG': os.path.join(root, 'pc.log'),
               'CMAKE': '/nonexistent/cmake'}
        if sub_proc:
            env['PYTHONPATH'] = p['site']
        obs: T.List[dict] = []
        before = snapshot_b(bk['sub'])
        for i, cmd in enumerate(case['runs']):
            if bk['server'] is not None:
                bk['server'].log.clear()
            if cmd == 'setup':
                args = ['setup', '--backend=none', f"--wrap-mode={case['wm']}", bk['src'], os.path.join(root, f'b{i}')]
            else:
                args = ['subprojects', 'download', '--sourcedir', bk['src']]
            if sub_proc:
                r = md.run_sub(args, cwd=root, env=env)
            else:
                _reset_dep_caches()
                r = md.run_inproc(args, cwd=root, env=env)
            snap = snapshot_b(bk['sub'])
            found = any(m.startswith('R0:found=true;type=internal') for m in r.messages())
            obs.append({'cmd': cmd, 'rc': r.rc, 'snap': snap, 'before': before, 'found': found,
                        'requests': list(bk['server'].log) if bk['server'] is not None else None,
                        'crash': r.unhandled, 'tail': (r.out[-1200:] + '\n' + r.err[-500:]).strip(),
                        'nodownload': nod and cmd == 'setup'})
            before = snap
        info = {'rec': bk['rec'], 'hashes': {k: R.sha256(v) for k, v in bk['variants'].items()}}
        info['verified'] = {}
        for nd in (False, True):
            for role in ('source', 'patch'):
                spec = case[role]
                if spec is not None and spec.get('mode') != 'dir':
                    spec = dict(spec, hash=bk['rec'].get(role))
                    info['verified'][(role, nd)] = R.verified_variants(spec, bk['variants'], nd)
                else:
                    info['verified'][(role, nd)] = set()
            info[('pstate', nd)] = patch_state(case, bk['variants'], bk['rec'], nd)
        return obs, info
    finally:
        shutil.rmtree(root, ignore_errors=True)


def _where(case: dict, vid: str) -> str:
    role = 'source' if vid[0] == 's' else 'patch'
    spec = case[role] or {}
    locs = [k for k in ('cache', 'files', 'primary', 'fallback') if spec.get(k) == vid]
    return locs[0] if locs else 'nowhere'     # first location in the documented acquisition order


CORR = {'G': 'good', 'F': 'flipped', 'O': 'other-archive', 'T': 'truncated', 'X': 'garbage', 'D': 'patchdir'}


def judge_b(case: dict, obs: T.List[dict], info: dict) -> T.Optional[Failure]:
    for i, o in enumerate(obs):
        nd = o['nodownload']
        ctx = f"run {i} ({o['cmd']}, wrap_mode={case['wm']}) rc={o['rc']} snapshot={ {k: o['snap'][k] for k in ('markers', 'dir', 'buildfile', 'diffed', 'cache')} }"
        ver_s = info['verified'][('source', nd)]
        ver_p = info['verified'][('patch', nd)]
        # markers accumulated over the runs: an archive may have been legitimately unpacked by an earlier run in another mode
        ver_s_any = ver_s | (info['verified'][('source', False)] if any(not x['nodownload'] for x in obs[:i]) else set())
        ver_p_any = ver_p | (info['verified'][('patch', False)] if any(not x['nodownload'] for x in obs[:i]) else set())
        for m in o['snap']['markers']:
            if m == 'pD':
                continue
            allowed = ver_s_any if m[0] == 's' else ver_p_any
            if m not in allowed:
                role = 'source' if m[0] == 's' else 'patch'
                rec = info['rec'].get(role)
                sig = f"integrity/unverified-{role}-unpacked@{_where(case, m)}"
                if nd and m in info['verified'][(role, False)]:
                    sig = f'nodownload/fetched-{role}@{_where(case, m)}'
                return Failure(sig, case, f'marker {m} ({CORR.get(m[1], m[1])} archive) is present under subprojects/ but the archive it came from '
                               f"(sha256 {info['hashes'].get(m)}) is not a verified {role} (recorded {role}_hash {rec}; verified "
                               f'variants here: {sorted(allowed)}); {ctx}\n{o["tail"][-700:]}')
        if nd:
            if o['snap']['cache'] != o['before']['cache']:
                return Failure('nodownload/packagecache-changed', case, f"packagecache {o['before']['cache']} -> {o['snap']['cache']} under "
                               f'wrap_mode=nodownload; {ctx}')
            if o['requests']:
                return Failure('nodownload/http-request', case, f"requests {o['requests']} were made under wrap_mode=nodownload; {ctx}")
        # rc==0 together with "ERROR: Unhandled python OSError" is the confirmed finding exit-0-after-unhandled-OSError
        # (mesonmain.errorhandler returns `e.errno or 0`): judged by the dedicated probe only, here such a run counts as failed
        ok = o['rc'] == 0 and not o['crash']
        pst = info[('pstate', nd)]
        prepared_before = o['before']['dir']
        # a verified-but-corrupt source (the wrap records the hash of a broken archive) can leave a partially extracted
        # directory behind; the property only speaks about failed patch/diff steps, so that residue is not judged
        src_corrupt = any(v[1] in 'TX' for v in ver_s_any)
        if ok and o['cmd'] == 'setup' and not o['found']:
            return Failure('wrap/required-lookup-succeeded-without-dependency', case, f'setup succeeded but dependency not reported found; {ctx}')
        if ok and not src_corrupt:
            # a successful run must stand on verified, fully prepared material  [P]
            smarks = [m for m in o['snap']['markers'] if m[0] == 's']
            if not smarks:
                why = 'no verified source exists' if not ver_s_any else 'no source marker present'
                return Failure('integrity/success-without-verified-source', case, f'{why} but the run succeeded; {ctx}\n{o["tail"][-700:]}')
            if case['patch'] is not None and not [m for m in o['snap']['markers'] if m[0] == 'p']:
                return Failure('halfprepared/accepted:no-patch', case, f'run succeeded although the patch overlay is not in the tree; {ctx}\n{o["tail"][-700:]}')
            if case['diff'] != 'none' and not o['snap']['diffed']:
                return Failure('halfprepared/accepted:no-diff', case, f'run succeeded although the diff file was not applied; {ctx}\n{o["tail"][-700:]}')
            if o['cmd'] == 'setup' and not o['snap']['buildfile']:
                return Failure('halfprepared/accepted:no-buildfile', case, f'setup succeeded without a build file in the subproject; {ctx}')
        if pst == 'unsat' and source_clean(case) and not prepared_before:
            # the source is fine, so the only thing that fails is the patch/diff stage  [P last sentence]
            if o['snap']['dir']:
                return Failure('halfprepared/dir-left-after-failed-patch', case,
                               f'the patch/diff stage cannot succeed ({case["patch"]}, diff={case["diff"]}) but subprojects/{DIRNAME} '
                               f'was left behind; {ctx}\n{o["tail"][-700:]}')
            if ok:
                return Failure('halfprepared/accepted:failed-patch-stage', case, f'the patch/diff stage cannot succeed but the run succeeded; {ctx}')
        # fully clean case must work (anchor: without it every other clause could hold vacuously)
        if i == 0 and source_clean(case) and pst in ('none', 'clean') and case['buildfile'] != 'none' and not ok:
            src_reachable = bool(ver_s)
            if src_reachable and (case['patch'] is None or case['patch'].get('mode') == 'dir' or ver_p):
                return Failure('wrap/clean-case-rejected', case, f'nothing is corrupted and everything needed is reachable, but the run failed; {ctx}\n{o["tail"][-900:]}')
    return None


def nontrivial_b(case: dict) -> bool:
    if not source_clean(case) or case['diff'] in ('bad', 'missing') or case['buildfile'] == 'none':
        return True
    p = case['patch']
    if p is None:
        return False
    if p.get('mode') == 'dir':
        return not p['exists']
    return not (p.get('hash') in ('pG', None) and all(p.get(k) in (None, '-', 'pG') for k in ('primary', 'fallback', 'cache', 'files')))


def class_b(case: dict) -> str:
    bits = ['B', 'src-ok' if source_clean(case) else 'src-fault']
    p = case['patch']
    if p is None:
        bits.append('nopatch')
    elif p.get('mode') == 'dir':
        bits.append('patch-ok' if p['exists'] else 'patch-fault')
    else:
        good = p.get('hash') in ('pG', 'pGup', None) and all(p.get(k) in (None, '-', 'pG') for k in ('primary', 'fallback', 'cache', 'files')) \
            and any(p.get(k) == 'pG' for k in ('primary', 'cache', 'files'))
        bits.append('patch-ok' if good else 'patch-fault')
    if case['diff'] in ('bad', 'missing'):
        bits.append('diff-fault')
    if case['wm'] == 'nodownload':
        bits.append('nodl')
    return '/'.join(bits)


def check_b(case: dict, ev: Evidence, known: T.Optional[T.Set[str]] = None) -> T.Optional[Failure]:
    obs, info = run_b(case)
    f = judge_b(case, obs, info)
    ev.case(case, nontrivial=nontrivial_b(case), cls=class_b(case))
    if any(o['snap']['dir'] and not o['snap']['buildfile'] and o['rc'] != 0 for o in obs):
        ev.event('B-note:dir-without-buildfile-left-after-failed-run(not a patch/diff failure)')
    if f is None and any(o['crash'] and o['rc'] == 0 for o in obs):
        # (was a confirmed finding, fixed in /repo: mesonmain.errorhandler returned `e.errno or 0`)
        f = Failure('required-lookup/exit-0-after-unhandled-OSError', case,
                    'a run printed an unhandled python exception and still exited with status 0; rcs '
                    + str([o['rc'] for o in obs]))
    if any(o['crash'] for o in obs):
        ev.event('B-note:unhandled-python-exception-on-corrupt-archive(outside the property)')
    if any(any(x.startswith('tmp') for x in o['snap']['cache']) for o in obs):
        ev.event('B-note:temp-file-left-in-packagecache')
    if f is None:
        return None
    if known is not None and f.sig in known:
        ev.event('failure-of-already-reported-signature')
        return None
    obs2, info2 = run_b(case, sub_proc=True)
    f2 = judge_b(case, obs2, info2)
    if f2 is None:
        ev.inproc_only += 1
        return None
    if known is not None:
        known.update((f.sig, f2.sig))
    return shrink_b(f2)


def shrink_b(f: Failure) -> Failure:
    """Greedy simplification towards the clean case while the same signature family persists (searched in-process,
    the result is confirmed by subprocess runs; otherwise the original, already confirmed, failure is kept)."""
    fam = _fam(f.sig)

    def still(c: dict, sub_proc: bool = False) -> T.Optional[Failure]:
        obs, info = run_b(c, sub_proc=sub_proc)
        g = judge_b(c, obs, info)
        return g if g is not None and _fam(g.sig) == fam else None

    cur = json.loads(json.dumps(f.case))
    cands: T.List[T.Callable[[dict], None]] = [
        lambda c: c.__setitem__('runs', c['runs'][:1]),
        lambda c: c.__setitem__('diff', 'none'),
        lambda c: c.__setitem__('patch', None) if c['buildfile'] != 'patch' else None,
        lambda c: c.__setitem__('nolead', False),
        lambda c: c.__setitem__('scheme', 'file'),
        lambda c: c.__setitem__('fmt', 'tar.gz'),
        lambda c: c['source'].__setitem__('fallback', '-') if c['source']['mode'] == 'url' else None,
        lambda c: c['source'].__setitem__('cache', None) if c['source']['mode'] == 'url' else None,
        lambda c: c.__setitem__('wm', 'default'),
    ]
    for mut in cands:
        c2 = json.loads(json.dumps(cur))
        mut(c2)
        if c2 == cur:
            continue
        if still(c2) is not None:
            cur = c2
    if cur != f.case:
        g = still(cur, sub_proc=True)
        if g is not None:
            return g
    return f


def _spec_url(primary: T.Optional[str], fallback: T.Optional[str], cache: T.Optional[str], h: str) -> dict:
    return {'mode': 'url', 'primary': primary, 'fallback': fallback, 'cache': cache, 'hash': h}


def base_b() -> dict:
    return {'fmt': 'tar.gz', 'scheme': 'file', 'nolead': False, 'buildfile': 'source', 'wm': 'default',
            'source': _spec_url('sG', '-', None, 'sG'), 'patch': None, 'diff': 'none', 'runs': ['setup', 'setup']}


def systematic_b() -> T.List[dict]:
    """Single-fault (and a few double-fault) cases: every corruption class at every acquisition location,
    every step fault, both wrap modes, all second-run flavours."""
    out: T.List[dict] = []

    def mk(**kw: T.Any) -> dict:
        c = base_b()
        c.update(json.loads(json.dumps(kw)))
        if c['patch'] is None and c['buildfile'] == 'patch':
            c['buildfile'] = 'none'
        return c

    runs_all = [['setup', 'setup'], ['setup', 'download'], ['download', 'setup'], ['download', 'download']]
    corr = ['G', 'F', 'O', 'T', 'X', None]
    for role, key in (('source', 's'), ('patch', 'p')):
        def put(spec: dict, **kw: T.Any) -> None:
            for wm in ('default', 'nodownload'):
                for runs in (runs_all if kw.pop('allruns', False) else [['setup', 'setup'], ['download', 'setup']]):
                    if role == 'source':
                        out.append(mk(source=spec, wm=wm, runs=runs, **kw))
                    else:
                        out.append(mk(patch=spec, wm=wm, runs=runs, **kw))
        G = key + 'G'
        for c in corr:
            v = None if c is None else key + c
            put(_spec_url(v, '-', None, G))                      # primary URL only
            put(_spec_url(v, G, None, G))                        # bad primary, good fallback
            put(_spec_url(G, v, None, G))                        # good primary, fallback irrelevant
            put(_spec_url(None, v, None, G))                     # primary missing, fallback class c
            put(_spec_url(key + 'F', v, None, G))                # primary mismatching, fallback class c
            if c is not None:
                put(_spec_url(G, '-', v, G))                     # cache holds class c, URL good
                put(_spec_url(None, '-', v, G))                  # cache holds class c, URL dead
            put({'mode': 'files', 'files': v, 'hash': G})        # packagefiles with hash
            put({'mode': 'files', 'files': v, 'hash': None})     # packagefiles without hash
        for h in ('Gup', 'O', 'T', 'F', 'rnd'):
            hv = key + h
            put(_spec_url(G, '-', None, hv))
            put(_spec_url(G, key + 'O', None, hv))
            put(_spec_url(G, key + 'T', key + 'O', hv))
            put(_spec_url(key + 'T', '-', None, hv))
            put({'mode': 'files', 'files': G, 'hash': hv})
            put({'mode': 'files', 'files': key + (h if h in ('O', 'T', 'F') else 'G'), 'hash': hv})
    # step faults behind a clean source
    for wm in ('default', 'nodownload'):
        for runs in runs_all:
            for src in (_spec_url('sG', '-', None, 'sG'), _spec_url(None, '-', 'sG', 'sG'), {'mode': 'files', 'files': 'sG', 'hash': None}):
                for diff in ('ok', 'bad', 'missing'):
                    out.append(mk(source=src, diff=diff, wm=wm, runs=runs))
                    out.append(mk(source=src, diff=diff, wm=wm, runs=runs, patch={'mode': 'dir', 'exists': True}, buildfile='patch'))
                for pd in (True, False):
                    out.append(mk(source=src, patch={'mode': 'dir', 'exists': pd}, wm=wm, runs=runs, buildfile='patch'))
                    out.append(mk(source=src, patch={'mode': 'dir', 'exists': pd}, wm=wm, runs=runs))
                for bf in ('none', 'patch'):
                    out.append(mk(source=src, buildfile=bf, wm=wm, runs=runs))
                out.append(mk(source=src, buildfile='patch', patch=_spec_url('pT', '-', None, 'pT'), wm=wm, runs=runs))
                out.append(mk(source=src, buildfile='patch', patch=_spec_url('pG', '-', None, 'pG'), wm=wm, runs=runs))
                out.append(mk(source=src, buildfile='patch', patch={'mode': 'files', 'files': 'pX', 'hash': None}, wm=wm, runs=runs))
    # unpack fails on a hash-matching corrupt source; formats; lead dir; http
    for fmt in ('tar.gz', 'zip'):
        for nolead in (False, True):
            for scheme in ('file', 'http'):
                for wm in ('default', 'nodownload'):
                    out.append(mk(fmt=fmt, nolead=nolead, scheme=scheme, wm=wm))
                    out.append(mk(fmt=fmt, nolead=nolead, scheme=scheme, wm=wm, source=_spec_url('sT', '-', None, 'sT')))
                    out.append(mk(fmt=fmt, nolead=nolead, scheme=scheme, wm=wm, source=_spec_url('sF', 'sG', None, 'sG'), diff='ok'))
                    out.append(mk(fmt=fmt, nolead=nolead, scheme=scheme, wm=wm, source=_spec_url(None, None, 'sG', 'sG'),
                                  patch=_spec_url('pG', '-', None, 'pG'), buildfile='patch'))
                    out.append(mk(fmt=fmt, nolead=nolead, scheme=scheme, wm=wm, source=_spec_url('sG', '-', 'sG', 'sG'),
                                  patch=_spec_url('pF', 'pO', None, 'pG'), buildfile='patch'))
    seen: T.Set[str] = set()
    uniq = []
    for c in out:
        k = json.dumps(c, sort_keys=True)
        if k not in seen:
            seen.add(k)
            uniq.append(c)
    return uniq


def random_b(rnd: random.Random) -> dict:
    def spec(key: str) -> dict:
        G = key + 'G'
        cls = lambda: rnd.choice([G, G, G, key + 'F', key + 'O', key + 'T', key + 'X', None])   # noqa: E731
        hsh = rnd.choice([G, G, G, G, key + 'Gup', key + 'O', key + 'T', key + 'F', key + 'rnd'])
        if rnd.random() < 0.7:
            return _spec_url(cls(), rnd.choice(['-', cls(), cls()]), rnd.choice([None, None, cls()]), hsh)
        return {'mode': 'files', 'files': cls(), 'hash': rnd.choice([hsh, None])}
    c = base_b()
    c['fmt'] = rnd.choice(['tar.gz', 'tar.gz', 'zip'])
    c['scheme'] = rnd.choice(['file', 'http'])
    c['nolead'] = rnd.random() < 0.2
    c['wm'] = rnd.choice(['default', 'default', 'nodownload'])
    c['source'] = spec('s')
    pk = rnd.random()
    if pk < 0.45:
        c['patch'] = spec('p')
    elif pk < 0.6:
        c['patch'] = {'mode': 'dir', 'exists': rnd.random() < 0.7}
    c['buildfile'] = rnd.choice(['source', 'source', 'patch', 'none']) if c['patch'] is not None else rnd.choice(['source', 'source', 'source', 'none'])
    c['diff'] = rnd.choice(['none', 'none', 'ok', 'bad', 'missing'])
    c['runs'] = [rnd.choice(['setup', 'download']), rnd.choice(['setup', 'download'])]
    return c


def _shard_b(shard: T.List[dict], ev: Evidence, fails: T.List[Failure]) -> None:
    _prep()
    sigs: T.Set[str] = set()
    try:
        for case in shard:
            f = check_b(case, ev, sigs)
            if f is not None:
                sigs.add(f.sig)
                if len({_fam(x.sig) for x in fails} | {_fam(f.sig)}) <= 6 and len(fails) < 12:
                    fails.append(f)
    finally:
        _cleanup_proc()


# ---------------------------------------------------------------------------------------------------------

def selftest(ctx: Ctx) -> None:
    # the reference model against the documentation's own examples
    def one(cfg: dict, steps: list, want: list, err: T.Optional[int] = None) -> None:
        base = {'sys': None, 'cons': None, 'wrap': 'none', 'sp_ovr': False, 'spver': '2.0', 'wm': 'default', 'fff': []}
        base.update(cfg)
        alts = R.alternatives(base, steps)
        got = {(json.dumps(s.results), s.error_at) for s in alts}
        if got != {(json.dumps(want), err)}:
            raise HarnessError(f'reference policy self-test failed: {base} {steps}: {got} != {want}, {err}')
    # Wrap manual 212-232: optional lookup does not use the wrap, the required one does, explicit fallback does
    one({'wrap': 'names', 'sp_ovr': True}, [['dep', 'false', 'unset', 'none'], ['dep', 'true', 'unset', 'none']], [['nf'], ['int', '2.0']])
    one({'wrap': 'names', 'sp_ovr': True}, [['dep', 'auto', 'unset', 'none'], ['dep', 'false', 'unset', 'novar']], [['nf'], ['int', '2.0']])
    one({'wrap': 'names', 'sp_ovr': True}, [['dep', 'auto', 'true', 'none']], [['int', '2.0']])
    # Wrap manual 238-240: forced optional lookups fall back
    one({'wrap': 'names', 'sp_ovr': True, 'wm': 'forcefallback', 'sys': '1.0'}, [['dep', 'auto', 'unset', 'none']], [['int', '2.0']])
    one({'wrap': 'names', 'sp_ovr': True, 'fff': ['sp'], 'sys': '1.0'}, [['dep', 'auto', 'unset', 'none']], [['int', '2.0']])
    # Subprojects.md: nofallback only looks at the system; force_fallback_for takes precedence over it
    one({'wm': 'nofallback'}, [['dep', 'false', 'unset', 'var']], [['nf']])
    one({'wm': 'nofallback'}, [['dep', 'true', 'unset', 'var']], [['nf']], 0)
    one({'wm': 'nofallback', 'fff': ['foo'], 'sys': '1.0'}, [['dep', 'true', 'unset', 'var']], [['int', '2.0']])
    # Subprojects.md warning example: not forced -> system
    one({'sys': '1.0', 'fff': ['bar']}, [['dep', 'true', 'unset', 'var']], [['sys', '1.0']])
    # dependency.yaml: override returned independent of the system; disabled feature
    one({'sys': '1.0'}, [['ovr', '2.0'], ['dep', 'true', 'unset', 'none']], [None, ['int', '2.0']])
    one({'sys': '1.0'}, [['dep', 'disabled', 'unset', 'var']], [['nf']])
    if not R.sat('2.0', '>=1.5') or R.sat('1.0', '>=1.5') or not R.sat('1.0', '<1.5') or R.sat('2.0', '>=3'):
        raise HarnessError('reference version predicate self-test failed')
    v = {'sG': b'a', 'sO': b'b'}
    if R.verified_variants(_spec_url('sG', 'sO', None, R.sha256(b'b').upper()), v, False) != {'sO'} or \
            R.verified_variants(_spec_url('sG', 'sO', None, R.sha256(b'b')), v, True) != set() or \
            R.verified_variants({'mode': 'files', 'files': 'sG', 'hash': None}, v, True) != {'sG'}:
        raise HarnessError('reference verified-source self-test failed')
    # in-process isolation: a pair of cells that would expose dependency-cache leakage
    _prep()
    try:
        c1 = {'cfg': {'sys': '1.0', 'cons': None, 'wrap': 'none', 'sp_ovr': False, 'spver': '2.0', 'wm': 'default', 'fff': []},
              'steps': [['dep', 'false', 'unset', 'none']]}
        c2 = json.loads(json.dumps(c1))
        c2['cfg']['sys'] = '2.0'
        c3 = json.loads(json.dumps(c1))
        c3['cfg']['sys'] = None
        got = [run_a(c).results[0] for c in (c1, c2, c3, c1)]
        if got != [['sys', '1.0'], ['sys', '2.0'], ['nf'], ['sys', '1.0']]:
            raise HarnessError(f'in-process dependency caches leak between cells: {got}')
    finally:
        _cleanup_proc()


def _chunks(items: T.List[T.Any], n: int) -> T.List[T.List[T.Any]]:
    n = max(1, min(n, len(items)))
    return [items[i::n] for i in range(n)]


# dedicated deterministic probes for confirmed genuine defects (see reports/C10.md); the class is excluded from the campaign
PROBES: T.List[dict] = [
    {'probe': 'exit0', 'fmt': 'tar.gz', 'scheme': 'file', 'nolead': False, 'buildfile': 'source', 'wm': 'default',
     'source': {'mode': 'files', 'files': 'sG', 'hash': None}, 'patch': {'mode': 'files', 'files': 'pX', 'hash': None},
     'diff': 'none', 'runs': ['setup']},
]


def probe_exit0(case: dict) -> T.Optional[Failure]:
    """A required dependency() whose fallback cannot be prepared must make `meson setup` fail: [P] "with nothing suitable a
    required lookup is an error".  Observed: ERROR printed, exit status 0."""
    c = {k: v for k, v in case.items() if k != 'probe'}
    obs, _info = run_b(c, sub_proc=True)
    for o in obs:
        if o['rc'] == 0 and not o['found'] and o['cmd'] == 'setup':
            return Failure('required-lookup/exit-0-after-unhandled-OSError', case,
                           'dependency(\'foo\') is required, its only provider is a wrap whose overlay archive (packagefiles, no hash) is not an '
                           f'archive; meson prints an ERROR and stops configuring but exits with status {o["rc"]} (expected != 0: "with nothing '
                           f'suitable a required lookup is an error"); snapshot {o["snap"]}\n{o["tail"][-600:]}')
    return None


def run(ctx: Ctx) -> None:
    rnd = random.Random(ctx.seed * 7919 + 17)
    table = table_a(ctx.ev)
    if ctx.quick:
        # stratified: cells opening with a parent override are ~40% of the table but exercise one clause
        ovr = [c for c in table if c['steps'][0][0] == 'ovr']
        rest = [c for c in table if c['steps'][0][0] != 'ovr']
        n = ctx.n(1600, 0)
        cells = rnd.sample(ovr, min(len(ovr), n // 8)) + rnd.sample(rest, min(len(rest), n - n // 8))
    else:
        cells = table
    seqs = seq_cases(extended=not ctx.quick, ev=ctx.ev)
    # history family: cells whose outcome depends on the fallback options, judged after a prior configuration of the same
    # build directory under different fallback options (quick: sample)
    hist = []
    for c in table:
        cfg = c['cfg']
        if cfg['sys'] is None or len(c['steps']) != 1 or (cfg['wrap'] == 'none' and c['steps'][0][3] == 'none'):
            continue
        for prior in ({'wm': 'default', 'fff': []}, {'wm': 'forcefallback', 'fff': []}, {'wm': 'nofallback', 'fff': []}):
            if prior['wm'] != cfg['wm'] or prior['fff'] != cfg['fff']:
                hist.append({'cfg': cfg, 'steps': c['steps'], 'prior': prior})
    if ctx.quick:
        hist = rnd.sample(hist, min(len(hist), ctx.n(320, 0)))
    else:
        hist = rnd.sample(hist, min(len(hist), 6000))
    ctx.ev.extra['A_history_cells_run'] = len(hist)
    # static family: the same cells with `static: true` on every lookup (cells in which a subproject can provide the name)
    stat = [{'cfg': dict(c['cfg'], static=True), 'steps': c['steps']} for c in table
            if len(c['steps']) == 1 and (c['cfg']['wrap'] != 'none' or c['cfg']['sp_ovr'] or c['steps'][0][3] != 'none')]
    stat = rnd.sample(stat, min(len(stat), ctx.n(260, 4000)))
    ctx.ev.extra['A_static_cells_run'] = len(stat)
    # name-case family: the same selection of cells, the dependency spelled with capitals everywhere
    ncase = [{'cfg': dict(c['cfg'], depname='FooBar'), 'steps': c['steps']} for c in table
             if len(c['steps']) == 1 and (c['cfg']['wrap'] != 'none' or c['cfg']['sp_ovr'] or c['steps'][0][3] != 'none')]
    ncase = rnd.sample(ncase, min(len(ncase), ctx.n(200, 3000)))
    ctx.ev.extra['A_namecase_cells_run'] = len(ncase)
    seqs = seqs + hist + stat + ncase
    ctx.ev.extra['A_table_size'] = len(table)
    ctx.ev.extra['A_cells_run'] = len(cells)
    ctx.ev.extra['A_sequences_run'] = len(seqs)
    allA = cells + seqs
    rnd.shuffle(allA)
    pmap(ctx, _shard_a, _chunks(allA, 32))
    multi = multi_cases()
    if ctx.quick:
        multi = multi[ctx.seed % 2::2]
    ctx.ev.extra['A_multi_name_cases_run'] = len(multi)
    pmap(ctx, _shard_multi, _chunks(multi + pcpath_cases(), 16))
    sysb = systematic_b()
    nb = ctx.n(500, 9000)
    randb = [random_b(rnd) for _ in range(nb)]
    if ctx.quick:
        sysb = rnd.sample(sysb, min(len(sysb), ctx.n(700, 0)))
    ctx.ev.extra['B_systematic'] = len(sysb)
    ctx.ev.extra['B_random'] = len(randb)
    allB = sysb + randb
    rnd.shuffle(allB)
    pmap(ctx, _shard_b, _chunks(allB, 32))
    for probe in PROBES:
        ctx.fail(replay(ctx, probe, {}))
    ctx.exhaustive = not ctx.quick
    ctx.ev.extra['exhaustive_scope'] = ('thorough: the pruned (A) decision table and the extended sequence family are enumerated completely; '
                                        '(B) systematic single-fault list complete, multi-fault cases sampled. quick: (A) table sampled, core '
                                        'sequence family complete, (B) sampled')


def replay(ctx: Ctx, case: T.Any, doc: dict) -> T.Optional[Failure]:
    _prep()
    try:
        if case.get('probe') == 'exit0':
            return probe_exit0(case)
        if case.get('pcpath'):
            return check_pcpath(case, sub=True)
        if case.get('multi'):
            return check_multi(case, sub=True)
        if 'cfg' in case:
            return judge_a(case, run_a(case, sub=True))
        obs, info = run_b(case, sub_proc=True)
        return judge_b(case, obs, info)
    finally:
        _cleanup_proc()
