"""C01 - Build definitions evaluate exactly as the language reference prescribes.

Generated programs over the refmeson AST (harness/refmesongen.py) are evaluated by the reference evaluator
written from the documentation (harness/refmeson.py) and by the real `meson setup --backend=none`;
observed: exit status, located ERROR line, `Message:` trace, in-language asserts of every live variable.
"""
from __future__ import annotations

import copy
import glob
import hashlib
import json
import os
import random
import re
import shutil
import typing as T

from harness import refmeson as R
from harness.core import Ctx, Evidence, Failure, HarnessError, pmap, shard_seeds, REPO

LEVEL = 'exploration'
RULE = ('typed Hypothesis grammar over a JSON AST of the documented core language (literals in every spelling, all '
        'operators, ternary, indexing, documented str/array/dict/int/bool methods, range, get/set/is/unset_variable, '
        'if/elif/else, foreach over array/dict/range with break/continue, f-strings/.format), printed with the minimal '
        'parentheses the documented precedence requires plus generator-chosen redundant parentheses, whitespace, '
        'continuations and comments; modes: well-typed, exactly-one-injected-fault (52 fault kinds), subproject; '
        'file-splitting via subdir()/nested subdir()/subproject(); dedicated families: aliasing/immutability, '
        'short-circuit with erroring operand, precedence/associativity trees, escapes in \'..\' vs \'\'\'..\'\'\', floor '
        'division and modulo over signed operands, sorted keys()/values() and insertion-order iteration. Oracle: '
        'reference evaluator written from Syntax.md and the yaml reference; programs it classifies as undefined-by-docs '
        'are excluded and counted. non-trivial = the program contains a binary operator directly under a different '
        'operator without parentheses, or control flow, or an alias pattern, or an injected fault, or more than one '
        'file; distinct by sha1 of the printed files.')
ASSUMPTIONS = [
    'message() output appears on stdout as "Message: <args joined by one space>" (subproject: prefixed "<name>| "); only this framing, never error text, is taken from the tool',
    'operands of one expression are free of observable effects, so the documentation not fixing an evaluation order does not matter; programs where it would matter are excluded',
    'a shape the grammar itself excludes (chained comparison, stacked unary, nested ternary, assignment or positional-after-keyword in an argument list, break outside a loop) may be rejected either when the file is loaded or when the construct is reached; both message prefixes are accepted',
    'dictionary iteration order is insertion order (dict.yml, since 0.62); a merge that moves an overridden key observably is excluded',
    'int.to_string(fill:, format:) semantics are taken from dict/int yaml plus the pinned fixture test cases/common/286',
]

MSG_RE = re.compile(r'^(?:([A-Za-z_][A-Za-z_0-9]*)\| )?Message: ?(.*)$', re.S)
END_OK_RE = re.compile(r'^Build targets in project: \d+$')
ERR_RE = re.compile(r'^(?:(.*?):(\d+):(\d+): )?ERROR: (.*)$')
NOISE_RE = re.compile(r'^(?:[A-Za-z_][A-Za-z_0-9]*\| )?\S*meson\.build:\d+(?::\d+)?: (WARNING|DEPRECATION|NOTICE): ')


# ---------------------------------------------------------------------------------------------------
# building the program that is actually run: generated statements + final checks of every live variable

def _leaf_checks(v: T.Any, path: list, out: T.List[list], budget: T.List[int]) -> None:
    t = R.tname(v)
    if budget[0] <= 0:
        return
    if t in ('int', 'bool'):
        lit = R.lit_of(v)
        out.append(['bin', 'and', ['bin', '==', lit, path], ['bin', '==', path, lit]])
        budget[0] -= 1
    elif t == 'arr':
        for i, x in enumerate(v):
            _leaf_checks(x, ['idx', path, ['int', i, 'd']], out, budget)
    elif t == 'dict':
        for k, x in v.items():
            _leaf_checks(x, ['idx', path, R.lit_of(k)], out, budget)


def assigned_names(stmts: T.List[list], out: T.Set[str]) -> None:
    for s in stmts:
        k = s[0]
        if k in ('assign', 'plusassign'):
            out.add(s[1])
        elif k == 'if':
            for _, b in s[1]:
                assigned_names(b, out)
            if s[2] is not None:
                assigned_names(s[2], out)
        elif k == 'foreach':
            out.update(s[1])
            assigned_names(s[3], out)
        elif k == 'expr' and s[1][0] == 'call' and s[1][1] in ('set_variable', 'unset_variable') and s[1][2]:
            a = s[1][2][0][1]
            if a[0] == 'str' and a[2] == 's' and R._is_ident(a[1]):
                out.add(a[1])


def final_checks(env: T.Dict[str, T.Any], unspec: T.Set[str], mentioned: T.Set[str]) -> T.List[list]:
    out: T.List[list] = []
    for name in sorted(env):
        if name in unspec:
            continue
        v = env[name]
        t = R.tname(v)
        if t in ('range', 'subproject'):
            continue
        lit = R.lit_of(v)
        tag = ['str', 'F:' + name, 's']
        if t in ('int', 'bool', 'str'):
            out.append(['expr', ['call', 'message', [[None, tag], [None, ['id', name]]]]])
        # value AND type: == between different types is an error, and both operand orders close the int/bool leak
        out.append(['expr', ['call', 'assert', [[None, ['bin', 'and', ['bin', '==', lit, ['id', name]], ['bin', '==', ['id', name], lit]]],
                                                 [None, tag]]]])
        if t in ('arr', 'dict'):
            leaves: T.List[list] = []
            _leaf_checks(v, ['id', name], leaves, [6])
            for c in leaves:
                out.append(['expr', ['call', 'assert', [[None, c], [None, tag]]]])
    for name in sorted(mentioned):
        if name not in env and name not in unspec and name not in R.BUILTIN_NAMES:
            out.append(['expr', ['call', 'assert', [[None, ['not', ['call', 'is_variable', [[None, ['str', name, 's']]]]]],
                                                     [None, ['str', 'U:' + name, 's']]]]])
    return out


def with_finals(prog: dict, o: R.Outcome) -> dict:
    files = {k: list(v) for k, v in prog['files'].items()}
    mentioned: T.Set[str] = set()
    for path, st in files.items():
        if not path.startswith('subprojects/'):
            assigned_names(st, mentioned)
    files['meson.build'] = files['meson.build'] + final_checks(o.env, o.unspec, mentioned)
    for name, (env, unspec) in o.subenvs.items():
        path = f'subprojects/{name}/meson.build'
        m2: T.Set[str] = set()
        assigned_names(files[path], m2)
        files[path] = files[path] + final_checks(env, unspec, m2)
    return {'files': files}


# ---------------------------------------------------------------------------------------------------
# observation of the real tool

class Obs:
    def __init__(self, rc: int, out: str, err: str, escaped: str = '', hang: bool = False):
        self.rc, self.out, self.err, self.escaped, self.hang = rc, out, err, escaped, hang

    @property
    def unhandled(self) -> bool:
        t = self.out + self.err
        return bool(self.escaped) or 'Unhandled python exception' in t or 'Traceback (most recent call last)' in t \
            or 'This is a Meson bug and should be reported' in t or self.rc not in (0, 1)


class _CpuBudget(BaseException):
    """raised by SIGPROF inside the real tool when one in-process run burns more CPU than any generated program
    can need (the reference evaluator bounds every program to 20000 steps); BaseException so that meson's own
    `except Exception` handlers do not swallow it"""


def _on_sigprof(signum: int, frame: T.Any) -> None:
    raise _CpuBudget()


CPU_BUDGET_S = 5.0


def run_real(files: T.Dict[str, str], workdir: str, sub: bool) -> Obs:
    import signal
    import subprocess
    from harness import mesondrv as M
    src = os.path.join(workdir, 'p')
    shutil.rmtree(src, ignore_errors=True)
    M.write_tree(src, files)
    args = ['setup', '--backend=none', os.path.join(src, 'b'), src]
    try:
        if sub:
            try:
                r = M.run_sub(args, cwd=workdir, timeout=600, cpu_limit=60, max_output=32 << 20)
            except subprocess.TimeoutExpired:
                return Obs(-9, '', '', hang=True)
            if r.rc < 0:      # killed by the kernel: CPU or output limit (no generated program needs either)
                return Obs(-9, '', '', hang=True)
        else:
            old = signal.signal(signal.SIGPROF, _on_sigprof)
            signal.setitimer(signal.ITIMER_PROF, CPU_BUDGET_S, 0.5)   # re-fires: one swallowed exception must not disable the budget
            try:
                r = M.run_inproc(args, cwd=workdir)
            except _CpuBudget:
                return Obs(-9, '', '', hang=True)
            except BaseException as e:   # noqa: B902 - e.g. BreakRequest derives from BaseException and escapes mesonmain.run
                if isinstance(e, (KeyboardInterrupt, MemoryError)):
                    raise
                return Obs(2, '', '', escaped=f'{type(e).__name__}: {e}')
            finally:
                signal.setitimer(signal.ITIMER_PROF, 0)
                signal.signal(signal.SIGPROF, old)
        return Obs(r.rc, r.out, r.err)
    finally:
        shutil.rmtree(src, ignore_errors=True)


def parse_output(out: str, expected: T.List[T.Tuple[str, str]]) -> T.Tuple[T.List[T.Tuple[str, str]], T.Optional[T.Tuple[str, str]], int]:
    """-> (message blocks seen, (file, text) of the ERROR line or None, number of warning lines skipped).
    Multi-line payloads are cut using the line count of the corresponding expected message."""
    lines = out.split('\n')
    start = 0
    for i, ln in enumerate(lines):
        if ln.startswith('Host machine cpu:'):
            start = i + 1
            break
    else:
        for i, ln in enumerate(lines):
            if ln.startswith('Build type:'):
                start = i + 1
                break
    got: T.List[T.Tuple[str, str]] = []
    err = None
    noise = 0
    i = start
    while i < len(lines):
        ln = lines[i]
        m = MSG_RE.match(ln)
        if m and (ln.startswith('Message:') or '| Message:' in ln[:80]):
            scope = m.group(1) or ''
            k = expected[len(got)][1].count('\n') + 1 if len(got) < len(expected) else 1
            block = lines[i:i + k]
            first = m.group(2)
            rest = []
            for b in block[1:]:
                pre = scope + '| '
                rest.append(b[len(pre):] if scope and b.startswith(pre) else b)
            got.append((scope, '\n'.join([first] + rest)))
            i += k
            continue
        if END_OK_RE.match(ln):
            break
        me = ERR_RE.match(ln)
        if me:
            err = (me.group(1) or '', me.group(4))
            break
        if NOISE_RE.match(ln):
            noise += 1
        i += 1
    return got, err, noise


def norm_err(text: str) -> str:
    t = re.sub(r"'[^']*'|\"[^\"]*\"|`[^`]*`", 'Q', text)
    t = re.sub(r'<[^>]*>', 'O', t)
    t = re.sub(r'-?\d+', 'N', t)
    return t.strip()[:70]


def _norm_scope(entry: T.Tuple[str, str]) -> T.Tuple[str, str]:
    scope, text = entry
    if not scope:
        return (scope, text)
    return (scope, '\n'.join(l.strip() for l in text.split('\n')))


def compare(o: R.Outcome, ob: Obs) -> T.Optional[T.Tuple[str, str]]:
    """None if the real run agrees with the reference outcome, else (signature, explanation)."""
    got, err, _ = parse_output(ob.out, o.trace)
    # framing: inside a subproject mlog strips every output line, so whitespace at line ends is not observable there
    exp = [_norm_scope(x) for x in o.trace]
    got = [_norm_scope(x) for x in got]
    if o.kind == 'ok':
        if ob.unhandled:
            return ('status/ok-crashed', f'reference: succeeds; real: unhandled exception (rc={ob.rc}) {ob.escaped}')
        if ob.rc != 0:
            etxt = err[1] if err else '?'
            m = re.match(r'Assert failed: ([FU]):(\w+)', etxt)
            if m:
                if m.group(1) == 'U':
                    return ('value/variable-should-not-exist', f'variable {m.group(2)} exists in the real run but not per the reference')
                v = o.env.get(m.group(2))
                if v is None:
                    for env, _u in o.subenvs.values():
                        v = env.get(m.group(2), v)
                return (f'value/final-mismatch:{R.tname(v) if v is not None else "?"}',
                        f'variable {m.group(2)}: reference value {v!r}; the in-language assert of that value failed')
            if got != exp[:len(got)]:
                k = [a != b for a, b in zip(got, exp)].index(True) if any(a != b for a, b in zip(got, exp)) else len(got)
                return ('trace/mismatch', f'message #{k}: reference {exp[k] if k < len(exp) else None!r}, real {got[k] if k < len(got) else None!r} (and then ERROR: {etxt})')
            return (f'status/ok-rejected:{norm_err(etxt)}', f'reference: succeeds; real: rc={ob.rc} ERROR: {etxt}')
        if got != exp:
            k = 0
            while k < len(got) and k < len(exp) and got[k] == exp[k]:
                k += 1
            return ('trace/mismatch', f'message #{k}: reference {exp[k] if k < len(exp) else None!r}, real {got[k] if k < len(got) else None!r}')
        return None
    # error expected
    why = o.reason
    if ob.unhandled and ob.rc != 0 and not ob.hang:
        # The property demands that `meson setup` FAILS in these cases; it does (non-zero exit). That the failure is a
        # Python traceback rather than a located ERROR (observed: `break`/`continue` outside a loop) is not something
        # C01 states, so it is recorded (class 'error-expected/unclean-failure') and not judged.
        return None
    if ob.unhandled:
        return (f'error/unhandled:{why}', f'reference: rejected ({why}); real: not a MesonException - {ob.escaped or "Unhandled python exception / traceback"} (rc={ob.rc})')
    if ob.rc == 0:
        return (f'status/error-accepted:{why}', f'reference: rejected ({why}); real: rc=0')
    if err is None or not err[0]:
        return (f'error/unlocated:{why}', f'reference: rejected ({why}); real: rc={ob.rc} but no "file:line:col: ERROR:" line')
    if not any(err[0].endswith('p/' + f) for f in o.error_files):
        return (f'error/wrong-file:{why}', f'reference: fault in {o.error_files}; real ERROR located in {err[0]}')
    if not any(got == exp[:n] for n in o.prefix_lens):
        return (f'trace/error-prefix:{why}', f'reference: messages before the fault {[exp[:n] for n in o.prefix_lens]}; real {got}; ERROR: {err[1]}')
    return None


# ---------------------------------------------------------------------------------------------------
# judging one case

def _has_unparenthesised_nesting(e: T.Any) -> bool:
    if not isinstance(e, list) or not e:
        return False
    if e[0] == 'bin':
        for sub in (e[2], e[3]):
            if isinstance(sub, list) and sub and sub[0] in ('bin', 'not', 'neg') and (sub[0] != 'bin' or sub[1] != e[1]):
                return True
    if e[0] in ('not', 'neg') and isinstance(e[1], list) and e[1][0] in ('meth', 'idx'):
        return True
    return any(_has_unparenthesised_nesting(x) for x in e[1:] if isinstance(x, list))


def _has_control(stmts: T.Any) -> bool:
    return any(isinstance(s, list) and s and s[0] in ('if', 'foreach') for s in stmts)


def nontrivial(case: dict) -> bool:
    files = case['files']
    if case.get('fault') or len(files) > 1 or case.get('family') in ('alias', 'shortcircuit'):
        return True
    for st in files.values():
        if _has_control(st) or _has_unparenthesised_nesting(st):
            return True
    return False


# documented behaviours the real tool is confirmed to break (reported findings): programs that meet one are
# excluded from the random campaign (counted); each is re-checked by one deterministic probe in PROBES
KNOWN_FLAGS: T.Dict[str, str] = {}   # (both former classes, int-in-dict and bool-to_string-empty, are fixed in /repo and generated again)


_CONFIRMED: T.Dict[str, int] = {}     # per process: signature -> number of subprocess confirmations so far


def judge(case: dict, workdir: str, ev: Evidence, record: bool = True, always_confirm: bool = False,
          sub_first: bool = False) -> T.Optional[Failure]:
    from harness import mesondrv  # noqa: F401  (import early so that failures are harness errors)
    prog = {'files': case['files']}
    style = case.get('style') or []
    o = R.evaluate(prog)
    cls = case.get('family') or ('+'.join(case.get('classes') or []) or 'typed')
    if o.kind == 'undefined':
        if record:
            ev.exclude('undefined by docs: ' + o.reason)
        return None
    for fl in sorted(o.flags):
        if fl in KNOWN_FLAGS and not case.get('probe'):
            if record:
                ev.exclude('known finding class: ' + KNOWN_FLAGS[fl])
            return None
    if o.kind == 'ok':
        full = with_finals(prog, o)
        o2 = R.evaluate(full)
        if o2.kind != 'ok':
            raise HarnessError(f'final checks changed the reference outcome: {o2!r}')
        run_prog, ref = full, o2
    else:
        run_prog, ref = prog, o
    texts = R.print_program(run_prog, style)
    if record:
        sample = None
        key = (cls if o.kind == 'ok' else (('fault:' + case['fault']) if case.get('fault') else cls + ':error'))
        if ev.hist.get(key, 0) < 3:
            sample = {'files': texts, 'reference': o.kind + (': ' + o.reason if o.reason else ''), 'messages': [t for _, t in ref.trace][:12]}
        fpr = hashlib.sha1(json.dumps(texts, sort_keys=True).encode('utf-8', 'surrogatepass')).digest()[:8]
        ev.case(None, nontrivial=nontrivial(case), cls=key, sample=sample, fingerprint=fpr)
        ev.event('outcome:' + o.kind)
        if o.kind == 'error':
            ev.event('error-kind:' + o.error_kind)
    ob = run_real(texts, workdir, sub=sub_first)
    if ob.hang:
        # no time-based verdicts: a run that exhausts the CPU budget is counted as inconclusive, never as a violation
        ev.event('inconclusive:real-run-exceeded-cpu-budget')
        return None
    if record and ref.kind == 'error' and ob.unhandled and ob.rc != 0:
        ev.event('error-expected/unclean-failure')
    d = compare(ref, ob)
    if d is None:
        return None
    if sub_first:
        ob2, d2 = ob, d
    elif not always_confirm and _CONFIRMED.get(d[0], 0) >= 2:
        # this root cause was already reproduced twice in fresh subprocesses by this worker; every failure that is
        # finally reported is confirmed again in _shard (always_confirm)
        ob2, d2 = ob, d
    else:
        ob2 = run_real(texts, workdir, sub=True)
        if ob2.hang:
            ev.event('inconclusive:real-run-exceeded-cpu-budget')
            return None
        d2 = compare(ref, ob2)
        if d2 is None:
            ev.inproc_only += 1
            return None
        _CONFIRMED[d2[0]] = _CONFIRMED.get(d2[0], 0) + 1
    sig, why = d2
    tail = ob2.out[-1200:] if len(ob2.out) > 1200 else ob2.out
    msg = (why + '\n--- files ---\n' + '\n'.join(f'## {k}\n{v}' for k, v in texts.items())
           + f'\n--- reference: {ref.kind} {ref.reason}\n--- real rc={ob2.rc}\n{tail}\n{ob2.err[-600:]}')
    return Failure(sig, {'files': case['files'], 'style': style, 'fault': case.get('fault'), 'classes': case.get('classes'),
                         'family': case.get('family')}, msg)


# ---------------------------------------------------------------------------------------------------
# deterministic probes: one per confirmed finding (so it is re-reported every run / after a fix regresses)

def _P(*stmts: list) -> dict:
    from harness.refmesongen import project_stmt
    return {'meson.build': [project_stmt('p')] + list(stmts)}


def _msg(*args: list) -> list:
    return ['expr', ['call', 'message', [[None, a] for a in args]]]


def _s(x: str) -> list:
    return ['str', x, 's']


PROBES: T.List[dict] = [
    {'sig': 'operator/int-in-dict-rejected', 'kind': 'judge',
     'what': "Syntax.md (Dictionaries): `if 42 in my_dict  # This condition is false`; real: ERROR 'The `in` operator of dict does not accept objects of type int'",
     'files': _P(['assign', 'd', ['dict', [[_s('foo'), ['int', 42, 'd']], [_s('bar'), ['int', 43, 'd']]]]],
                 ['if', [[['bin', 'in', ['int', 42, 'd'], ['id', 'd']], [_msg(_s('true'))]]], [_msg(_s('false'))]],
                 ['assign', 'x', ['bin', 'not in', ['int', 42, 'd'], ['id', 'd']]])},
    {'sig': 'method/bool-to_string-empty-arg', 'kind': 'judge',
     'what': "bool.yml to_string: the two positional strings 'specify what to return for true/false'; real: an empty string argument is replaced by 'true'/'false'",
     'files': _P(['assign', 'a', ['meth', ['bool', True], 'to_string', [[None, _s('')], [None, _s('no')]]]],
                 ['assign', 'b', ['meth', ['bool', False], 'to_string', [[None, _s('yes')], [None, _s('')]]]],
                 _msg(['bin', '+', ['bin', '+', _s('<'), ['id', 'a']], _s('>')]))},
    {'sig': 'escape/unknown-unicode-name-crash', 'kind': 'nocrash',
     'what': "Syntax.md: 'Unrecognized escape sequences are left in the string unchanged'; real: '\\N{no such name}' -> Unhandled python exception (UnicodeDecodeError) while parsing",
     'files': _P(['assign', 'x', ['str', 'a\\N{NO SUCH CHARACTER NAME}b', 's']], _msg(['id', 'x']))},
]


def run_probe(p: dict, workdir: str, ev: Evidence) -> T.Optional[Failure]:
    case = {'files': p['files'], 'style': [], 'probe': True, 'family': 'probe'}
    if p['kind'] == 'judge':
        f = judge(case, workdir, ev)
        if f is None:
            return None
        return Failure(p['sig'], {'probe': p['sig']}, p['what'] + '\n' + f.msg)
    texts = R.print_program({'files': p['files']}, [])
    ev.case(None, nontrivial=True, cls='probe', fingerprint=hashlib.sha1(json.dumps(texts).encode()).digest()[:8])
    ob = run_real(texts, workdir, sub=True)
    if ob.unhandled:
        return Failure(p['sig'], {'probe': p['sig']}, p['what'] + '\n--- files ---\n' + texts['meson.build'] + f'\n--- real rc={ob.rc}\n' + ob.out[-1500:] + ob.err[-500:])
    return None


# ---------------------------------------------------------------------------------------------------
# campaign

class _Found(Exception):
    pass


def bounded_campaign(strategy: T.Any, check: T.Callable[[T.Any, bool], T.Optional[Failure]], n: int, seed: int,
                     fails: T.List[Failure], max_buckets: int = 6, shrink_calls: int = 200) -> None:
    """core.campaign (collect-then-shrink) with two differences: the shrink pass does not record evidence, and it is
    bounded by a number of oracle calls per bucket (process-level cases are expensive), after which the smallest
    failing case found so far is kept."""
    import hypothesis
    from hypothesis import given
    from harness.core import hyp_settings
    buckets: T.Dict[str, Failure] = {}

    def body(case: T.Any) -> None:
        f = check(case, True)
        if f is not None and f.sig not in buckets and len(buckets) < max_buckets:
            buckets[f.sig] = f

    hypothesis.seed(seed)(hyp_settings(n)(given(strategy)(body)))()
    for sig, f0 in list(buckets.items()):
        best = [f0]
        calls = [0]
        found_once = [False]

        def body2(case: T.Any, sig: str = sig, best: list = best, calls: list = calls, found_once: list = found_once) -> None:
            if found_once[0]:
                calls[0] += 1
                if calls[0] > shrink_calls:
                    return
            f = check(case, False)
            if f is not None and f.sig == sig:
                found_once[0] = True
                best[0] = f
                raise _Found()

        try:
            hypothesis.seed(seed)(hyp_settings(n, shrink=True)(given(strategy)(body2)))()
        except _Found:
            pass
        except Exception:
            pass
        fails.append(best[0])


def _shard(shard: T.Tuple[str, str, int, int, str], ev: Evidence, fails: T.List[Failure]) -> None:
    from harness import refmesongen as G
    kind, name, seed, n, scratch = shard
    workdir = os.path.join(scratch, f'w-{kind}-{name}-{seed}')
    os.makedirs(workdir, exist_ok=True)
    strat = G.programs(name) if kind in ('mode', 'submode') else G.family(name)
    sub_first = kind == 'submode'
    try:
        found: T.List[Failure] = []
        bounded_campaign(strat, lambda case, rec: judge(case, workdir, ev, record=rec, sub_first=sub_first), n, seed, found,
                         shrink_calls=150 if n < 1000 else 400)
        scratch_ev = Evidence()
        for f in found:
            f2 = judge(f.case, workdir, scratch_ev, record=False, always_confirm=True)
            if f2 is not None:
                fails.append(f2)
            else:
                ev.inproc_only += 1
    finally:
        shutil.rmtree(workdir, ignore_errors=True)


def _probe_shard(shard: T.Tuple[int, str], ev: Evidence, fails: T.List[Failure]) -> None:
    i, scratch = shard
    workdir = os.path.join(scratch, f'probe-{i}')
    os.makedirs(workdir, exist_ok=True)
    try:
        f = run_probe(PROBES[i], workdir, ev)
        if f is not None:
            fails.append(f)
    finally:
        shutil.rmtree(workdir, ignore_errors=True)


def run(ctx: Ctx) -> None:
    scratch = ctx.scratch
    pmap(ctx, _probe_shard, [(i, scratch) for i in range(len(PROBES))])
    seeds = shard_seeds(ctx, 64)
    shards: T.List[T.Tuple[str, str, int, int, str]] = []
    # 16 workers: 7 typed, 5 fault, 1 subproject, 3 shared by the six families (two per worker slot)
    n_typed = ctx.n(330, 7200)
    n_fault = ctx.n(330, 7200)
    n_sub = ctx.n(250, 5000)
    n_fam = ctx.n(170, 3600)
    k = 0
    for _ in range(7):
        shards.append(('mode', 'ok', seeds[k], n_typed, scratch))
        k += 1
    for _ in range(5):
        shards.append(('mode', 'fault', seeds[k], n_fault, scratch))
        k += 1
    shards.append(('mode', 'sub', seeds[k], n_sub, scratch))
    k += 1
    for fam in ('shortcircuit', 'alias', 'precedence', 'escapes', 'floordiv', 'sortedkeys'):
        shards.append(('family', fam, seeds[k], n_fam * (3 if fam == 'alias' else 1), scratch))
        k += 1
    if not ctx.quick:
        # fresh-subprocess-only runs: guards against in-process state masking a disagreement
        for j, mode in enumerate(['ok', 'fault', 'sub', 'ok', 'fault', 'ok', 'fault', 'ok'] * 2):
            shards.append(('submode', mode, seeds[k], ctx.n(1, 300), scratch))
            k += 1
    pmap(ctx, _shard, shards)
    ctx.ev.extra['probes'] = [p['sig'] for p in PROBES]


def replay(ctx: Ctx, case: T.Any, doc: dict) -> T.Optional[Failure]:
    workdir = os.path.join(ctx.scratch, 'replay')
    os.makedirs(workdir, exist_ok=True)
    if isinstance(case, dict) and 'probe' in case and 'files' not in case:
        for p in PROBES:
            if p['sig'] == case['probe']:
                return run_probe(p, workdir, ctx.ev)
        raise HarnessError(f'unknown probe {case["probe"]}')
    return judge(case, workdir, ctx.ev)


# ---------------------------------------------------------------------------------------------------
# self-test of the reference model: the documentation's own examples, and the independent parser against
# mparser on the repository's real build files (accept/reject + tree shape)

DOC_EXAMPLES: T.List[T.Tuple[str, T.Dict[str, T.Any]]] = [
    ("var1 = [1, 2, 3]\nvar2 = var1\nvar2 += [4]\n", {'var1': [1, 2, 3], 'var2': [1, 2, 3, 4]}),
    ("x = 1 + 2\ny = 3 * 4\nd = 5 % 3\nint_255 = 0xFF\nint_493 = 0o755\nint_1365 = 0b10101010101\n",
     {'x': 3, 'y': 12, 'd': 2, 'int_255': 255, 'int_493': 493, 'int_1365': 1365}),
    ("num = '42'.to_int()\nhex_var = '0xFF'.to_int()\noct_var = '0o755'.to_int()\nbin_var = '0b1010'.to_int()\ns = 42.to_string()\n",
     {'num': 42, 'hex_var': 255, 'oct_var': 493, 'bin_var': 10, 's': '42'}),
    ("a = 255.to_string(format: 'hex')\nb = 255.to_string(format: 'oct')\nc = 255.to_string(format: 'bin')\n",
     {'a': '0xff', 'b': '0o377', 'c': '0b11111111'}),
    ("t = true\ns = t.to_string()\ni = t.to_int()\ny = false.to_string('yes', 'no')\n", {'t': True, 's': 'true', 'i': 1, 'y': 'no'}),
    ("single_quote = 'contains a \\' character'\n", {'single_quote': "contains a ' character"}),
    ("str1 = 'abc'\nstr2 = 'xyz'\ncombined = str1 + '_' + str2\n", {'combined': 'abc_xyz'}),
    ("j1 = '/usr/share' / 'projectname'\nj2 = '/usr/local' / '/etc/name'\n", {'j1': '/usr/share/projectname', 'j2': '/etc/name'}),
    ("m = '''#include <foo.h>\nint main (int argc, char ** argv) {\n  return FOO_SUCCESS;\n}'''\nr = '''a\\nb'''\n",
     {'m': '#include <foo.h>\nint main (int argc, char ** argv) {\n  return FOO_SUCCESS;\n}', 'r': 'a\\nb'}),
    ("foo = 'abcd'\nb = foo[1]\n", {'b': 'b'}),
    ("template = 'string: @0@, number: @1@, bool: @2@'\nres = template.format('text', 1, true)\n", {'res': 'string: text, number: 1, bool: true'}),
    ("n = 10\nm = 'hi'\ns = f'int: @n@, string: @m@'\n", {'s': 'int: 10, string: hi'}),
    ("s = 'semicolons;as;separators'\ns = s.replace('as', 'are')\n", {'s': 'semicolons;are;separators'}),
    ("define = ' -Dsomedefine '\nstripped_define = define.strip()\nstring = 'xyxHelloxyx'.strip('xy')\n", {'stripped_define': '-Dsomedefine', 'string': 'Hello'}),
    ("target = 'x86_FreeBSD'\nupper = target.to_upper()\nlower = target.to_lower()\nis_fbsd = target.to_lower().contains('freebsd')\n"
     "is_x86 = target.startswith('x86')\nis_bsd = target.to_lower().endswith('bsd')\nplatform = target.substring(0, 3)\nsystem = target.substring(4)\n",
     {'upper': 'X86_FREEBSD', 'lower': 'x86_freebsd', 'is_fbsd': True, 'is_x86': True, 'is_bsd': True, 'platform': 'x86', 'system': 'FreeBSD'}),
    ("string = 'foobar'\na = string.substring(-5, -3)\nb = string.substring(1, -1)\nc = string.substring(64)\nd = string.substring(0, 64)\ne = string.substring(64, 0)\nf = string.substring()\n",
     {'a': 'oo', 'b': 'ooba', 'c': '', 'd': 'foobar', 'e': '', 'f': 'foobar'}),
    ("c1 = 'a b   c d '.split()\nc2 = 'a b   c d '.split(' ')\noutput = ' '.join(['foo', 'bar'])\npathsep = ':'\n"
     "path = pathsep.join(['/usr/bin', '/bin', '/usr/local/bin'])\np2 = '/usr' / 'local' / 'bin'\n",
     {'c1': ['a', 'b', 'c', 'd'], 'c2': ['a', 'b', '', '', 'c', 'd', ''], 'output': 'foo bar', 'path': '/usr/bin:/bin:/usr/local/bin', 'p2': '/usr/local/bin'}),
    ("version_array = '0.2.3'.split('.')\napi_version = '.'.join([version_array[0], version_array[1]])\napi2 = '@0@.@1@'.format(version_array[0], version_array[1])\n",
     {'version_array': ['0', '2', '3'], 'api_version': '0.2', 'api2': '0.2'}),
    ("name = 'Meson Docs.txt#Reference-manual'\nunderscored = name.underscorify()\n", {'underscored': 'Meson_Docs_txt_Reference_manual'}),
    ("version = '1.2.3'\nis_new = version.version_compare('>=2.0')\nc = '3.6'.version_compare('>=3.6.0')\nd = '3.6'.version_compare('>=3', '<4.0')\n",
     {'is_new': False, 'c': False, 'd': True}),
    ("my_array = [1, 2, 'string']\nsecond_element = my_array[1]\nlast_element = my_array[-1]\nmy_array += ['foo', 3, 4]\nmy_array += ['something']\nmy_array += 'else'\n",
     {'second_element': 2, 'last_element': 'string', 'my_array': [1, 2, 'string', 'foo', 3, 4, 'something', 'else']}),
    ("my_array = [1, 2]\na = 1 in my_array\nb = 1 not in my_array\n", {'a': True, 'b': False}),
    ("my_dict = {'foo': 42, 'bar': 'baz'}\nforty_two = my_dict['foo']\n", {'forty_two': 42}),
    ("my_dict = {'foo': 42, 'bar': 43}\na = 'foo' in my_dict\nb = 42 in my_dict\nc = 'foo' not in my_dict\n", {'a': True, 'b': False, 'c': False}),
    ("d = {'a' + 'b' : 42}\nk = 'cd'\nd += {k : 43}\n", {'d': {'ab': 42, 'cd': 43}}),
    ("items = ['a', 'continue', 'b', 'break', 'c']\nresult = []\nforeach i : items\n  if i == 'continue'\n    continue\n  elif i == 'break'\n    break\n  endif\n  result += i\nendforeach\n",
     {'result': ['a', 'b']}),
    ("x = true ? 1 : 2\n", {'x': 1}),
    ("r = range(5, 10, 2)\nv = r[2]\nn = 0\nforeach i : range(15)\n n += 1\nendforeach\n", {'v': 9, 'n': 15}),
    ("output = 'hello\\nworld\\n'.splitlines()\no2 = ''.splitlines()\n", {'output': ['hello', 'world'], 'o2': []}),
    ("a = 4.to_string(fill: 3)\nb = (-4).to_string(fill: 3)\nc = 255.to_string(format: 'hex', fill: 8)\nd = (-15).to_string(format: 'hex', fill: 6)\ne = '0_100'.to_int()\nf = '-0xf'.to_int()\ng = '007'.to_int()\n",
     {'a': '004', 'b': '-04', 'c': '0x0000ff', 'd': '-0x00f', 'e': 100, 'f': -15, 'g': 7}),
    ("d = {'b': 1, 'a': 2}\nk = d.keys()\nv = d.values()\nh = d.has_key('a')\ng = d.get('zz', 5)\nl = [1, [2, [3]]].flatten()\ns = [1, 2, 3, 4].slice(step: -1)\ne = [1, 2].get(5, 'fb')\n",
     {'k': ['a', 'b'], 'v': [2, 1], 'h': True, 'g': 5, 'l': [1, 2, 3], 's': [4, 3, 2, 1], 'e': 'fb'}),
    ("set_variable('foo', [1, 2])\nbar = get_variable('foo')\nz = get_variable('nope', 3)\ni1 = is_variable('foo')\nunset_variable('foo')\ni2 = is_variable('foo')\n",
     {'bar': [1, 2], 'z': 3, 'i1': True, 'i2': False}),
    ("a = -7 / 2\nb = -7 % 2\nc = 7 / -2\nd = 7 % -2\ne = 1 + 2 * 3 - 4 / 2\nf = not true or true and false\n", {'a': -4, 'b': 1, 'c': -4, 'd': -1, 'e': 5, 'f': False}),
]

DOC_ERRORS = [
    "my_dict = {'foo': 42, 'foo': 43}\n", "my_dict = {'foo': 42}\nx = my_dict['does_not_exist']\n", "x = 1 == '1'\n", "x = 1 < 2 < 3\n",
    "x = not not true\n", "x = true ? (false ? 1 : 2) : 3\n", "x = false and 1\nx = true and 1\n", "x = 1 / 0\n", "x = [1][1]\n", "foreach a, b : [1]\nendforeach\n",
    "unset_variable('x')\ny = x\n" if False else "x = 1\nunset_variable('x')\ny = x\n", "x = message('a')\n", "break\n", "x = range(3, 1)\n", "x = 'abc'.to_int()\n",
    "x = true.to_string('only')\n", "x = [].get(0)\n", "x = {}.get('k')\n", "x = 'a' + 1\n", "if 'x'\nendif\n", "assert(false)\n",
]


def _mparser_to_ast(node: T.Any) -> T.Any:
    from mesonbuild import mparser as mp
    c = _mparser_to_ast
    if isinstance(node, mp.CodeBlockNode):
        return [c(x) for x in node.lines]
    if isinstance(node, mp.ParenthesizedNode):
        return ['paren', c(node.inner)]
    if isinstance(node, mp.BooleanNode):
        return ['bool', bool(node.value)]
    if isinstance(node, mp.IdNode):
        return ['id', node.value]
    if isinstance(node, mp.NumberNode):
        raw = node.raw_value
        form = 'd'
        if raw[:2].lower() in ('0x', '0o', '0b'):
            form = raw[1].lower()
            if form == 'x' and any('A' <= ch <= 'F' for ch in raw[2:]):
                form = 'X'
        return ['int', node.value, form]
    if isinstance(node, mp.StringNode):
        kind = ('f' if node.is_fstring else '') + ('m' if node.is_multiline else 's')
        if kind == 'f':
            kind = 'fs'
        return ['str', node.raw_value, kind if kind in ('s', 'm', 'fs', 'fm') else 'fs']
    if isinstance(node, mp.ArrayNode):
        if node.args.kwargs:
            raise ValueError('kwargs in array')
        return ['arr', [c(x) for x in node.args.arguments]]
    if isinstance(node, mp.DictNode):
        return ['dict', [[c(k), c(v)] for k, v in node.args.kwargs.items()]]
    if isinstance(node, mp.NotNode):
        return ['not', c(node.value)]
    if isinstance(node, mp.UMinusNode):
        return ['neg', c(node.value)]
    if isinstance(node, mp.OrNode):
        return ['bin', 'or', c(node.left), c(node.right)]
    if isinstance(node, mp.AndNode):
        return ['bin', 'and', c(node.left), c(node.right)]
    if isinstance(node, mp.ComparisonNode):
        return ['bin', node.ctype, c(node.left), c(node.right)]
    if isinstance(node, mp.ArithmeticNode):
        op = {'add': '+', 'sub': '-', 'mul': '*', 'div': '/', 'mod': '%'}.get(node.operation, node.operation)
        return ['bin', op, c(node.left), c(node.right)]
    if isinstance(node, mp.TernaryNode):
        return ['tern', c(node.condition), c(node.trueblock), c(node.falseblock)]
    if isinstance(node, mp.IndexNode):
        return ['idx', c(node.iobject), c(node.index)]
    if isinstance(node, (mp.FunctionNode, mp.MethodNode)):
        a = node.args
        if a.incorrect_order():
            raise ValueError('order')
        args = [[None, c(x)] for x in a.arguments] + [[k.value, c(v)] for k, v in a.kwargs.items()]
        if isinstance(node, mp.FunctionNode):
            return ['call', node.func_name.value, args]
        return ['meth', c(node.source_object), node.name.value, args]
    if isinstance(node, mp.PlusAssignmentNode):
        return ['plusassign', node.var_name.value, c(node.value)]
    if isinstance(node, mp.AssignmentNode):
        return ['assign', node.var_name.value, c(node.value)]
    if isinstance(node, mp.IfClauseNode):
        els = None if isinstance(node.elseblock, mp.EmptyNode) else c(node.elseblock.block)
        return ['if', [[c(i.condition), c(i.block)] for i in node.ifs], els]
    if isinstance(node, mp.ForeachClauseNode):
        return ['foreach', [v.value for v in node.varnames], c(node.items), c(node.block)]
    if isinstance(node, mp.BreakNode):
        return ['break']
    if isinstance(node, mp.ContinueNode):
        return ['continue']
    raise ValueError(f'unconvertible node {type(node).__name__}')


def _as_stmt(x: T.Any) -> T.Any:
    if isinstance(x, list) and x and x[0] in ('assign', 'plusassign', 'if', 'foreach', 'break', 'continue'):
        if x[0] == 'if':
            return ['if', [[c, [_as_stmt(s) for s in b]] for c, b in x[1]], None if x[2] is None else [_as_stmt(s) for s in x[2]]]
        if x[0] == 'foreach':
            return ['foreach', x[1], x[2], [_as_stmt(s) for s in x[3]]]
        return x
    return ['expr', x]


def parser_differential(paths: T.Sequence[str]) -> T.Tuple[int, int, T.List[str]]:
    from mesonbuild import mparser as mp
    from mesonbuild.mesonlib import MesonException
    bad: T.List[str] = []
    both_ok = both_rej = 0
    for path in paths:
        try:
            with open(path, encoding='utf-8') as f:
                text = f.read()
        except (UnicodeDecodeError, OSError):
            continue
        theirs: T.Any
        try:
            theirs = [_as_stmt(s) for s in _mparser_to_ast(mp.Parser(text, path).parse())]
        except MesonException:
            theirs = None
        except ValueError:
            theirs = 'skip'
        try:
            mine: T.Any = R.parse(text)
        except R.ParseError as e:
            mine = None
            merr = str(e)
        if theirs == 'skip':
            continue
        if (theirs is None) != (mine is None):
            bad.append(f'{path}: mparser {"rejects" if theirs is None else "accepts"}, refmeson parser {"rejects: " + merr if mine is None else "accepts"}')
        elif theirs is None:
            both_rej += 1
        else:
            both_ok += 1
            if theirs != mine:
                bad.append(f'{path}: tree shapes differ')
    return both_ok, both_rej, bad


def selftest(ctx: Ctx) -> None:
    from harness.refmesongen import project_stmt
    for src, want in DOC_EXAMPLES:
        o = R.evaluate({'files': {'meson.build': [project_stmt('p')] + R.parse(src)}})
        if o.kind != 'ok' and not (o.kind == 'ok' or o.flags):
            raise HarnessError(f'reference evaluator fails a documentation example: {src!r} -> {o!r}')
        for k, v in want.items():
            if o.env.get(k) != v or type(o.env.get(k)) is not type(v):
                raise HarnessError(f'reference evaluator disagrees with the documentation: {src!r}: {k} = {o.env.get(k)!r}, documented {v!r}')
        # printer / parser round trip on the same text
        ast = R.parse(src)
        for style in ([], list(range(3, 90)), [7] * 60, [5, 8, 11, 2] * 30):
            if R.strip_parens(R.parse(R.print_file(ast, style))) != R.strip_parens(ast):
                raise HarnessError(f'printer/parser round trip changed the tree of {src!r} (style {style[:4]}...)')
    for src in DOC_ERRORS:
        try:
            ast = R.parse(src)
        except R.ParseError:
            continue
        o = R.evaluate({'files': {'meson.build': [project_stmt('p')] + ast}})
        if o.kind != 'error':
            raise HarnessError(f'reference evaluator accepts a program the documentation rejects: {src!r} -> {o!r}')
    if R.decode_escapes(r"\\ \' \a\b\f\n\r\t\v \101 \x41 A \U00000041 \N{DIGIT ONE} \q \8 \x4") != "\\ ' \a\b\f\n\r\t\v A A A A 1 \\q \\8 \\x4":
        raise HarnessError('escape decoder self-test')
    files = sorted(glob.glob(os.path.join(REPO, 'test cases', '**', 'meson.build'), recursive=True)) + \
        sorted(glob.glob(os.path.join(REPO, '**', 'meson.build'), recursive=True))
    files = sorted(set(files))
    if ctx.quick:
        rnd = random.Random(ctx.seed)
        files = rnd.sample(files, min(250, len(files)))
    ok, rej, bad = parser_differential(files)
    ctx.ev.extra['parser_differential'] = {'files': len(files), 'both_accept_same_tree': ok, 'both_reject': rej, 'disagreements': len(bad)}
    allowed = [b for b in bad if _known_parser_difference(b)]
    real_bad = [b for b in bad if b not in allowed]
    if real_bad:
        raise HarnessError('independent parser disagrees with mparser on repository build files:\n' + '\n'.join(real_bad[:10]))


def _known_parser_difference(line: str) -> bool:
    # mparser accepts `f(x = 1)` and only the interpreter rejects it; the reference parser follows the grammar
    # (an assignment is a statement).  The one repository file with that shape is a must-fail fixture.
    return '/test cases/failing/' in line and 'mparser accepts' in line and 'assignment inside an argument list' in line
